//! C07 under Miri: the `[T; S]` compression / decompression impls of fuel-compression
//! build the result in a `[MaybeUninit<_>; S]` and, when the context fails at element i,
//! drop the first i elements by hand. Elements with heap storage (`Vec<_>`) make a missed
//! or doubled drop visible to Miri (leak report at exit / double free), a read of an
//! uninitialised element is reported directly.
use crate::Rng;
use fuel_compression::{
    CompressibleBy,
    ContextError,
    DecompressibleBy,
    RegistryKey,
};
use fuel_types::{
    Address,
    AssetId,
};
use std::{
    cell::Cell,
    future::Future,
    pin::pin,
    task::{
        Context,
        Poll,
        Waker,
    },
};

pub struct Ctx {
    /// the k-th call (0-based) into the context fails; u64::MAX = never
    fail_at: u64,
    calls: Cell<u64>,
    table: Vec<[u8; 32]>,
}

#[derive(Debug, PartialEq)]
pub struct Failed(pub u64);

impl ContextError for Ctx {
    type Error = Failed;
}

impl Ctx {
    fn tick(&self) -> Result<(), Failed> {
        let c = self.calls.get();
        self.calls.set(c + 1);
        if c == self.fail_at { Err(Failed(c)) } else { Ok(()) }
    }
}

macro_rules! keyed {
    ($t:ty) => {
        impl CompressibleBy<Ctx> for $t {
            async fn compress_with(&self, ctx: &mut Ctx) -> Result<RegistryKey, Failed> {
                ctx.tick()?;
                let raw: [u8; 32] = **self;
                let idx = match ctx.table.iter().position(|x| *x == raw) {
                    Some(i) => i,
                    None => {
                        ctx.table.push(raw);
                        ctx.table.len() - 1
                    }
                };
                Ok(RegistryKey::try_from(idx as u32).expect("small"))
            }
        }
        impl DecompressibleBy<Ctx> for $t {
            async fn decompress_with(k: RegistryKey, ctx: &Ctx) -> Result<Self, Failed> {
                ctx.tick()?;
                Ok(<$t>::new(ctx.table[k.as_u32() as usize]))
            }
        }
    };
}
keyed!(Address);
keyed!(AssetId);

fn block_on<F: Future>(f: F) -> F::Output {
    let mut f = pin!(f);
    let mut cx = Context::from_waker(Waker::noop());
    loop {
        if let Poll::Ready(v) = f.as_mut().poll(&mut cx) {
            return v;
        }
    }
}

fn round<T>(v: &T, calls_needed: u64, fail: u64) -> (bool, bool)
where
    T: CompressibleBy<Ctx> + DecompressibleBy<Ctx> + PartialEq + std::fmt::Debug,
    T::Compressed: Clone,
{
    let mut ctx = Ctx { fail_at: fail, calls: Cell::new(0), table: vec![] };
    let c = match block_on(v.compress_with(&mut ctx)) {
        Ok(c) => c,
        Err(Failed(k)) => {
            assert_eq!(k, fail);
            return (false, false);
        }
    };
    assert!(fail >= calls_needed, "compression finished although the context was to fail at {fail}");
    // decompression: once clean, once failing at every position
    ctx.fail_at = u64::MAX;
    ctx.calls.set(0);
    let back: T = block_on(T::decompress_with(c.clone(), &ctx)).expect("clean decompression");
    assert_eq!(&back, v, "round trip");
    let mut failed_any = false;
    for k in 0..calls_needed {
        ctx.fail_at = k;
        ctx.calls.set(0);
        let r: Result<T, Failed> = block_on(T::decompress_with(c.clone(), &ctx));
        assert_eq!(r, Err(Failed(k)));
        failed_any = true;
    }
    (true, failed_any)
}

pub fn run(rng: &mut Rng, ok: &mut u64) {
    // plain arrays of registry-keyed values
    let a: [Address; 4] = [Address::new(rng.arr()), Address::new(rng.arr()), Address::new(rng.arr()), Address::new(rng.arr())];
    let n: [[AssetId; 2]; 3] = [
        [AssetId::new(rng.arr()), AssetId::new(rng.arr())],
        [AssetId::new(rng.arr()), AssetId::new(rng.arr())],
        [AssetId::new(rng.arr()), AssetId::new(rng.arr())],
    ];
    // arrays whose elements (and compressed elements) own heap memory
    let lens = [rng.usize_below(4), rng.usize_below(4), 1 + rng.usize_below(3)];
    let h: [Vec<Address>; 3] = [
        (0..lens[0]).map(|_| Address::new(rng.arr())).collect(),
        (0..lens[1]).map(|_| Address::new(rng.arr())).collect(),
        (0..lens[2]).map(|_| Address::new(rng.arr())).collect(),
    ];
    let hn: [[Vec<AssetId>; 2]; 2] = [
        [vec![AssetId::new(rng.arr())], vec![]],
        [vec![AssetId::new(rng.arr()), AssetId::new(rng.arr())], vec![AssetId::new(rng.arr())]],
    ];
    let e: [Address; 0] = [];
    let total_h = (lens[0] + lens[1] + lens[2]) as u64;
    for fail in (0..=7u64).chain([u64::MAX]) {
        if round(&a, 4, fail).0 { *ok += 1; }
        if round(&n, 6, fail).0 { *ok += 1; }
        if round(&h, total_h, fail).0 { *ok += 1; }
        if round(&hn, 4, fail).0 { *ok += 1; }
        if round(&e, 0, fail).0 { *ok += 1; }
    }
}
