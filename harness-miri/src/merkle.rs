//! C09–C14 under Miri (small): in-memory binary and sparse trees, incl. the
//! `MerkleTreeKey` constructors that wrap an `unsafe fn convert`.
use crate::Rng;
use fuel_merkle::{
    binary::{
        self,
        in_memory::MerkleTree as Bin,
    },
    sparse::{
        MerkleTreeKey,
        in_memory::MerkleTree as Smt,
        proof::Proof,
    },
};
use std::collections::BTreeMap;

pub fn run(rng: &mut Rng, ok: &mut u64) {
    // sparse: random updates / deletes over few keys, order independence, proofs
    let keys: Vec<[u8; 32]> = (0..5).map(|_| rng.arr()).collect();
    let mut t = Smt::new();
    let mut model: BTreeMap<[u8; 32], Vec<u8>> = BTreeMap::new();
    for _ in 0..10 {
        let k = *rng.pick(&keys);
        if rng.below(3) == 0 {
            t.delete(MerkleTreeKey::new(k));
            model.remove(&k);
        } else {
            let n = rng.usize_below(5);
            let v = rng.bytes(n);
            t.update(MerkleTreeKey::new(k), &v);
            model.insert(k, v);
        }
    }
    let fresh = Smt::from_set(model.iter().map(|(k, v)| (MerkleTreeKey::new(*k), v.clone())));
    assert_eq!(fresh.root(), t.root(), "history independence");
    let root = t.root();
    for k in &keys {
        let key = MerkleTreeKey::new(*k);
        match t.generate_proof(&key).expect("proof") {
            Proof::Inclusion(p) => {
                let v = model.get(k).expect("inclusion proof for a present key");
                assert!(p.verify(&root, &key, v));
                *ok += 1;
            }
            Proof::Exclusion(p) => {
                assert!(!model.contains_key(k), "exclusion proof for an absent key");
                assert!(p.verify(&root, &key));
                *ok += 1;
            }
        }
    }
    // binary
    let n = 1 + rng.below(6);
    let mut b = Bin::new();
    let leaves: Vec<Vec<u8>> = (0..n).map(|_| { let l = rng.usize_below(6); rng.bytes(l) }).collect();
    for l in &leaves {
        b.push(l);
    }
    let r = b.root();
    for i in 0..n {
        let (pr, set) = b.prove(i).expect("proof");
        assert_eq!(pr, r);
        assert!(binary::verify(&r, &leaves[i as usize], &set, i, n));
        *ok += 1;
    }
    b.reset();
    assert_eq!(b.root(), Bin::new().root());
}
