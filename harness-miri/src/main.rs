//! Reduced C01/C02 workload for Miri: drives the `unsafe` code in fuel-types::canonical
//! (Vec<u8> transmutes, MaybeUninit array decoding with partial drop on error, slice
//! re-borrows) through the transaction codec. Usage: `verif-harness-miri <seed> <cases>`.
//! Prints `MIRI-OK cases=<n> decoded_ok=<k>`; any Miri diagnostic fails the process.
#[path = "../../harness/src/rng.rs"]
mod rng;
pub use rng::Rng;
#[path = "../../harness/src/gen_tx.rs"]
mod gen_tx;
mod compress;
mod merkle;

use fuel_tx::{
    Input,
    Output,
    Receipt,
    Transaction,
};
use fuel_types::canonical::{
    Deserialize,
    Serialize,
};

fn cap_len_words(b: &mut [u8]) {
    // Miri really allocates: keep every 8-byte word that could be a length below 1 MiB
    for w in b.chunks_exact_mut(8) {
        let v = u64::from_be_bytes(w.try_into().unwrap());
        if v > (1 << 20) && v <= (1 << 40) {
            w.copy_from_slice(&((v % 4096).to_be_bytes()));
        }
    }
}

fn mutate(rng: &mut Rng, b: &[u8]) -> Vec<u8> {
    let mut v = b.to_vec();
    match rng.below(6) {
        0 if !v.is_empty() => {
            let i = rng.usize_below(v.len());
            v[i] ^= 1 << rng.below(8);
        }
        1 if !v.is_empty() => {
            let n = rng.usize_below(v.len());
            v.truncate(n);
        }
        2 if v.len() >= 8 => {
            let i = rng.usize_below(v.len() / 8) * 8;
            let val: u64 = *rng.pick(&[0u64, 1, 2, 7, 9, 255, 4096, 70000]);
            v[i..i + 8].copy_from_slice(&val.to_be_bytes());
        }
        3 => {
            let n = rng.usize_below(24);
            let extra = rng.bytes(n);
            v.extend_from_slice(&extra);
        }
        _ => {}
    }
    cap_len_words(&mut v);
    v
}

fn rt<T: Serialize + Deserialize + PartialEq + std::fmt::Debug>(rng: &mut Rng, v: &T, ok: &mut u64) {
    let bytes = v.to_bytes();
    assert_eq!(bytes.len(), v.size());
    let d = T::from_bytes(&bytes).expect("own encoding decodes");
    let _ = d;
    for _ in 0..3 {
        let m = mutate(rng, &bytes);
        let mut buf = &m[..];
        if let Ok(x) = T::decode(&mut buf) {
            *ok += 1;
            // fixed point
            let again = x.to_bytes();
            let y = T::from_bytes(&again).expect("re-encoding decodes");
            drop(y);
        }
    }
}

fn arrays(rng: &mut Rng, ok: &mut u64) {
    // MaybeUninit array path incl. the partial-drop-on-error branch (elements with Drop)
    let a: [Vec<u8>; 3] = [rng.bytes(3), rng.bytes(9), rng.bytes(0)];
    let bytes = a.to_bytes();
    for cut in [bytes.len(), bytes.len() / 2, 8, 0, bytes.len().saturating_sub(1)] {
        if <[Vec<u8>; 3]>::from_bytes(&bytes[..cut.min(bytes.len())]).is_ok() {
            *ok += 1;
        }
    }
    let b: [u16; 5] = [1, 2, 3, 4, rng.u64() as u16];
    let bb = b.to_bytes();
    assert_eq!(<[u16; 5]>::from_bytes(&bb).unwrap(), b);
    let _ = <[u16; 5]>::from_bytes(&bb[..bb.len() - 3]);
    let c: [u8; 7] = rng.arr();
    assert_eq!(<[u8; 7]>::from_bytes(&c.to_bytes()).unwrap(), c);
    let d: [[u8; 3]; 2] = [[1, 2, 3], [4, 5, 6]];
    assert_eq!(<[[u8; 3]; 2]>::from_bytes(&d.to_bytes()).unwrap(), d);
}

fn main() {
    let args: Vec<String> = std::env::args().collect();
    let seed: u64 = args.get(1).and_then(|s| s.parse().ok()).unwrap_or(0);
    let cases: u64 = args.get(2).and_then(|s| s.parse().ok()).unwrap_or(20);
    let mode = args.get(3).map(|s| s.as_str()).unwrap_or("codec");
    let mut ok = 0u64;
    if mode == "compress" {
        for i in 0..cases {
            let mut rng = Rng::derive(seed, 0x434f4d50, i);
            compress::run(&mut rng, &mut ok);
        }
        println!("MIRI-OK mode=compress cases={cases} completed_round_trips={ok}");
        return;
    }
    if mode == "merkle" {
        for i in 0..cases {
            let mut rng = Rng::derive(seed, 0x4d45524b, i);
            merkle::run(&mut rng, &mut ok);
        }
        println!("MIRI-OK mode=merkle cases={cases} proofs_verified={ok}");
        return;
    }
    for i in 0..cases {
        let mut rng = Rng::derive(seed, 0x4d495249, i);
        let o = gen_tx::FreeOpts { cap: 40, max_inputs: 3, max_outputs: 3, max_witnesses: 2, allow_empty_distinguishing: false };
        let tx: Transaction = gen_tx::free_tx(&mut rng, i as usize % 6, &o);
        rt(&mut rng, &tx, &mut ok);
        let v = rng.usize_below(7);
        let inp: Input = gen_tx::input(&mut rng, v, 40, false);
        rt(&mut rng, &inp, &mut ok);
        let out: Output = gen_tx::output(&mut rng, i as usize);
        rt(&mut rng, &out, &mut ok);
        let r: Receipt = gen_tx::receipt(&mut rng, i as usize, 40);
        let rb = r.to_bytes();
        let _ = Receipt::from_bytes(&rb).expect("receipt decodes");
        let m = mutate(&mut rng, &rb);
        let _ = Receipt::from_bytes(&m);
        arrays(&mut rng, &mut ok);
    }
    println!("MIRI-OK cases={cases} decoded_ok={ok}");
}
