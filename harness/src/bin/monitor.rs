//! `monitor <Cxx> --tier quick|thorough --seed N --out report.json [--threads N]
//!          [--scale F] [--replay file.json] [--work dir] [--opt k=v]...`
use std::collections::BTreeMap;
use verif_harness::{
    Cfg,
    mon,
};

fn main() {
    let args: Vec<String> = std::env::args().collect();
    if args.len() < 2 {
        eprintln!("usage: monitor <Cxx> [--tier T] [--seed N] [--out F] ...");
        std::process::exit(3);
    }
    let prop = args[1].clone();
    let mut cfg = Cfg {
        prop: prop.clone(),
        thorough: false,
        seed: 0,
        threads: std::thread::available_parallelism().map(|n| n.get()).unwrap_or(4),
        scale: 1.0,
        replay: None,
        work_dir: "work".into(),
        opts: BTreeMap::new(),
    };
    let mut out = None;
    let mut i = 2;
    while i < args.len() {
        let a = args[i].as_str();
        let v = args.get(i + 1).cloned().unwrap_or_default();
        match a {
            "--tier" => cfg.thorough = v == "thorough",
            "--seed" => cfg.seed = v.parse().expect("seed"),
            "--threads" => cfg.threads = v.parse().expect("threads"),
            "--scale" => cfg.scale = v.parse().expect("scale"),
            "--out" => out = Some(v.clone()),
            "--work" => cfg.work_dir = v.clone(),
            "--replay" => {
                let s = std::fs::read_to_string(&v).expect("replay file");
                let j: serde_json::Value = serde_json::from_str(&s).expect("replay json");
                // accept either the bare replay record or a wrapper with a `replay` member
                cfg.replay = Some(j.get("replay").cloned().unwrap_or(j));
            }
            "--opt" => {
                let (k, val) = v.split_once('=').unwrap_or((v.as_str(), "1"));
                cfg.opts.insert(k.to_string(), val.to_string());
            }
            _ => {
                eprintln!("unknown argument {a}");
                std::process::exit(3);
            }
        }
        i += 2;
    }
    verif_harness::install_panic_hook();
    let t0 = std::time::Instant::now();
    let Some(report) = mon::run(&cfg) else {
        eprintln!("no monitor for {prop}");
        std::process::exit(3);
    };
    let mut j = report.to_json();
    j["property_id"] = prop.clone().into();
    j["seed"] = cfg.seed.into();
    j["tier"] = (if cfg.thorough { "thorough" } else { "quick" }).into();
    j["monitor_wall_s"] = t0.elapsed().as_secs_f64().into();
    j["threads"] = cfg.threads.into();
    let s = serde_json::to_string_pretty(&j).unwrap();
    match out {
        Some(p) => std::fs::write(p, s).expect("write report"),
        None => println!("{s}"),
    }
}
