//! Scenario = a world with generated contracts + one generated script transaction.
//! Shared by the interpreter-level monitors (Group E).

use crate::{
    Rng,
    prog::{
        self,
        Env,
        Mode,
        Weights,
    },
    world::{
        ScriptSpec,
        World,
    },
};
use fuel_tx::{
    ConsensusParameters,
    GasCosts,
    StorageSlot,
};
use fuel_types::{
    Bytes32,
    ContractId,
    Salt,
};
use serde_json::{
    Value,
    json,
};

#[derive(Clone, Debug)]
pub struct ScenarioOpts {
    pub weights: Weights,
    pub contract_weights: Weights,
    /// 0 = default schedule, 1 = unit, 2 = free, 3 = randomised
    pub schedule: u8,
    pub gas_price: u64,
    pub max_contracts: usize,
    pub script_snippets: usize,
    pub contract_snippets: usize,
    /// per-mille probability that the gas limit is chosen small (runs out mid-program)
    pub tight_gas: u32,
    /// override of the consensus parameter `max_storage_slot_length` (None = standard)
    pub max_storage_slot_length: Option<u64>,
    /// per-mille probability (among the not-tight cases) of a medium gas limit in
    /// [400, 20_400): runs out inside callees / dependent charges. 0 = never (no extra
    /// random draw, generated scenarios unchanged)
    pub mid_gas: u32,
    /// > 0: "chain" shape for deep call nesting: exactly `chain` listed contracts, and
    /// contract k (k >= 1) calls contract k-1 right after its prelude. 0 = off.
    pub chain: usize,
    /// per-mille probability that 1..7 trailing bytes are appended to a generated
    /// contract's code (length not a multiple of 8: exercises the code padding). 0 = off.
    pub ragged_code: u32,
    /// per-mille probability that the consensus parameters leave the standard identity:
    /// random non-zero base asset id, another chain id, another `max_inputs` (moves the
    /// transaction image in VM memory). 0 = never (no extra random draw).
    pub vary_params: u32,
    /// per-mille probability (only with gas price 0) that the transaction has no base asset
    /// coin at all: the fee coin is of another asset, the fee limit is 0, and half of
    /// the time there is a base-asset change output and a data message of amount 0
    /// nevertheless. 0 = never (no extra random draw).
    pub no_base_input: u32,
}

impl Default for ScenarioOpts {
    fn default() -> Self {
        Self {
            weights: Weights::default(),
            contract_weights: Weights::default(),
            schedule: 0,
            gas_price: 0,
            max_storage_slot_length: None,
            max_contracts: 3,
            script_snippets: 14,
            contract_snippets: 10,
            tight_gas: 120,
            mid_gas: 0,
            chain: 0,
            ragged_code: 0,
            vary_params: 0,
            no_base_input: 0,
        }
    }
}

pub struct Scenario {
    pub world: World,
    pub spec: ScriptSpec,
    pub env: Env,
    pub info: Value,
}

pub fn params_with_schedule(rng: &mut Rng, schedule: u8) -> ConsensusParameters {
    let mut p = ConsensusParameters::standard();
    match schedule {
        1 => p.set_gas_costs(GasCosts::unit()),
        2 => p.set_gas_costs(GasCosts::free()),
        3 => p.set_gas_costs(random_gas_costs(rng)),
        _ => {}
    }
    p
}

/// Randomised schedule: every cost of the default schedule re-drawn, dependent costs with
/// random Light/Heavy parameters. Built through serde so that it does not depend on the
/// exact struct version.
pub fn random_gas_costs(rng: &mut Rng) -> GasCosts {
    let d = GasCosts::default();
    let mut v = serde_json::to_value(&d).expect("gas costs to json");
    fn walk(v: &mut Value, rng: &mut Rng) {
        match v {
            Value::Number(n) => {
                if n.is_u64() {
                    let x = match rng.below(6) {
                        0 => 0,
                        1 => 1,
                        2 => rng.below(10),
                        3 => rng.below(200),
                        _ => rng.below(3000),
                    };
                    *v = json!(x);
                }
            }
            Value::Object(m) => {
                // DependentCost: {"LightOperation": {"base":..,"units_per_gas":..}} or
                // {"HeavyOperation": {"base":..,"gas_per_unit":..}}
                if m.len() == 1 && (m.contains_key("LightOperation") || m.contains_key("HeavyOperation")) {
                    let base = rng.below(300);
                    if rng.bool() {
                        *v = json!({"LightOperation": {"base": base, "units_per_gas": 1 + rng.below(500)}});
                    } else {
                        *v = json!({"HeavyOperation": {"base": base, "gas_per_unit": rng.below(50)}});
                    }
                    return;
                }
                for (_, x) in m.iter_mut() {
                    walk(x, rng);
                }
            }
            Value::Array(a) => {
                for x in a.iter_mut() {
                    walk(x, rng);
                }
            }
            _ => {}
        }
    }
    walk(&mut v, rng);
    // every loop iteration must consume gas, otherwise a generated loop never ends (as
    // with GasCosts::free()): keep the jump costs >= 1, everything else may be 0
    fn force_jumps(v: &mut Value) {
        const JUMPS: [&str; 12] = ["ji", "jmp", "jne", "jnei", "jnzi", "jmpf", "jmpb", "jnzf", "jnzb", "jnef", "jneb", "jal"];
        match v {
            Value::Object(m) => {
                for (k, x) in m.iter_mut() {
                    if JUMPS.contains(&k.as_str()) {
                        if x.as_u64() == Some(0) {
                            *x = json!(1);
                        }
                    } else {
                        force_jumps(x);
                    }
                }
            }
            Value::Array(a) => a.iter_mut().for_each(force_jumps),
            _ => {}
        }
    }
    force_jumps(&mut v);
    serde_json::from_value(v).unwrap_or(d)
}

/// Build a scenario deterministically from `rng`.
pub fn build(rng: &mut Rng, o: &ScenarioOpts) -> Scenario {
    let mut params = params_with_schedule(rng, o.schedule);
    if let Some(m) = o.max_storage_slot_length {
        let sp = *params.script_params();
        if matches!(sp, fuel_tx::ScriptParameters::V2(_)) {
            params.set_script_params(sp.with_max_storage_slot_length(m));
        }
    }
    if o.vary_params > 0 && rng.below(1000) < o.vary_params as u64 {
        params.set_base_asset_id(fuel_types::AssetId::new(rng.arr()));
        if rng.bool() {
            params.set_chain_id(fuel_types::ChainId::new(1 + rng.below(1 << 40)));
        }
        if rng.bool() {
            let tp = *params.tx_params();
            params.set_tx_params(tp.with_max_inputs(16 + rng.below(240) as u16));
        }
    }
    let mut world = World::new(params, o.gas_price);
    // blobs
    let nb = rng.below(3) as usize;
    for _ in 0..nb {
        let n = rng.len(300);
        let data = rng.bytes(n.max(1));
        world.install_blob(data);
    }
    // contracts, generated bottom-up so that later ones can call earlier ones (plus
    // themselves: recursion is bounded by gas)
    let nc = if o.chain > 0 { o.chain } else { rng.below(o.max_contracts as u64 + 1) as usize };
    let mut ids: Vec<ContractId> = vec![];
    // a foreign contract that exists but will not be listed as an input
    let mut foreign: Vec<ContractId> = vec![ContractId::new(rng.arr())];
    for k in 0..nc + 1 {
        let env = Env {
            contracts: ids.clone(),
            foreign_contracts: foreign.clone(),
            assets: world.assets.clone(),
            blobs: world.blobs.iter().map(|b| *b.0).collect(),
            variable_outputs: vec![],
            n_inputs: 4,
            n_outputs: 6,
            n_witnesses: 1,
        };
        let n = 2 + rng.below(o.contract_snippets as u64) as usize;
        let first_call = if o.chain > 0 && k >= 1 && k < nc { ids.last() } else { None };
        let p = prog::generate_chained(rng, &env, Mode::Contract, o.contract_weights.clone(), n, first_call);
        let mut p = p;
        if o.ragged_code > 0 && rng.below(1000) < o.ragged_code as u64 {
            let extra = 1 + rng.usize_below(7);
            p.bytes.extend(rng.bytes(extra));
        }
        let slots: Vec<StorageSlot> = (0..rng.below(3))
            .map(|i| {
                let mut k = [0u8; 32];
                k[31] = i as u8 + 1;
                StorageSlot::new(Bytes32::new(k), Bytes32::new(rng.arr()))
            })
            .collect();
        let id = world.install_contract(p.bytes, Salt::new(rng.arr()), slots);
        if k == nc {
            // the last one is deployed but not listed as an input
            foreign.push(id);
        } else {
            ids.push(id);
            for a in 0..world.assets.len() {
                if rng.below(10) < 8 {
                    let amt = rng.below(1000);
                    let asset = world.assets[a];
                    world.set_contract_balance(&id, &asset, amt);
                }
            }
        }
    }
    // the transaction
    let mut coins = vec![(0usize, 0usize, 1_000_000 + rng.below(1000))];
    for a in 1..world.assets.len() {
        if rng.below(10) < 8 {
            coins.push((rng.usize_below(4), a, rng.below(5000)));
        }
    }
    if rng.chance(1, 3) {
        coins.push((rng.usize_below(4), rng.usize_below(world.assets.len()), rng.below(5000)));
    }
    let no_base = o.no_base_input > 0 && o.gas_price == 0 && rng.below(1000) < o.no_base_input as u64;
    if no_base {
        coins[0].1 = 1;
        coins.retain(|c| c.1 % world.assets.len() != 0);
    }
    let mut messages = vec![];
    if no_base {
        if rng.bool() {
            messages.push((rng.usize_below(4), 0, rng.bytes(3)));
        }
    } else if rng.chance(1, 4) {
        let dl = 1 + rng.usize_below(20);
        let data = if rng.bool() { vec![] } else { rng.bytes(dl) };
        messages.push((rng.usize_below(4), rng.below(3000), data));
    }
    // usually every callable contract is an input; in 1 of 12 scenarios one is left out
    let drop_one = if !ids.is_empty() && rng.chance(1, 12) { Some(rng.usize_below(ids.len())) } else { None };
    let listed: Vec<ContractId> = ids.iter().enumerate().filter(|(i, _)| Some(*i) != drop_one).map(|(_, c)| *c).collect();
    let present: Vec<usize> = {
        let mut v: Vec<usize> = coins.iter().map(|c| c.1 % world.assets.len()).collect();
        v.sort();
        v.dedup();
        v
    };
    let mut change: Vec<usize> = present.iter().cloned().filter(|_| rng.below(10) < 7).collect();
    if no_base && rng.bool() {
        // a base-asset change output although no input carries the base asset
        change.push(0);
    }
    let variable_outputs = rng.below(3) as usize;
    let coin_outputs = if rng.chance(1, 3) && !no_base { vec![(0usize, rng.below(500))] } else { vec![] };
    let n_inputs = (coins.len() + messages.len() + listed.len()) as u16;
    let first_var = (listed.len() + change.len() + coin_outputs.len()) as u16;
    let env = Env {
        contracts: listed.clone(),
        foreign_contracts: {
            let mut f = foreign.clone();
            f.extend(ids.iter().filter(|i| !listed.contains(i)).cloned());
            f
        },
        assets: world.assets.clone(),
        blobs: world.blobs.iter().map(|b| *b.0).collect(),
        variable_outputs: (0..variable_outputs as u16).map(|i| first_var + i).collect(),
        n_inputs,
        n_outputs: first_var + variable_outputs as u16,
        n_witnesses: 2,
    };
    let n = 2 + rng.below(o.script_snippets as u64) as usize;
    let script = prog::generate(rng, &env, Mode::Script, o.weights.clone(), n);
    let gas_limit = if rng.below(1000) < o.tight_gas as u64 {
        rng.below(400)
    } else if o.mid_gas > 0 && rng.below(1000) < o.mid_gas as u64 {
        400 + rng.below(20_000)
    } else {
        20_000 + rng.below(200_000)
    };
    let spec = ScriptSpec {
        script: script.bytes,
        data: rng.bytes_len_class(64),
        gas_limit,
        max_fee: if no_base { 0 } else if o.gas_price == 0 { rng.below(1000) } else { 900_000 },
        tip: if rng.chance(1, 5) { Some(rng.below(100)) } else { None },
        coins,
        messages,
        contracts: listed,
        change,
        variable_outputs,
        coin_outputs,
        predicates: vec![],
    };
    let mut info = json!({"contracts": ids.len(), "gas_limit": gas_limit, "schedule": o.schedule, "gas_price": o.gas_price});
    if o.chain > 0 {
        info["chain"] = json!(o.chain);
    }
    Scenario { world, spec, env, info }
}
