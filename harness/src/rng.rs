//! Deterministic PRNG (SplitMix64 seeding, xoshiro256**) with boundary-biased helpers.
//! A case is reproducible from `(seed, worker, index)`.

#[derive(Clone, Debug)]
pub struct Rng {
    s: [u64; 4],
}

fn splitmix(x: &mut u64) -> u64 {
    *x = x.wrapping_add(0x9E37_79B9_7F4A_7C15);
    let mut z = *x;
    z = (z ^ (z >> 30)).wrapping_mul(0xBF58_476D_1CE4_E5B9);
    z = (z ^ (z >> 27)).wrapping_mul(0x94D0_49BB_1331_11EB);
    z ^ (z >> 31)
}

pub const BOUNDARY_WORDS: &[u64] = &[
    0,
    1,
    2,
    3,
    7,
    8,
    9,
    15,
    16,
    31,
    32,
    33,
    63,
    64,
    65,
    0xff,
    0x100,
    0x101,
    0xffff,
    0x1_0000,
    0x1_0001,
    0x7fff_ffff,
    0x8000_0000,
    0x8000_0001,
    0xffff_fffe,
    0xffff_ffff,
    0x1_0000_0000,
    0x1_0000_0001,
    0x1_ffff_ffff,
    0x2_0000_0000,
    (1 << 26) - 1,
    1 << 26,
    (1 << 26) + 1,
    0x7fff_ffff_ffff_ffff,
    0x8000_0000_0000_0000,
    0x8000_0000_0000_0001,
    u64::MAX - 1,
    u64::MAX,
];

impl Rng {
    pub fn new(seed: u64) -> Self {
        let mut x = seed;
        Self {
            s: [
                splitmix(&mut x),
                splitmix(&mut x),
                splitmix(&mut x),
                splitmix(&mut x),
            ],
        }
    }

    /// Independent stream for `(seed, a, b)`.
    pub fn derive(seed: u64, a: u64, b: u64) -> Self {
        let mut x = seed ^ 0xD1B5_4A32_D192_ED03;
        let s0 = splitmix(&mut x);
        let mut y = s0 ^ a.wrapping_mul(0x9E37_79B9_7F4A_7C15);
        let s1 = splitmix(&mut y);
        let mut z = s1 ^ b.wrapping_mul(0xC2B2_AE3D_27D4_EB4F);
        Self::new(splitmix(&mut z))
    }

    pub fn u64(&mut self) -> u64 {
        let r = self.s[1].wrapping_mul(5).rotate_left(7).wrapping_mul(9);
        let t = self.s[1] << 17;
        self.s[2] ^= self.s[0];
        self.s[3] ^= self.s[1];
        self.s[1] ^= self.s[2];
        self.s[0] ^= self.s[3];
        self.s[2] ^= t;
        self.s[3] = self.s[3].rotate_left(45);
        r
    }

    pub fn u32(&mut self) -> u32 {
        (self.u64() >> 32) as u32
    }

    pub fn u8(&mut self) -> u8 {
        (self.u64() >> 56) as u8
    }

    /// uniform in `0..n` (n > 0)
    pub fn below(&mut self, n: u64) -> u64 {
        debug_assert!(n > 0);
        ((self.u64() as u128 * n as u128) >> 64) as u64
    }

    pub fn usize_below(&mut self, n: usize) -> usize {
        self.below(n as u64) as usize
    }

    /// uniform in `lo..=hi`
    pub fn range(&mut self, lo: u64, hi: u64) -> u64 {
        if hi <= lo {
            return lo;
        }
        let span = hi - lo;
        if span == u64::MAX {
            return self.u64();
        }
        lo + self.below(span + 1)
    }

    pub fn bool(&mut self) -> bool {
        self.u64() >> 63 == 1
    }

    /// true with probability `num/den`
    pub fn chance(&mut self, num: u64, den: u64) -> bool {
        self.below(den) < num
    }

    pub fn pick<'a, T>(&mut self, xs: &'a [T]) -> &'a T {
        &xs[self.usize_below(xs.len())]
    }

    pub fn fill(&mut self, b: &mut [u8]) {
        for c in b.chunks_mut(8) {
            let v = self.u64().to_le_bytes();
            c.copy_from_slice(&v[..c.len()]);
        }
    }

    pub fn bytes(&mut self, n: usize) -> Vec<u8> {
        let mut v = vec![0u8; n];
        self.fill(&mut v);
        v
    }

    pub fn arr<const N: usize>(&mut self) -> [u8; N] {
        let mut a = [0u8; N];
        self.fill(&mut a);
        a
    }

    /// boundary-biased word: half of the time from the boundary set (optionally ±1),
    /// otherwise uniform with a random bit width
    pub fn word(&mut self) -> u64 {
        match self.below(8) {
            0..=2 => *self.pick(BOUNDARY_WORDS),
            3 => {
                let b = *self.pick(BOUNDARY_WORDS);
                if self.bool() {
                    b.wrapping_add(self.below(3))
                } else {
                    b.wrapping_sub(self.below(3))
                }
            }
            4 | 5 => {
                let bits = self.range(1, 64);
                let v = self.u64();
                if bits == 64 { v } else { v & ((1u64 << bits) - 1) }
            }
            6 => 1u64 << self.below(64),
            _ => self.u64(),
        }
    }

    /// small value, mostly tiny
    pub fn small(&mut self, max: u64) -> u64 {
        match self.below(4) {
            0 => 0,
            1 => self.range(0, max.min(3)),
            _ => self.range(0, max),
        }
    }

    /// byte-vector length from the length classes of DESIGN 2.4 (capped at `cap`)
    pub fn len(&mut self, cap: usize) -> usize {
        const LENS: &[usize] = &[
            0, 1, 2, 3, 4, 5, 6, 7, 8, 9, 10, 11, 12, 13, 14, 15, 16, 17, 23, 24, 25, 31,
            32, 33, 63, 64, 65, 255, 256, 257, 1023, 1024, 1025,
        ];
        let n = match self.below(10) {
            0..=6 => *self.pick(LENS),
            7 => self.usize_below(64),
            8 => self.usize_below(600),
            _ => self.usize_below(cap.max(1)),
        };
        n.min(cap)
    }

    pub fn bytes_len_class(&mut self, cap: usize) -> Vec<u8> {
        let n = self.len(cap);
        match self.below(6) {
            0 => vec![0u8; n],
            1 => vec![0xffu8; n],
            _ => self.bytes(n),
        }
    }

    pub fn shuffle<T>(&mut self, v: &mut [T]) {
        for i in (1..v.len()).rev() {
            let j = self.usize_below(i + 1);
            v.swap(i, j);
        }
    }

    /// 32 bytes from a small pool (forces collisions) or random
    pub fn id32(&mut self, pool: u64) -> [u8; 32] {
        match self.below(8) {
            0 => [0u8; 32],
            1 => [0xff; 32],
            2..=5 => {
                let k = self.below(pool.max(1));
                let mut a = [0u8; 32];
                let mut r = Rng::new(0xABCD_0000 ^ k);
                r.fill(&mut a);
                a
            }
            _ => self.arr(),
        }
    }
}

#[cfg(test)]
mod tests {
    use super::*;
    #[test]
    fn deterministic() {
        let mut a = Rng::derive(1, 2, 3);
        let mut b = Rng::derive(1, 2, 3);
        for _ in 0..100 {
            assert_eq!(a.u64(), b.u64());
        }
        let mut c = Rng::derive(1, 2, 4);
        assert_ne!(a.u64(), c.u64());
    }
}
