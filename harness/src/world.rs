//! A small chain state ("world") for interpreter-level monitors: consensus parameters, a
//! `MemoryStorage` with pre-deployed generated contracts and blobs, a key pool, and
//! helpers that build valid script transactions and run them.

use crate::{
    Rng,
    recstore::RecStorage,
    refmodel::sha256,
};
use fuel_crypto::SecretKey;
use fuel_tx::{
    ConsensusParameters,
    Contract,
    Finalizable,
    GasCosts,
    Input,
    Output,
    Receipt,
    Script,
    StorageSlot,
    TransactionBuilder,
    TxPointer,
    UtxoId,
};
use fuel_types::{
    Address,
    AssetId,
    BlobId,
    BlockHeight,
    Bytes32,
    ContractId,
    Nonce,
    Salt,
    Word,
};
use fuel_vm::{
    checked_transaction::{
        Checked,
        IntoChecked,
        Ready,
    },
    interpreter::{
        Interpreter,
        InterpreterParams,
        MemoryInstance,
    },
    state::ProgramState,
    storage::{
        ContractsAssetsStorage,
        InterpreterStorage,
        MemoryStorage,
    },
};
use fuel_storage::StorageAsMut;

#[derive(Clone, Debug)]
pub struct Deployed {
    pub id: ContractId,
    pub code: Vec<u8>,
    pub salt: Salt,
    pub slots: Vec<StorageSlot>,
}

#[derive(Clone)]
pub struct World {
    pub params: ConsensusParameters,
    pub gas_price: Word,
    pub height: BlockHeight,
    pub storage: MemoryStorage,
    pub contracts: Vec<Deployed>,
    pub blobs: Vec<(BlobId, Vec<u8>)>,
    pub keys: Vec<SecretKey>,
    /// asset ids in use; assets[0] is the base asset
    pub assets: Vec<AssetId>,
}

pub fn secret(n: u64) -> SecretKey {
    let mut b = sha256(&[b"verif-key", &n.to_be_bytes()]);
    b[0] &= 0x7f; // below the group order
    SecretKey::try_from(&b[..]).expect("valid secret")
}

impl World {
    pub fn new(params: ConsensusParameters, gas_price: Word) -> Self {
        let base = *params.base_asset_id();
        let mut assets = vec![base];
        for i in 1..4u8 {
            assets.push(AssetId::new(sha256(&[b"verif-asset", &[i]])));
        }
        if base != AssetId::zeroed() {
            // under a non-standard base asset the all-zero id (`AssetId::BASE`) is an ordinary
            // asset that transactions hold: code that names the constant instead of the
            // configured base asset then moves the wrong balance instead of failing
            assets[1] = AssetId::zeroed();
        }
        let height: BlockHeight = 10u32.into();
        let mut storage = MemoryStorage::new(height, ContractId::new([0xcb; 32]));
        storage.commit();
        Self {
            params,
            gas_price,
            height,
            storage,
            contracts: vec![],
            blobs: vec![],
            keys: (0..4).map(secret).collect(),
            assets,
        }
    }

    pub fn base_asset(&self) -> AssetId {
        self.assets[0]
    }

    /// Put a contract into the storage directly (world set-up; deployment itself is
    /// monitored by C15/C35). Returns its id computed by the specification formula.
    pub fn install_contract(&mut self, code: Vec<u8>, salt: Salt, slots: Vec<StorageSlot>) -> ContractId {
        let root = Contract::root_from_code(&code);
        let state_root = Contract::initial_state_root(slots.iter());
        let id = Contract::id(&salt, &root, &state_root);
        self.storage
            .deploy_contract_with_id(&slots, &code, &id)
            .expect("infallible");
        self.storage.commit();
        self.contracts.push(Deployed { id, code, salt, slots });
        id
    }

    pub fn set_contract_balance(&mut self, id: &ContractId, asset: &AssetId, amount: Word) {
        self.storage
            .contract_asset_id_balance_insert(id, asset, amount)
            .expect("infallible");
        self.storage.commit();
    }

    pub fn install_blob(&mut self, data: Vec<u8>) -> BlobId {
        use fuel_tx::BlobIdExt;
        let id = BlobId::compute(&data);
        self.storage
            .storage_as_mut::<fuel_vm::storage::BlobData>()
            .insert(&id, data.as_slice())
            .expect("infallible");
        self.storage.commit();
        self.blobs.push((id, data));
        id
    }

    pub fn interpreter_params(&self) -> InterpreterParams {
        InterpreterParams::new(self.gas_price, &self.params)
    }

    pub fn gas_costs(&self) -> &GasCosts {
        self.params.gas_costs()
    }
}

/// Description of a script transaction to build.
#[derive(Clone, Debug, Default)]
pub struct ScriptSpec {
    pub script: Vec<u8>,
    pub data: Vec<u8>,
    pub gas_limit: Word,
    pub max_fee: Word,
    pub tip: Option<Word>,
    /// (key index, asset index, amount)
    pub coins: Vec<(usize, usize, Word)>,
    /// (key index, amount, data) — data non-empty = retryable message
    pub messages: Vec<(usize, Word, Vec<u8>)>,
    /// contract inputs (each gets its Output::Contract)
    pub contracts: Vec<ContractId>,
    /// change outputs for these asset indices
    pub change: Vec<usize>,
    pub variable_outputs: usize,
    /// (asset index, amount)
    pub coin_outputs: Vec<(usize, Word)>,
    /// predicate coin inputs: (code, data, asset index, amount, declared predicate gas)
    pub predicates: Vec<(Vec<u8>, Vec<u8>, usize, Word, Word)>,
}

pub fn change_address(asset_index: usize) -> Address {
    Address::new(sha256(&[b"verif-change", &[asset_index as u8]]))
}

impl ScriptSpec {
    pub fn builder(&self, w: &World, salt: u64) -> TransactionBuilder<Script> {
        let mut b = TransactionBuilder::script(self.script.clone(), self.data.clone());
        b.with_params(w.params.clone());
        b.script_gas_limit(self.gas_limit);
        b.max_fee_limit(self.max_fee);
        if let Some(t) = self.tip {
            b.tip(t);
        }
        for (n, (k, a, amount)) in self.coins.iter().enumerate() {
            let utxo = UtxoId::new(Bytes32::new(sha256(&[b"utxo", &salt.to_be_bytes(), &[n as u8]])), n as u16);
            b.add_unsigned_coin_input(w.keys[*k % w.keys.len()], utxo, *amount, w.assets[*a % w.assets.len()], TxPointer::default());
        }
        for (n, (k, amount, data)) in self.messages.iter().enumerate() {
            let nonce = Nonce::new(sha256(&[b"nonce", &salt.to_be_bytes(), &[n as u8]]));
            b.add_unsigned_message_input(w.keys[*k % w.keys.len()], Address::new([0x5e; 32]), nonce, *amount, data.clone());
        }
        for (n, (code, data, a, amount, gas)) in self.predicates.iter().enumerate() {
            let utxo = UtxoId::new(Bytes32::new(sha256(&[b"putxo", &salt.to_be_bytes(), &[n as u8]])), n as u16);
            let owner = Input::predicate_owner(code);
            b.add_input(Input::coin_predicate(utxo, owner, *amount, w.assets[*a % w.assets.len()], TxPointer::default(), *gas, code.clone(), data.clone()));
        }
        for id in self.contracts.iter() {
            let idx = b.inputs().len() as u16;
            let utxo = UtxoId::new(Bytes32::new(sha256(&[b"cutxo", id.as_ref()])), 0);
            b.add_input(Input::contract(utxo, Bytes32::zeroed(), Bytes32::zeroed(), TxPointer::default(), *id));
            b.add_output(Output::contract(idx, Bytes32::zeroed(), Bytes32::zeroed()));
        }
        for a in self.change.iter() {
            b.add_output(Output::change(change_address(*a), 0, w.assets[*a % w.assets.len()]));
        }
        for (a, amount) in self.coin_outputs.iter() {
            b.add_output(Output::coin(Address::new([0xc0; 32]), *amount, w.assets[*a % w.assets.len()]));
        }
        for _ in 0..self.variable_outputs {
            b.add_output(Output::variable(Address::zeroed(), 0, AssetId::zeroed()));
        }
        b
    }

    /// Build, sign and check. `Err` = the validity layer said no (reported by the caller
    /// as a generator rejection, never judged).
    pub fn checked(&self, w: &World, salt: u64) -> Result<Checked<Script>, String> {
        let tx = self.builder(w, salt).finalize();
        tx.into_checked(w.height, &w.params).map_err(|e| format!("{e:?}"))
    }

    pub fn ready(&self, w: &World, salt: u64) -> Result<Ready<Script>, String> {
        self.checked(w, salt)?
            .into_ready(w.gas_price, w.gas_costs(), w.params.fee_params(), Some(w.height))
            .map_err(|e| format!("{e:?}"))
    }
}

pub type Vm = Interpreter<MemoryInstance, RecStorage, Script>;

pub fn new_vm(w: &World) -> Vm {
    Interpreter::with_storage(MemoryInstance::new(), RecStorage::new(w.storage.clone()), w.interpreter_params())
}

/// Everything observable at the end of an execution.
#[derive(Clone, Debug)]
pub struct Outcome {
    /// `Ok(state)` or the debug rendering of the interpreter error
    pub state: Result<ProgramState, String>,
    pub receipts: Vec<Receipt>,
    pub tx: Script,
    pub registers: Vec<Word>,
    /// storage after the run (memory layer, not committed)
    pub storage_fp: [u8; 32],
}

/// Fingerprint of the storage contents that a transaction can change: all contract state,
/// balances of (known contract × known asset), code of known contracts.
pub fn storage_fingerprint(w: &World, s: &MemoryStorage, extra_assets: &[AssetId]) -> [u8; 32] {
    use sha2::Digest;
    let mut h = sha2::Sha256::new();
    for (k, v) in s.all_contract_state() {
        h.update(k.as_ref());
        h.update((v.as_ref() as &[u8]).len().to_be_bytes());
        h.update(v.as_ref() as &[u8]);
    }
    for c in w.contracts.iter() {
        for a in w.assets.iter().chain(extra_assets.iter()) {
            let b = s.contract_asset_id_balance(&c.id, a).expect("infallible");
            h.update(b.unwrap_or(u64::MAX).to_be_bytes());
            h.update([b.is_some() as u8]);
        }
        let code = s.storage_contract(&c.id).expect("infallible");
        match code {
            Some(code) => h.update(code.as_ref().as_ref() as &[u8]),
            None => h.update([0xee]),
        }
    }
    h.update(format!("{s:?}").as_bytes());
    h.finalize().into()
}

/// Run a ready transaction without a debugger on a fresh VM over a clone of the world's
/// storage.
pub fn run_plain(w: &World, ready: Ready<Script>) -> (Outcome, Vm) {
    let mut vm = new_vm(w);
    let state = match crate::guarded(|| vm.transact(ready).map(|s| *s.state())) {
        Ok(Ok(s)) => Ok(s),
        Ok(Err(e)) => Err(format!("{e:?}")),
        Err(p) => Err(format!("HOST PANIC: {}", p.text)),
    };
    let out = outcome_of(w, &vm, state);
    (out, vm)
}

pub fn outcome_of(w: &World, vm: &Vm, state: Result<ProgramState, String>) -> Outcome {
    let st: &RecStorage = vm.as_ref();
    Outcome {
        state,
        receipts: vm.receipts().to_vec(),
        tx: vm.transaction().clone(),
        registers: vm.registers().to_vec(),
        storage_fp: storage_fingerprint(w, &st.inner, &[]),
    }
}

/// helper for generators: a random-ish but valid salt
pub fn salt_from(rng: &mut Rng) -> Salt {
    Salt::new(rng.arr())
}
