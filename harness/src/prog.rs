//! Program generator (DESIGN 2.4): a grammar over the instruction set with a light
//! symbolic register model. Emits mostly well-formed instruction sequences that do real
//! work plus, with configurable probability, hostile twists.
//!
//! Register conventions inside generated code:
//!   r63 = pointer to the data section embedded after the code (`$is + data_off`)
//!   r62 = base of a local writable frame of `FRAME` bytes (allocated with CFEI at entry)
//!   r61 = loop counter, r60 = subroutine link register
//!   r16..r23 = temporaries (pointers / lengths), r24..r47 = values

#![allow(deprecated)]

use crate::Rng;
use fuel_asm::{
    GMArgs,
    GTFArgs,
    Instruction,
    RegId,
    op,
};
use fuel_types::{
    AssetId,
    ContractId,
};

pub const R_DATA: u8 = 63;
pub const R_LOC: u8 = 62;
pub const R_CNT: u8 = 61;
pub const R_LINK: u8 = 60;
pub const FRAME: u32 = 1024;

const ZERO: u8 = 0;
const ONE: u8 = 1;
const IS: u8 = 12; // RegId::IS
const SSP: u8 = 4;
const SP: u8 = 5;
const FP: u8 = 6;
const HP: u8 = 7;
const CGAS: u8 = 10;
const BAL: u8 = 11;
const RET: u8 = 13;
const RETL: u8 = 14;
const FLAG: u8 = 15;

#[derive(Clone, Copy, Debug, PartialEq, Eq)]
pub enum Mode {
    Script,
    Contract,
    Predicate,
}

/// What the generated code may refer to.
#[derive(Clone, Debug, Default)]
pub struct Env {
    /// contracts that can be called / queried (listed in the tx inputs)
    pub contracts: Vec<ContractId>,
    /// contract ids that exist but are not inputs, or do not exist at all
    pub foreign_contracts: Vec<ContractId>,
    pub assets: Vec<AssetId>,
    pub blobs: Vec<[u8; 32]>,
    /// number of variable outputs and index of the first one (for TRO)
    pub variable_outputs: Vec<u16>,
    /// number of tx inputs/outputs/witnesses (for GTF indices)
    pub n_inputs: u16,
    pub n_outputs: u16,
    pub n_witnesses: u16,
}

/// Relative weights of the snippet families.
#[derive(Clone, Debug)]
pub struct Weights {
    pub alu: u32,
    pub mem: u32,
    pub stack: u32,
    pub heap: u32,
    pub log: u32,
    pub storage: u32,
    pub call: u32,
    pub money: u32,
    pub query: u32,
    pub crypto: u32,
    pub introspect: u32,
    pub flow: u32,
    pub wide: u32,
    /// per-mille probability of a hostile twist per snippet
    pub hostile: u32,
    /// LDC that can succeed: drops the local frame (`$sp == $ssp`), loads contract / blob /
    /// memory code, re-creates the frame above it. Default 0 (family never chosen, no
    /// random draw changes)
    pub ldc: u32,
    /// per-mille probability that a random raw word is inserted
    pub garbage: u32,
    /// per-mille probability that a contract's TR names the contract itself (`$fp`) as
    /// the destination (C27; 0 = never, draws nothing)
    pub self_transfer: u32,
    /// per-mille probability per program that one receipt flood (a counted loop around a
    /// single LOG/LOGD with `flood_n` iterations) is placed between two top-level snippets
    /// (C28; 0 = never, draws nothing)
    pub flood: u32,
    /// trip count of the flood loop (< 2^18)
    pub flood_n: u32,
    /// per-mille probability that a storage snippet is drawn from the extended shape set
    /// (`storage_rich`: write-then-read-back with offsets at/after the end, zero-length and
    /// long values, ranges around 2^256-1 and byte-carry keys, legacy instructions on
    /// dynamic values, reserved status registers). 0 keeps the original output.
    pub storage_rich: u32,
    /// weight of the `frame` family: accesses aimed at the boundaries of the owned
    /// regions ($ssp, $sp, $hp, the caller's saved $hp/$ssp, the call frame, the code,
    /// the tx image, the balance table, the last bytes of memory). 0 = family off.
    pub frame: u32,
    /// per-mille probability that a generated *contract* starts with a counted
    /// self-call (`b` parameter of its own call frame, masked to 0..63, decremented per
    /// level; the contract's own id is taken from its call frame). 0 = off.
    pub recurse: u32,
}

impl Default for Weights {
    fn default() -> Self {
        Self {
            ldc: 0,
            alu: 10,
            mem: 10,
            stack: 4,
            heap: 4,
            log: 5,
            storage: 8,
            call: 6,
            money: 6,
            query: 5,
            crypto: 2,
            introspect: 3,
            flow: 6,
            wide: 2,
            hostile: 40,
            garbage: 3,
            self_transfer: 0,
            flood: 0,
            flood_n: 0,
            storage_rich: 0,
            frame: 0,
            recurse: 0,
        }
    }
}

/// `Rng` behind a `RefCell` so that draws can appear inside argument lists of `&mut self`
/// calls.
pub struct CellRng(std::cell::RefCell<Rng>);

impl CellRng {
    pub fn below(&self, n: u64) -> u64 {
        self.0.borrow_mut().below(n)
    }
    pub fn usize_below(&self, n: usize) -> usize {
        self.0.borrow_mut().usize_below(n)
    }
    pub fn u64(&self) -> u64 {
        self.0.borrow_mut().u64()
    }
    pub fn u32(&self) -> u32 {
        self.0.borrow_mut().u32()
    }
    pub fn u8(&self) -> u8 {
        self.0.borrow_mut().u8()
    }
    pub fn word(&self) -> u64 {
        self.0.borrow_mut().word()
    }
    pub fn bool(&self) -> bool {
        self.0.borrow_mut().bool()
    }
    pub fn chance(&self, a: u64, b: u64) -> bool {
        self.0.borrow_mut().chance(a, b)
    }
    pub fn pick<'b, T>(&self, xs: &'b [T]) -> &'b T {
        &xs[self.usize_below(xs.len())]
    }
    pub fn arr<const N: usize>(&self) -> [u8; N] {
        self.0.borrow_mut().arr()
    }
    pub fn id32(&self, pool: u64) -> [u8; 32] {
        self.0.borrow_mut().id32(pool)
    }
}

pub struct Gen<'a> {
    pub rng: CellRng,
    pub env: &'a Env,
    pub mode: Mode,
    pub w: Weights,
    code: Vec<u32>,
    data: Vec<u8>,
    /// placeholder positions of `movi R_DATA, data_off` to patch
    patch_data_off: Vec<usize>,
}

#[derive(Clone, Debug)]
pub struct Program {
    /// instructions followed by the data section
    pub bytes: Vec<u8>,
    pub code_len: usize,
}

fn w(i: Instruction) -> u32 {
    u32::from(i)
}

impl<'a> Gen<'a> {
    pub fn new(rng: &mut Rng, env: &'a Env, mode: Mode, weights: Weights) -> Self {
        Self { rng: CellRng(std::cell::RefCell::new(Rng::new(rng.u64()))), env, mode, w: weights, code: vec![], data: vec![], patch_data_off: vec![] }
    }

    fn emit(&mut self, i: Instruction) {
        self.code.push(w(i));
    }
    fn raw(&mut self, word: u32) {
        self.code.push(word);
    }
    fn here(&self) -> usize {
        self.code.len()
    }

    /// append to the data section (8-byte aligned), return offset inside the section
    fn data(&mut self, b: &[u8]) -> u32 {
        while self.data.len() % 8 != 0 {
            self.data.push(0);
        }
        let off = self.data.len() as u32;
        self.data.extend_from_slice(b);
        off
    }

    fn val(&self) -> u8 {
        24 + self.rng.below(24) as u8
    }
    fn tmp(&self) -> u8 {
        16 + self.rng.below(8) as u8
    }

    /// load an arbitrary 64-bit constant
    fn load_const(&mut self, r: u8, v: u64) {
        if v < (1 << 18) {
            self.emit(op::movi(r, v as u32));
        } else {
            // place in data and load
            let off = self.data(&v.to_be_bytes());
            self.ptr_data(r, off);
            self.emit(op::lw(r, r, 0));
        }
    }

    /// r = R_DATA + off
    fn ptr_data(&mut self, r: u8, off: u32) {
        if off < 4096 {
            self.emit(op::addi(r, R_DATA, off as u16));
        } else {
            self.emit(op::movi(r, off & 0x3ffff));
            self.emit(op::add(r, r, R_DATA));
        }
    }

    /// r = R_LOC + off (off < FRAME)
    fn ptr_loc(&mut self, r: u8, off: u32) {
        self.emit(op::addi(r, R_LOC, (off & 0xfff) as u16));
    }

    fn interesting_value(&mut self, r: u8) {
        let v = self.rng.word();
        self.load_const(r, v);
    }

    fn hostile(&self) -> bool {
        self.rng.below(1000) < self.w.hostile as u64
    }

    /// perturb a register holding a pointer or a length
    fn twist(&mut self, r: u8) {
        match self.rng.below(8) {
            0 => self.emit(op::addi(r, r, 1)),
            1 => self.emit(op::subi(r, r, 1)),
            2 => self.emit(op::move_(r, SP)),
            3 => self.emit(op::move_(r, HP)),
            4 => {
                let v = self.rng.word();
                self.load_const(r, v)
            }
            5 => self.emit(op::move_(r, ZERO)),
            6 => self.emit(op::subi(r, HP, 1)),
            _ => self.emit(op::not(r, ZERO)),
        }
    }

    fn prelude(&mut self) {
        self.patch_data_off.push(self.here());
        self.emit(op::movi(R_DATA, 0));
        self.emit(op::add(R_DATA, R_DATA, IS));
        self.emit(op::move_(R_LOC, SP));
        self.emit(op::cfei(FRAME));
        // most programs run with WRAPPING|UNSAFEMATH so that arithmetic corner cases set
        // $of/$err instead of ending the run; the rest keep the strict default
        if self.rng.below(10) < 7 {
            self.emit(op::movi(16, 3));
            self.emit(op::flag(16));
        }
        // fill a few value registers
        let n = 3 + self.rng.below(6);
        for _ in 0..n {
            let r = self.val();
            self.interesting_value(r);
        }
    }

    fn alu(&mut self) {
        let (d, a, b) = (self.val(), self.val(), self.val());
        let imm = (self.rng.word() & 0xfff) as u16;
        if self.rng.chance(1, 25) {
            // set flags
            let f = self.tmp();
            self.emit(op::movi(f, self.rng.below(4) as u32));
            self.emit(op::flag(f));
        }
        let i = match self.rng.below(34) {
            0 => op::add(d, a, b),
            1 => op::sub(d, a, b),
            2 => op::mul(d, a, b),
            3 => op::div(d, a, b),
            4 => op::mod_(d, a, b),
            5 => op::and(d, a, b),
            6 => op::or(d, a, b),
            7 => op::xor(d, a, b),
            8 => op::not(d, a),
            9 => op::sll(d, a, b),
            10 => op::srl(d, a, b),
            11 => op::eq(d, a, b),
            12 => op::gt(d, a, b),
            13 => op::lt(d, a, b),
            14 => op::exp(d, a, b),
            15 => op::mlog(d, a, b),
            16 => op::mroo(d, a, b),
            17 => op::mldv(d, a, b, self.val()),
            18 => op::addi(d, a, imm),
            19 => op::subi(d, a, imm),
            20 => op::muli(d, a, imm),
            21 => op::divi(d, a, imm),
            22 => op::modi(d, a, imm),
            23 => op::andi(d, a, imm),
            24 => op::ori(d, a, imm),
            25 => op::xori(d, a, imm),
            26 => op::slli(d, a, imm & 0x7f),
            27 => op::srli(d, a, imm & 0x7f),
            28 => op::expi(d, a, imm & 0x1f),
            29 => op::move_(d, a),
            30 => op::movi(d, (self.rng.word() & 0x3ffff) as u32),
            31 => op::noop(),
            32 => {
                let valid: Vec<u8> = (0..64u8)
                    .filter(|i| fuel_asm::narrowint::MathArgs::from_imm(fuel_asm::Imm06::new(*i)).is_some())
                    .collect();
                let imm = if self.hostile() || valid.is_empty() { self.rng.below(64) as u8 } else { *self.rng.pick(&valid) };
                op::niop(d, a, b, imm)
            }
            _ => op::andi(d, a, 0xff),
        };
        self.emit(i);
        // keep execution alive: clear flags-dependent panics rarely matter; restore flags
        if self.rng.chance(1, 12) {
            self.emit(op::flag(ZERO));
        }
        if self.hostile() && self.rng.chance(1, 4) {
            // write to a reserved register
            let rd = self.rng.below(16) as u8;
            self.emit(op::addi(rd, a, 1));
        }
    }

    fn mem(&mut self) {
        let v = self.val();
        let p = self.tmp();
        let off8 = (self.rng.below((FRAME / 8) as u64 - 8)) as u16;
        match self.rng.below(12) {
            0 => self.emit(op::sw(R_LOC, v, off8)),
            1 => self.emit(op::lw(v, R_LOC, off8)),
            2 => self.emit(op::sb(R_LOC, v, off8)),
            3 => self.emit(op::lb(v, R_LOC, off8)),
            4 => {
                self.ptr_loc(p, (off8 as u32) & !7);
                self.emit(op::mcli(p, self.rng.below(64) as u32));
            }
            5 => {
                // copy between two disjoint halves of the frame
                let q = self.tmp();
                let len = self.rng.below(200) as u16;
                self.ptr_loc(p, 0);
                self.ptr_loc(q, 512);
                if p != q {
                    self.emit(op::mcpi(p, q, len));
                }
            }
            6 => {
                let (q, l) = (self.tmp(), self.tmp());
                if p != q && q != l && p != l {
                    self.ptr_loc(p, (self.rng.below(400)) as u32);
                    self.ptr_loc(q, 512 + self.rng.below(100) as u32);
                    self.emit(op::movi(l, self.rng.below(300) as u32));
                    if self.hostile() {
                        let t = [p, q, l][self.rng.usize_below(3)];
                        self.twist(t);
                    }
                    match self.rng.below(3) {
                        0 => self.emit(op::mcp(p, q, l)),
                        1 => self.emit(op::meq(v, p, q, l)),
                        _ => self.emit(op::mcl(p, l)),
                    }
                }
            }
            7 => {
                // copy from the data section / tx bytes / code into the frame
                let q = self.tmp();
                if p != q {
                    self.ptr_loc(p, 0);
                    match self.rng.below(3) {
                        0 => self.emit(op::move_(q, R_DATA)),
                        1 => self.emit(op::move_(q, IS)),
                        _ => self.emit(op::movi(q, self.rng.below(600) as u32)),
                    }
                    self.emit(op::mcpi(p, q, self.rng.below(128) as u16));
                }
            }
            8 => {
                // hostile-ish: write through an arbitrary pointer
                self.ptr_loc(p, (off8 as u32 * 8) % (FRAME - 16));
                if self.hostile() {
                    self.twist(p);
                }
                self.emit(op::sw(p, v, 0));
            }
            9 => {
                self.emit(op::shw(R_LOC, v, off8 & 0xff));
                self.emit(op::lhw(v, R_LOC, off8 & 0xff));
            }
            10 => {
                self.emit(op::sqw(R_LOC, v, off8 & 0xff));
                self.emit(op::lqw(v, R_LOC, off8 & 0xff));
            }
            _ => {
                // read from an arbitrary (possibly inaccessible) address
                self.interesting_value(p);
                if !self.hostile() {
                    self.emit(op::move_(p, R_LOC));
                }
                self.emit(op::lw(v, p, 0));
            }
        }
    }

    fn stack(&mut self) {
        match self.rng.below(6) {
            0 => {
                let n = (self.rng.below(64) * 8) as u32;
                self.emit(op::cfei(n));
                if !self.hostile() {
                    self.emit(op::cfsi(n));
                }
            }
            1 => {
                let m = (self.rng.u64() & 0xff_ffff) as u32;
                self.emit(op::pshl(m));
                self.emit(op::popl(m));
            }
            2 => {
                let m = (self.rng.u64() & 0xff_ffff) as u32 & !(0xf << 20); // keep r60..63
                self.emit(op::pshh(m));
                self.emit(op::poph(m));
            }
            3 => {
                let r = self.tmp();
                self.emit(op::movi(r, (self.rng.below(40) * 8) as u32));
                self.emit(op::cfe(r));
                self.emit(op::cfs(r));
            }
            4 => {
                // shrink below the frame and regrow (memory must read back unchanged)
                self.emit(op::cfsi(64));
                self.emit(op::cfei(64));
            }
            _ => {
                if self.hostile() {
                    let r = self.tmp();
                    self.interesting_value(r);
                    if self.rng.bool() {
                        self.emit(op::cfe(r));
                    } else {
                        self.emit(op::cfs(r));
                    }
                }
            }
        }
    }

    fn heap(&mut self) {
        let n = self.tmp();
        let v = self.val();
        let size = match self.rng.below(6) {
            0 => 0,
            1 => 8,
            2 => 32,
            3 => self.rng.below(256) as u32,
            4 => 1024,
            _ => (self.rng.below(20) * 8) as u32,
        };
        self.emit(op::movi(n, size));
        if self.hostile() && self.rng.chance(1, 3) {
            self.interesting_value(n);
        }
        self.emit(op::aloc(n));
        if size >= 8 {
            self.emit(op::sw(HP, v, 0));
            self.emit(op::lw(v, HP, 0));
        }
        if self.hostile() {
            // write just below the heap pointer
            let p = self.tmp();
            self.emit(op::subi(p, HP, 8));
            self.emit(op::sw(p, v, 0));
        }
    }

    fn log(&mut self) {
        let (a, b, c, d) = (self.val(), self.val(), self.val(), self.val());
        match self.rng.below(3) {
            0 => self.emit(op::log(a, b, c, d)),
            1 => {
                let (p, l) = (self.tmp(), self.tmp());
                if p != l {
                    self.ptr_loc(p, self.rng.below(512) as u32);
                    self.emit(op::movi(l, self.rng.below(300) as u32));
                    if self.hostile() {
                        let t = if self.rng.bool() { p } else { l };
                        self.twist(t);
                    }
                    self.emit(op::logd(a, b, p, l));
                }
            }
            _ => {
                let (p, l) = (self.tmp(), self.tmp());
                if p != l {
                    self.emit(op::move_(p, R_DATA));
                    self.emit(op::movi(l, self.rng.below(64) as u32));
                    self.emit(op::logd(a, b, p, l));
                }
            }
        }
    }

    fn key_ptr(&mut self, r: u8) {
        // few overlapping keys incl. the 2^256 boundary
        let k: [u8; 32] = match self.rng.below(8) {
            0 => [0u8; 32],
            1 => [0xff; 32],
            2 => {
                let mut k = [0xff; 32];
                k[31] = 0xfd;
                k
            }
            n => {
                let mut k = [0u8; 32];
                k[31] = n as u8;
                k
            }
        };
        let off = self.data(&k);
        self.ptr_data(r, off);
    }

    /// key pool of the extended storage shapes: small keys, keys whose increment carries
    /// into the next byte(s), keys just below 2^256
    fn key_ptr_rich(&mut self, r: u8) {
        let mut k = [0u8; 32];
        match self.rng.below(20) {
            n @ 0..=7 => k[31] = n as u8,
            8 => k[31] = 0xfe,
            9 => k[31] = 0xff,
            10 => k[30] = 0x01,
            11 => {
                k[30] = 0x01;
                k[31] = 0x01;
            }
            12 => {
                k = [0xff; 32];
                k[0] = 0x7f;
                k[31] = 0xfe;
            }
            13 => k[0] = 0x80,
            n => {
                // 0xff..fa ..= 0xff..ff
                k = [0xff; 32];
                k[31] = 0xfa + (n as u8 - 14);
            }
        }
        let off = self.data(&k);
        self.ptr_data(r, off);
    }

    /// Extended storage shapes (enabled by `Weights::storage_rich`). Registers: 16 key
    /// pointer, 17 source pointer, 18 length, 19 offset, 20 destination pointer, 21
    /// scratch; status / value registers are drawn from the value pool.
    fn storage_rich(&mut self) {
        let (k, p, l, o, d, t) = (16u8, 17u8, 18u8, 19u8, 20u8, 21u8);
        let (s, v) = (self.val(), self.val());
        self.key_ptr_rich(k);
        // source bytes: random data embedded in the program, or the local frame (sometimes
        // refreshed with random data first)
        let blob_len = 64 + self.rng.below(160) as usize;
        let blob: Vec<u8> = (0..blob_len).map(|_| self.rng.u8()).collect();
        let boff = self.data(&blob);
        if self.rng.chance(1, 4) {
            self.ptr_loc(p, 0);
            self.ptr_data(t, boff);
            self.emit(op::mcpi(p, t, blob_len as u16));
        }
        if self.rng.chance(2, 3) {
            self.ptr_data(p, boff);
        } else {
            self.ptr_loc(p, self.rng.below(64) as u32);
        }
        self.ptr_loc(d, 512 + (self.rng.below(8) * 8) as u32);
        let lens = [0u32, 0, 1, 7, 8, 9, 24, 31, 32, 32, 33, 40, 63, 64, 65, 95, 96, 97, 128, 255, 256, 257, 300];
        let len = *self.rng.pick(&lens);
        match self.rng.below(40) {
            0..=5 => {
                // write a value, ask for its length, read around the end
                if self.rng.bool() {
                    self.emit(op::swri(k, p, (len & 0xfff) as u16));
                } else {
                    self.emit(op::movi(l, len));
                    self.emit(op::swrd(k, p, l));
                }
                self.emit(op::spld(l, k));
                match self.rng.below(10) {
                    0..=2 => self.emit(op::srdd(d, k, ZERO, l)), // whole value
                    3 | 4 => self.emit(op::srdd(d, k, l, ZERO)), // empty slice at the end
                    5 => {
                        // empty slice one past the end
                        self.emit(op::addi(o, l, 1));
                        self.emit(op::srdd(d, k, o, ZERO));
                    }
                    6 | 7 => {
                        // last byte(s), ending exactly at the end (or one past it)
                        let back = 1 + self.rng.below(8) as u16;
                        self.emit(op::subi(o, l, back));
                        let extra = self.rng.chance(1, 4) as u8;
                        self.emit(op::srdi(d, k, o, back as u8 + extra));
                    }
                    8 => {
                        self.emit(op::movi(o, self.rng.below(len as u64 + 1) as u32));
                        self.emit(op::sub(l, l, o));
                        self.emit(op::srdd(d, k, o, l));
                    }
                    _ => {
                        self.emit(op::movi(o, self.rng.below(len as u64 + 2) as u32));
                        self.emit(op::movi(l, self.rng.below(len as u64 + 2) as u32));
                        self.emit(op::srdd(d, k, o, l));
                    }
                }
            }
            6..=10 => {
                // update relative to the current length
                self.emit(op::spld(o, k));
                match self.rng.below(9) {
                    0 | 1 => {}                                  // offset == length (append by value)
                    2 | 3 => self.emit(op::not(o, ZERO)),        // append marker
                    4 => self.emit(op::addi(o, o, 1)),           // one past the end
                    5 => self.emit(op::subi(o, o, 1 + self.rng.below(12) as u16)),
                    6 | 7 => self.emit(op::srli(o, o, 1)),
                    _ => self.emit(op::move_(o, ZERO)),
                }
                let ul = *self.rng.pick(&[0u32, 0, 1, 5, 8, 13, 32, 40, 63]);
                if self.rng.bool() {
                    self.emit(op::movi(l, ul));
                    self.emit(op::supd(k, p, o, l));
                } else {
                    self.emit(op::supi(k, p, o, (ul & 0x3f) as u8));
                }
                if self.rng.bool() {
                    self.emit(op::spld(v, k));
                    self.emit(op::srdd(d, k, ZERO, v));
                }
            }
            11 | 12 => {
                // legacy reads of whatever is there (any word offset)
                self.emit(op::srw(v, s, k, self.rng.below(64) as u8));
            }
            13..=15 => {
                // dynamic write followed by legacy accesses of the same slot
                self.emit(op::swri(k, p, (len & 0xfff) as u16));
                match self.rng.below(4) {
                    0 => self.emit(op::srw(v, s, k, self.rng.below(12) as u8)),
                    1 => {
                        self.emit(op::movi(l, 1 + self.rng.below(2) as u32));
                        self.emit(op::srwq(d, s, k, l));
                    }
                    2 => self.emit(op::sww(k, s, v)),
                    _ => {
                        self.emit(op::movi(l, 1));
                        self.emit(op::scwq(k, s, l));
                    }
                }
            }
            16..=20 => {
                // sequential write then read back / clear part of it
                let n = self.rng.below(7) as u32;
                self.emit(op::movi(l, n));
                self.emit(op::swwq(k, s, p, l));
                match self.rng.below(4) {
                    0 => {
                        self.emit(op::movi(l, self.rng.below(7) as u32));
                        self.emit(op::srwq(d, v, k, l));
                    }
                    1 => {
                        self.emit(op::movi(l, self.rng.below(4) as u32));
                        self.emit(op::scwq(k, v, l));
                    }
                    2 => {
                        self.emit(op::movi(l, self.rng.below(4) as u32));
                        self.emit(op::sclr(k, l));
                    }
                    _ => {}
                }
            }
            21 | 22 => {
                self.emit(op::movi(l, self.rng.below(8) as u32));
                self.emit(op::srwq(d, s, k, l));
            }
            23..=25 => {
                self.emit(op::movi(l, self.rng.below(8) as u32));
                if self.rng.bool() {
                    self.emit(op::scwq(k, s, l));
                } else {
                    self.emit(op::sclr(k, l));
                }
                // the cleared slot must read as absent afterwards
                match self.rng.below(3) {
                    0 => self.emit(op::spld(v, k)),
                    1 => self.emit(op::srw(v, s, k, 0)),
                    _ => self.emit(op::srdi(d, k, ZERO, 0)),
                }
            }
            26..=28 => {
                // size query and read of an arbitrary key
                self.emit(op::spld(l, k));
                self.emit(op::srdd(d, k, ZERO, l));
            }
            29 | 30 => {
                // long values
                let big = *self.rng.pick(&[95u32, 96, 97, 255, 256, 257, 512, 1000, 31, 33, 40, 64]);
                self.ptr_loc(p, 0);
                self.emit(op::movi(l, big));
                if self.rng.bool() {
                    self.emit(op::swrd(k, p, l));
                } else {
                    self.emit(op::not(o, ZERO));
                    self.emit(op::supd(k, p, o, l));
                }
                // the legacy (32-byte slot) instructions on the value just written: a slot
                // that is not exactly 32 bytes long must be refused by them
                match self.rng.below(4) {
                    0 => {
                        self.emit(op::movi(l, 1));
                        self.emit(op::srwq(d, s, k, l));
                    }
                    1 => self.emit(op::srw(v, s, k, 0)),
                    _ => {}
                }
            }
            31 => {
                // reserved / aliased result registers (the instruction must fail)
                // (incl. the registers that delimit the owned memory regions)
                let rs = *self.rng.pick(&[ZERO, ONE, 8u8, 15u8, 4u8, 5u8, 6u8, 7u8, 12u8]);
                match self.rng.below(5) {
                    0 => self.emit(op::sww(k, rs, v)),
                    1 => {
                        self.emit(op::movi(l, 1 + self.rng.below(3) as u32));
                        self.emit(op::swwq(k, rs, p, l));
                    }
                    2 => {
                        self.emit(op::movi(l, 1 + self.rng.below(3) as u32));
                        self.emit(op::scwq(k, rs, l));
                    }
                    3 => self.emit(op::srw(v, v, k, 0)),
                    _ => self.emit(op::spld(rs, k)),
                }
            }
            32..=34 => {
                // word write then word reads at every offset class
                self.emit(op::sww(k, s, v));
                let off = *self.rng.pick(&[0u8, 1, 3, 4, 63]);
                let v2 = self.val();
                self.emit(op::srw(v2, s, k, off));
            }
            35 => {
                // sequential write whose source ends outside readable memory / partial
                self.emit(op::subi(p, HP, 40));
                self.emit(op::movi(l, 1 + self.rng.below(3) as u32));
                self.emit(op::swwq(k, s, p, l));
            }
            36 | 37 => {
                // a read of an absent slot directly followed by a dynamic read of a present
                // one, every operand staged beforehand so that no instruction in between
                // clears `$err`: the second read must report "present"
                let n = len.clamp(1, 200);
                self.emit(op::movi(l, n));
                self.emit(op::swrd(k, p, l));
                let absent: [u8; 32] = self.rng.arr();
                let aoff = self.data(&absent);
                self.ptr_data(o, aoff);
                self.emit(op::movi(l, n.min(8)));
                if self.rng.bool() {
                    self.emit(op::spld(v, o));
                } else {
                    self.emit(op::srdi(d, o, ZERO, 0));
                }
                if self.rng.bool() {
                    self.emit(op::srdd(d, k, ZERO, l));
                } else {
                    self.emit(op::srdi(d, k, ZERO, n.min(8) as u8));
                }
                self.emit(op::log(8, l, ZERO, ZERO));
            }
            _ => {
                self.emit(op::spld(v, k));
            }
        }
    }

    fn storage(&mut self) {
        if self.w.storage_rich > 0 && self.rng.below(1000) < self.w.storage_rich as u64 {
            self.storage_rich();
            return;
        }
        let (k, s, v) = (self.tmp(), self.val(), self.val());
        let (p, l) = (self.tmp(), self.tmp());
        if k == p || k == l || p == l {
            return;
        }
        self.key_ptr(k);
        if self.hostile() && self.rng.chance(1, 3) {
            self.twist(k);
        }
        match self.rng.below(14) {
            0 => self.emit(op::sww(k, s, v)),
            1 => self.emit(op::srw(v, s, k, self.rng.below(6) as u8)),
            2 => {
                self.ptr_loc(p, (self.rng.below(8) * 32) as u32);
                self.emit(op::movi(l, self.rng.below(4) as u32));
                self.emit(op::swwq(k, s, p, l));
            }
            3 => {
                self.ptr_loc(p, 256 + (self.rng.below(8) * 32) as u32);
                self.emit(op::movi(l, self.rng.below(4) as u32));
                self.emit(op::srwq(p, s, k, l));
            }
            4 => {
                self.emit(op::movi(l, self.rng.below(4) as u32));
                self.emit(op::scwq(k, s, l));
            }
            5 => {
                self.emit(op::movi(l, self.rng.below(4) as u32));
                self.emit(op::sclr(k, l));
            }
            6 => {
                self.ptr_loc(p, self.rng.below(256) as u32);
                self.emit(op::movi(l, self.rng.below(100) as u32));
                self.emit(op::swrd(k, p, l));
            }
            7 => {
                self.ptr_loc(p, self.rng.below(256) as u32);
                self.emit(op::swri(k, p, self.rng.below(100) as u16));
            }
            8 => {
                let o = self.val();
                self.emit(op::movi(o, self.rng.below(40) as u32));
                self.ptr_loc(p, 512);
                self.emit(op::movi(l, self.rng.below(60) as u32));
                self.emit(op::srdd(p, k, o, l));
            }
            9 => {
                let o = self.val();
                self.emit(op::movi(o, self.rng.below(40) as u32));
                self.ptr_loc(p, 512);
                self.emit(op::srdi(p, k, o, self.rng.below(64) as u8));
            }
            10 => {
                let o = self.val();
                if self.rng.bool() {
                    self.emit(op::not(o, ZERO)); // append
                } else {
                    self.emit(op::movi(o, self.rng.below(40) as u32));
                }
                self.ptr_loc(p, self.rng.below(128) as u32);
                self.emit(op::movi(l, self.rng.below(50) as u32));
                self.emit(op::supd(k, p, o, l));
            }
            11 => {
                let o = self.val();
                self.emit(op::movi(o, self.rng.below(40) as u32));
                self.ptr_loc(p, self.rng.below(128) as u32);
                self.emit(op::supi(k, p, o, self.rng.below(64) as u8));
            }
            _ => self.emit(op::spld(v, k)),
        }
    }

    fn contract_ptr(&mut self, r: u8) -> bool {
        let foreign = !self.env.foreign_contracts.is_empty()
            && ((self.env.contracts.is_empty() && self.rng.chance(1, 4)) || self.rng.chance(1, 25));
        if !foreign && self.env.contracts.is_empty() {
            // nothing to refer to: point at the local frame (32 zero/garbage bytes)
            self.ptr_loc(r, 896);
            return false;
        }
        let id = if foreign {
            *self.rng.pick(&self.env.foreign_contracts)
        } else if !self.env.contracts.is_empty() {
            *self.rng.pick(&self.env.contracts)
        } else {
            ContractId::new(self.rng.arr())
        };
        let off = self.data(id.as_ref());
        self.ptr_data(r, off);
        !foreign
    }

    fn asset_ptr(&mut self, r: u8) {
        let a = if self.env.assets.is_empty() || self.rng.chance(1, 12) {
            AssetId::new(self.rng.arr())
        } else {
            *self.rng.pick(&self.env.assets)
        };
        let off = self.data(a.as_ref());
        self.ptr_data(r, off);
    }

    fn call(&mut self) {
        let (cs, amt, ap, g) = (16u8, 17u8, 18u8, 19u8);
        if self.mode == Mode::Contract && self.w.self_transfer > 0 && self.rng.below(3000) < self.w.self_transfer as u64 {
            // the executing contract calls itself and forwards coins: its id is the first
            // field of its own call frame, so `$fp` serves as the call structure (the two
            // parameters are the first words of the frame's asset id). A quarter of the
            // context gas bounds the recursion.
            self.emit(op::movi(amt, 1 + self.rng.below(9) as u32));
            self.asset_ptr(ap);
            self.emit(op::srli(g, CGAS, 2));
            self.emit(op::call(FP, amt, ap, g));
            return;
        }
        let foreign = !self.env.foreign_contracts.is_empty() && self.rng.chance(1, 30);
        let id = if foreign {
            *self.rng.pick(&self.env.foreign_contracts)
        } else if !self.env.contracts.is_empty() {
            *self.rng.pick(&self.env.contracts)
        } else {
            return;
        };
        let mut st = id.as_ref().to_vec();
        st.extend_from_slice(&self.rng.word().to_be_bytes());
        st.extend_from_slice(&self.rng.word().to_be_bytes());
        let off = self.data(&st);
        self.ptr_data(cs, off);
        // forwarded coins: mostly zero, sometimes small
        match self.rng.below(4) {
            0 => self.emit(op::movi(amt, self.rng.below(50) as u32)),
            _ => self.emit(op::move_(amt, ZERO)),
        }
        self.asset_ptr(ap);
        match self.rng.below(4) {
            0 => self.emit(op::move_(g, CGAS)),
            1 => self.emit(op::movi(g, self.rng.below(5000) as u32)),
            2 => self.emit(op::not(g, ZERO)),
            _ => self.emit(op::srli(g, CGAS, 1)),
        }
        if self.hostile() {
            let t = [cs, amt, ap, g][self.rng.usize_below(4)];
            self.twist(t);
        }
        self.emit(op::call(cs, amt, ap, g));
        // use the results
        if self.rng.bool() {
            let v = self.val();
            self.emit(op::move_(v, RET));
            let v2 = self.val();
            self.emit(op::move_(v2, RETL));
            if self.rng.chance(1, 3) {
                // read returned data (callee heap must be readable)
                let l = self.tmp();
                self.emit(op::move_(l, RETL));
                self.emit(op::andi(l, l, 0xff));
                self.emit(op::logd(ZERO, ZERO, RET, l));
            }
        }
    }

    fn money(&mut self) {
        let (p, a, ap, q) = (16u8, 17u8, 18u8, 19u8);
        let amount = match self.rng.below(12) {
            0 => 0,
            1..=5 => 1,
            6..=9 => self.rng.below(6) as u32,
            _ => self.rng.below(2000) as u32,
        };
        self.emit(op::movi(a, amount));
        self.asset_ptr(ap);
        let internal = self.mode == Mode::Contract;
        let mut pick = self.rng.below(6);
        if (pick == 2 || pick == 3) && !internal && !self.hostile() {
            // mint / burn need an internal context
            pick = if self.rng.bool() { 0 } else { 5 };
        }
        match pick {
            0 => {
                if internal && self.w.self_transfer > 0 && self.rng.below(1000) < self.w.self_transfer as u64 {
                    // transfer to the executing contract itself: its id is at `$fp`
                    self.emit(op::tr(FP, a, ap));
                    return;
                }
                if !self.contract_ptr(p) && !self.hostile() {
                    return;
                }
                if self.hostile() {
                    self.twist(a);
                }
                self.emit(op::tr(p, a, ap));
            }
            1 => {
                let addr: [u8; 32] = self.rng.id32(3);
                let off = self.data(&addr);
                self.ptr_data(p, off);
                let oi = if !self.env.variable_outputs.is_empty() && !self.hostile() {
                    *self.rng.pick(&self.env.variable_outputs) as u32
                } else {
                    self.rng.below(self.env.n_outputs as u64 + 2) as u32
                };
                self.emit(op::movi(q, oi));
                self.emit(op::tro(p, q, a, ap));
            }
            2 | 3 => {
                // mint / burn (internal context)
                let sub: [u8; 32] = if self.rng.bool() { [0u8; 32] } else { self.rng.id32(2) };
                let off = self.data(&sub);
                self.ptr_data(p, off);
                if self.rng.bool() {
                    self.emit(op::mint(a, p));
                } else {
                    self.emit(op::burn(a, p));
                }
            }
            4 => {
                let rcpt: [u8; 32] = self.rng.id32(3);
                let off = self.data(&rcpt);
                self.ptr_data(p, off);
                self.ptr_loc(q, 0);
                let l = 20u8;
                self.emit(op::movi(l, self.rng.below(64) as u32));
                self.emit(op::smo(p, q, l, a));
            }
            _ => {
                let v = self.val();
                if !self.contract_ptr(p) && !self.hostile() {
                    return;
                }
                self.emit(op::bal(v, ap, p));
            }
        }
    }

    /// LDC with `$sp == $ssp`: the local frame is dropped, code is loaded, the frame is
    /// re-created above the loaded code (its previous contents are lost)
    fn load_code(&mut self) {
        let (p, o, l) = (16u8, 17u8, 18u8);
        self.emit(op::cfsi(FRAME));
        let mode = self.rng.below(3) as u8;
        match mode {
            0 => {
                self.contract_ptr(p);
            }
            1 => {
                let id = if self.env.blobs.is_empty() || self.rng.chance(1, 20) { self.rng.arr() } else { *self.rng.pick(&self.env.blobs) };
                let off = self.data(&id);
                self.ptr_data(p, off);
            }
            _ => self.ptr_data(p, 0),
        }
        self.emit(op::movi(o, self.rng.below(64) as u32));
        match self.rng.below(6) {
            0 => self.emit(op::move_(l, ZERO)),
            1 => self.emit(op::movi(l, self.rng.below(3000) as u32)),
            _ => self.emit(op::movi(l, self.rng.below(200) as u32)),
        }
        if self.hostile() {
            let t = [p, o, l][self.rng.usize_below(3)];
            self.twist(t);
        }
        self.emit(op::ldc(p, o, l, mode));
        self.emit(op::move_(R_LOC, SP));
        self.emit(op::cfei(FRAME));
    }

    fn query(&mut self) {
        let (d, p, o, l) = (16u8, 17u8, 18u8, 19u8);
        let v = self.val();
        match self.rng.below(9) {
            0 => {
                if !self.contract_ptr(p) && !self.hostile() {
                    return;
                }
                self.emit(op::csiz(v, p));
            }
            1 => {
                if !self.contract_ptr(p) && !self.hostile() {
                    return;
                }
                self.ptr_loc(d, 512);
                self.emit(op::croo(d, p));
            }
            2 => {
                if !self.contract_ptr(p) && !self.hostile() {
                    return;
                }
                self.ptr_loc(d, 256);
                self.emit(op::movi(o, self.rng.below(64) as u32));
                self.emit(op::movi(l, self.rng.below(200) as u32));
                if self.hostile() {
                    let t = [d, o, l][self.rng.usize_below(3)];
                    self.twist(t);
                }
                self.emit(op::ccp(d, p, o, l));
            }
            3 | 4 => {
                if self.env.blobs.is_empty() && !self.hostile() {
                    return;
                }
                let id = if self.env.blobs.is_empty() || self.rng.chance(1, 20) { self.rng.arr() } else { *self.rng.pick(&self.env.blobs) };
                let off = self.data(&id);
                self.ptr_data(p, off);
                if self.rng.bool() {
                    self.emit(op::bsiz(v, p));
                } else {
                    self.ptr_loc(d, 128);
                    self.emit(op::movi(o, self.rng.below(40) as u32));
                    self.emit(op::movi(l, self.rng.below(200) as u32));
                    self.emit(op::bldd(d, p, o, l));
                }
            }
            5 => {
                let r = self.tmp();
                self.emit(op::cb(R_LOC));
                self.ptr_loc(r, 64);
                self.emit(op::cb(r));
            }
            6 => {
                let h = self.tmp();
                self.emit(op::movi(h, self.rng.below(20) as u32));
                if self.rng.bool() {
                    self.emit(op::time(v, h));
                } else {
                    self.ptr_loc(d, 96);
                    self.emit(op::bhsh(d, h));
                }
            }
            7 => self.emit(op::bhei(v)),
            _ => {
                // LDC needs $ssp == $sp: only meaningful before the frame exists; emit
                // rarely as a (usually failing) instruction
                if self.hostile() {
                    if !self.contract_ptr(p) && !self.hostile() {
                    return;
                }
                    self.emit(op::movi(o, 0));
                    self.emit(op::movi(l, 16));
                    self.emit(op::ldc(p, o, l, self.rng.below(4) as u8));
                }
            }
        }
    }

    fn crypto(&mut self) {
        let (d, s, l) = (16u8, 17u8, 18u8);
        self.ptr_loc(d, 640);
        self.ptr_loc(s, self.rng.below(256) as u32);
        self.emit(op::movi(l, self.rng.below(200) as u32));
        if self.hostile() {
            // destination (or source) somewhere it must not be: address 0 (readable, not
            // owned), the gap, the heap start, the end of memory
            let t = if self.rng.below(3) < 2 { d } else { s };
            self.twist(t);
        }
        match self.rng.below(7) {
            5 => {
                // pairing check: curve id 0, element count small or (hostile) huge
                let (c, n) = (19u8, 20u8);
                self.emit(op::movi(c, self.rng.below(2) as u32));
                self.emit(op::movi(n, self.rng.below(3) as u32));
                if self.hostile() {
                    self.interesting_value(n);
                }
                let v = self.val();
                self.emit(op::epar(v, c, n, s));
            }
            6 => {
                let (c, t) = (19u8, 20u8);
                self.emit(op::movi(c, self.rng.below(2) as u32));
                self.emit(op::movi(t, self.rng.below(3) as u32));
                if self.hostile() {
                    self.interesting_value(t);
                }
                self.emit(op::ecop(d, c, t, s));
            }
            0 => self.emit(op::s256(d, s, l)),
            1 => self.emit(op::k256(d, s, l)),
            2 => {
                let m = 19u8;
                self.ptr_loc(m, 320);
                self.emit(op::eck1(d, s, m));
            }
            3 => {
                let m = 19u8;
                self.ptr_loc(m, 320);
                self.emit(op::ecr1(d, s, m));
            }
            _ => {
                let m = 19u8;
                self.ptr_loc(m, 320);
                self.emit(op::movi(l, self.rng.below(64) as u32));
                self.emit(op::ed19(d, s, m, l));
            }
        }
    }

    fn introspect(&mut self) {
        let v = self.val();
        let i = self.tmp();
        match self.rng.below(4) {
            0 => {
                let all = [GMArgs::IsCallerExternal, GMArgs::GetCaller, GMArgs::GetVerifyingPredicate, GMArgs::GetChainId, GMArgs::TxStart, GMArgs::BaseAssetId, GMArgs::GetGasPrice, GMArgs::GetOwner];
                let ext = [GMArgs::GetChainId, GMArgs::TxStart, GMArgs::BaseAssetId, GMArgs::GetGasPrice];
                let int = [GMArgs::IsCallerExternal, GMArgs::GetChainId, GMArgs::TxStart, GMArgs::BaseAssetId, GMArgs::GetGasPrice];
                let s = if self.hostile() {
                    *self.rng.pick(&all)
                } else if self.mode == Mode::Contract {
                    *self.rng.pick(&int)
                } else {
                    *self.rng.pick(&ext)
                };
                self.emit(op::gm_args(v, s));
            }
            1 => {
                self.emit(op::movi(i, self.rng.below(self.env.n_inputs as u64 + 2) as u32));
                let sel = [GTFArgs::Type, GTFArgs::ScriptGasLimit, GTFArgs::ScriptLength, GTFArgs::ScriptDataLength, GTFArgs::ScriptInputsCount, GTFArgs::ScriptOutputsCount, GTFArgs::ScriptWitnessesCount, GTFArgs::Script, GTFArgs::ScriptData, GTFArgs::ScriptInputAtIndex, GTFArgs::ScriptOutputAtIndex, GTFArgs::ScriptWitnessAtIndex, GTFArgs::TxLength, GTFArgs::InputType, GTFArgs::InputCoinOwner, GTFArgs::InputCoinAmount, GTFArgs::InputCoinAssetId, GTFArgs::InputContractId, GTFArgs::OutputType, GTFArgs::OutputCoinTo, GTFArgs::OutputCoinAmount, GTFArgs::WitnessDataLength, GTFArgs::WitnessData, GTFArgs::PolicyTypes, GTFArgs::PolicyMaxFee];
                let s = *self.rng.pick(&sel);
                self.emit(op::gtf_args(v, i, s));
            }
            2 if self.hostile() => {
                self.emit(op::movi(i, self.rng.below(4) as u32));
                self.emit(op::gtf(v, i, (self.rng.word() & 0xfff) as u16));
            }
            3 if self.hostile() => self.emit(op::gm(v, (self.rng.below(12)) as u32)),
            _ => self.emit(op::gtf_args(v, ZERO, GTFArgs::ScriptData)),
        }
    }

    fn wide(&mut self) {
        let (d, a, b, c) = (16u8, 17u8, 18u8, 19u8);
        self.ptr_loc(d, 768);
        self.ptr_loc(a, 0);
        self.ptr_loc(b, 64);
        self.ptr_loc(c, 128);
        use fuel_asm::{
            Imm06,
            wideint as wi,
        };
        let kind = self.rng.below(14);
        let ok = |k: u64, i: u8| -> bool {
            let im = Imm06::new(i);
            match k {
                0 | 1 => wi::CompareArgs::from_imm(im).is_some(),
                2 | 3 => wi::MathArgs::from_imm(im).is_some(),
                4 | 5 => wi::MulArgs::from_imm(im).is_some(),
                6 | 7 => wi::DivArgs::from_imm(im).is_some(),
                _ => true,
            }
        };
        let valid: Vec<u8> = (0..64u8).filter(|i| ok(kind, *i)).collect();
        let imm = if self.hostile() || valid.is_empty() { self.rng.below(64) as u8 } else { *self.rng.pick(&valid) };
        let i = match kind {
            0 => op::wdcm(self.val(), a, b, imm),
            1 => op::wqcm(self.val(), a, b, imm),
            2 => op::wdop(d, a, b, imm),
            3 => op::wqop(d, a, b, imm),
            4 => op::wdml(d, a, b, imm),
            5 => op::wqml(d, a, b, imm),
            6 => op::wddv(d, a, b, imm),
            7 => op::wqdv(d, a, b, imm),
            8 => op::wdmd(d, a, b, c),
            9 => op::wqmd(d, a, b, c),
            10 => op::wdam(d, a, b, c),
            11 => op::wqam(d, a, b, c),
            12 => op::wdmm(d, a, b, c),
            _ => op::wqmm(d, a, b, c),
        };
        self.emit(op::movi(20, 3));
        self.emit(op::flag(20));
        self.emit(i);
        self.emit(op::flag(ZERO));
    }

    /// Accesses aimed at the boundaries of the regions a frame owns (C24/C34 workload).
    fn frame(&mut self) {
        let (p, q, l) = (16u8, 17u8, 18u8);
        let v = self.val();
        let shrink = self.rng.chance(1, 10);
        if shrink {
            // shrink the stack first: the bytes above the new $sp stay readable but are
            // no longer owned
            self.emit(op::cfsi(64));
        }
        match self.rng.below(18) {
            0 => self.emit(op::subi(p, SP, 8)),
            1 => self.emit(op::move_(p, SP)),
            2 => self.emit(op::move_(p, SSP)),
            3 => self.emit(op::subi(p, SSP, 8)),
            4 => self.emit(op::move_(p, HP)),
            5 => self.emit(op::subi(p, HP, 8)),
            6 => self.emit(op::subi(p, HP, 1)),
            // saved registers of the caller live at $fp + 64 + 8*i ($ssp 4, $sp 5, $fp 6,
            // $hp 7); in a script ($fp = 0) these loads give arbitrary table bytes
            7 => self.emit(op::lw(p, FP, 15)),
            8 => {
                self.emit(op::lw(p, FP, 15));
                self.emit(op::subi(p, p, 8));
            }
            9 => self.emit(op::move_(p, FP)),
            10 => self.emit(op::subi(p, FP, 8)),
            11 => self.emit(op::lw(p, FP, 12)),
            12 => {
                self.emit(op::lw(p, FP, 13));
                self.emit(op::subi(p, p, 8));
            }
            13 => self.load_const(p, (1 << 26) - 8),
            14 => {
                let d = self.rng.below(9);
                self.load_const(p, (1 << 26) - d)
            }
            15 => self.emit(op::movi(p, self.rng.below(700) as u32)),
            16 => self.emit(op::move_(p, IS)),
            // the code-size word of the own call frame
            _ => self.emit(op::addi(p, FP, 576)),
        }
        if self.rng.chance(1, 6) {
            // nudge the pointer across the boundary
            match self.rng.below(4) {
                0 => self.emit(op::addi(p, p, 1)),
                1 => self.emit(op::subi(p, p, 1)),
                2 => self.emit(op::addi(p, p, 8)),
                _ => self.emit(op::subi(p, p, 7)),
            }
        }
        match self.rng.below(14) {
            0 | 1 => self.emit(op::sw(p, v, 0)),
            2 => self.emit(op::sb(p, v, 0)),
            3 => self.emit(op::mcli(p, [1u32, 8, 8, 16, 0][self.rng.usize_below(5)])),
            4 => {
                self.emit(op::movi(l, self.rng.below(40) as u32));
                self.emit(op::mcl(p, l));
            }
            5 => {
                self.ptr_loc(q, 512);
                self.emit(op::mcpi(p, q, 8));
            }
            6 => self.emit(op::lw(v, p, 0)),
            7 => self.emit(op::lb(v, p, 0)),
            8 => {
                self.ptr_loc(q, 0);
                self.emit(op::mcpi(q, p, 8));
            }
            9 => {
                self.ptr_loc(q, 64);
                self.emit(op::movi(l, 8));
                if self.rng.bool() {
                    self.emit(op::s256(p, q, l));
                } else {
                    self.emit(op::k256(p, q, l));
                }
            }
            10 => {
                self.emit(op::movi(l, self.rng.below(24) as u32));
                self.emit(op::logd(ZERO, ZERO, p, l));
            }
            11 => {
                self.ptr_loc(q, 128);
                self.emit(op::movi(l, 8));
                self.emit(op::meq(v, p, q, l));
            }
            12 => {
                self.emit(op::shw(p, v, 0));
                self.emit(op::sqw(p, v, 0));
            }
            _ => {
                self.ptr_loc(q, 256);
                self.emit(op::movi(l, self.rng.below(24) as u32));
                self.emit(op::mcp(p, q, l));
            }
        }
        if shrink {
            self.emit(op::cfei(64));
        }
    }

    /// Counted self-call of a contract (C34 workload): `b` of the own call frame, masked
    /// to 0..63, is the remaining depth; the callee id is copied from the own frame.
    fn self_recursion(&mut self) {
        let (cnt, cs, g) = (16u8, 17u8, 19u8);
        let a = self.val();
        self.emit(op::lw(cnt, FP, 74)); // b parameter at $fp + 592
        self.emit(op::andi(cnt, cnt, 0x3f));
        self.emit(op::jnzf(cnt, ZERO, 1)); // b != 0: skip the next instruction
        let at = self.here();
        self.emit(op::noop()); // placeholder: jump over the block
        self.emit(op::addi(cs, R_LOC, 960));
        self.emit(op::mcpi(cs, FP, 32));
        self.emit(op::subi(cnt, cnt, 1));
        self.emit(op::sw(cs, a, 4));
        self.emit(op::sw(cs, cnt, 5));
        if self.rng.bool() {
            self.emit(op::not(g, ZERO));
        } else {
            self.emit(op::move_(g, CGAS));
        }
        // zero coins of an arbitrary asset (the 32 bytes of the own id)
        self.emit(op::call(cs, ZERO, cs, g));
        let skip = (self.here() - at - 1) as u32;
        self.code[at] = w(op::jmpf(ZERO, skip & 0x3ffff));
    }

    /// Unconditional call of `callee` (chain scenarios: contract k calls k-1 first thing).
    fn chained_call(&mut self, callee: &ContractId) {
        let (cs, amt, ap, g) = (16u8, 17u8, 18u8, 19u8);
        let mut st = callee.as_ref().to_vec();
        st.extend_from_slice(&self.rng.word().to_be_bytes());
        st.extend_from_slice(&self.rng.word().to_be_bytes());
        let off = self.data(&st);
        self.ptr_data(cs, off);
        if self.rng.chance(1, 8) {
            self.emit(op::movi(amt, self.rng.below(3) as u32));
        } else {
            self.emit(op::move_(amt, ZERO));
        }
        self.asset_ptr(ap);
        if self.rng.bool() {
            self.emit(op::not(g, ZERO));
        } else {
            self.emit(op::move_(g, CGAS));
        }
        self.emit(op::call(cs, amt, ap, g));
    }

    /// loops / jumps / subroutines around a small body
    fn flow(&mut self, depth: u32, in_sub: bool) {
        let mut pick = self.rng.below(7);
        if pick == 4 && in_sub {
            // no nested subroutines: the single link register would be clobbered
            pick = 1;
        }
        match pick {
            0 => {
                // counted loop with a backwards relative jump
                let n = 1 + self.rng.below(5) as u32;
                self.emit(op::movi(R_CNT, n));
                let start = self.here();
                self.body(1 + self.rng.below(3) as usize, depth + 1, in_sub);
                self.emit(op::subi(R_CNT, R_CNT, 1));
                let dist = (self.here() - start) as u32; // jump to `start`: pc - 4*(dist+1)... dist instructions back
                // target = pc - 4*(imm+1) must be `start`, which is `dist` instructions back
                if dist > 0 && dist < 4000 {
                    self.emit(op::jnzb(R_CNT, ZERO, (dist - 1) as u16));
                }
            }
            1 => {
                // forward conditional skip
                let c = self.val();
                let at = self.here();
                self.emit(op::noop()); // placeholder
                self.body(1 + self.rng.below(3) as usize, depth + 1, in_sub);
                let skip = (self.here() - at - 1) as u32; // pc + 4*(skip+1) lands after body
                self.code[at] = w(op::jnzf(c, ZERO, (skip & 0xfff) as u16));
            }
            2 => {
                // forward jump over a never-executed hostile block
                let at = self.here();
                self.emit(op::noop());
                let n = self.rng.below(3);
                for _ in 0..n {
                    let g = self.rng.u32();
                    self.raw(g);
                }
                let skip = (self.here() - at - 1) as u32;
                self.code[at] = w(op::jmpf(ZERO, skip & 0x3ffff));
            }
            3 => {
                // absolute jump to the next instruction (JI / JNEI / JNZI / JMP / JNE)
                let target = (self.here() + 1) as u32;
                match self.rng.below(5) {
                    0 => self.emit(op::ji(target & 0xff_ffff)),
                    1 => {
                        let c = self.val();
                        self.emit(op::jnzi(c, target & 0x3ffff))
                    }
                    2 => {
                        let (a, b) = (self.val(), self.val());
                        self.emit(op::jnei(a, b, (target & 0xfff) as u16))
                    }
                    3 => {
                        let t = self.tmp();
                        self.emit(op::movi(t, target + 1));
                        self.emit(op::jmp(t));
                    }
                    _ => {
                        let t = self.tmp();
                        let (a, b) = (self.val(), self.val());
                        self.emit(op::movi(t, target + 1));
                        // spec operand order: jne $rA $rB $rC jumps to $rC if $rA != $rB
                        self.emit(op::jne(a, b, t));
                    }
                }
            }
            4 => {
                // subroutine: jump over it, then call it with JAL, return with JAL $zero
                let at = self.here();
                self.emit(op::noop());
                let sub_start = self.here();
                self.body(1 + self.rng.below(2) as usize, depth + 1, true);
                self.emit(op::jal(ZERO, R_LINK, 0));
                let skip = (self.here() - at - 1) as u32;
                self.code[at] = w(op::jmpf(ZERO, skip & 0x3ffff));
                // call: target = $is + 4*sub_start
                let t = self.tmp();
                self.emit(op::movi(t, (sub_start * 4) as u32));
                self.emit(op::add(t, t, IS));
                self.emit(op::jal(R_LINK, t, 0));
            }
            5 => {
                // relative conditional with register-dynamic part zero
                let (a, b) = (self.val(), self.val());
                let at = self.here();
                self.emit(op::noop());
                self.body(1, depth + 1, in_sub);
                let skip = (self.here() - at - 1) as u32;
                self.code[at] = w(op::jnef(a, b, ZERO, (skip & 0x3f) as u8));
            }
            _ => {
                if self.hostile() && self.rng.bool() {
                    // jump into writable memory: plant `ret $one` in the local frame / heap
                    // and jump there (must not execute: outside [$is, $ssp))
                    let (t, v) = (self.tmp(), self.val());
                    let word = (w(op::ret(ONE)) as u64) << 32 | w(op::ret(ONE)) as u64;
                    self.load_const(v, word);
                    match self.rng.below(3) {
                        0 => {
                            self.emit(op::sw(R_LOC, v, 0));
                            self.emit(op::move_(t, R_LOC));
                        }
                        1 => {
                            self.emit(op::movi(t, 16));
                            self.emit(op::aloc(t));
                            self.emit(op::sw(HP, v, 0));
                            self.emit(op::move_(t, HP));
                        }
                        _ => {
                            self.emit(op::sw(R_LOC, v, 8));
                            self.emit(op::addi(t, R_LOC, 64));
                        }
                    }
                    match self.rng.below(3) {
                        0 => self.emit(op::jal(ZERO, t, 0)),
                        1 => {
                            // absolute jump: ($t - $is) / 4
                            self.emit(op::sub(t, t, IS));
                            self.emit(op::srli(t, t, 2));
                            self.emit(op::jmp(t));
                        }
                        _ => {
                            // relative forward: ($t - $pc) / 4 - 1, computed approximately:
                            // land somewhere in the frame
                            self.emit(op::jal(self.val(), t, 2));
                        }
                    }
                } else if self.hostile() {
                    // wild jump
                    let t = self.tmp();
                    self.interesting_value(t);
                    match self.rng.below(7) {
                        0 => self.emit(op::jmp(t)),
                        1 => self.emit(op::jmpf(t, 0)),
                        2 => self.emit(op::jmpb(t, 0)),
                        3 => self.emit(op::jal(self.val(), t, 0)),
                        4 | 5 => {
                            // a target exactly at / next to the end of memory
                            let end: u64 = (1 << 26) + 4 * self.rng.below(3) - 4;
                            self.load_const(t, end);
                            if self.rng.bool() {
                                self.emit(op::jal(self.val(), t, 0));
                            } else {
                                self.emit(op::sub(t, t, IS));
                                self.emit(op::srli(t, t, 2));
                                self.emit(op::jmp(t));
                            }
                        }
                        _ => {
                            // link and target in one register: the target is taken from the
                            // link just written ($pc + 4 + 4 * imm), the old value must not count
                            let k = self.rng.below(3) as u16;
                            self.emit(op::jal(t, t, k));
                            for _ in 0..k {
                                self.emit(op::noop());
                            }
                        }
                    }
                } else if self.rng.chance(1, 6) {
                    // the same on the ordinary path: skips `k` no-ops
                    let t = self.tmp();
                    let k = self.rng.below(3) as u16;
                    self.emit(op::jal(t, t, k));
                    for _ in 0..k {
                        self.emit(op::noop());
                    }
                }
            }
        }
    }

    fn snippet(&mut self, depth: u32, in_sub: bool) {
        if self.rng.below(1000) < self.w.garbage as u64 {
            let g = self.rng.u32();
            self.raw(g);
            return;
        }
        let internal = self.mode == Mode::Contract;
        let pred = self.mode == Mode::Predicate;
        let wt = self.w.clone();
        let table: [(u32, u8); 15] = [
            (wt.alu, 0),
            (wt.mem, 1),
            (wt.stack, 2),
            (wt.heap, 3),
            (if pred { 0 } else { wt.log }, 4),
            (if internal { wt.storage } else if pred { 0 } else { wt.storage / 20 }, 5),
            (if pred || in_sub { 0 } else { wt.call }, 6),
            (if pred { 0 } else { wt.money }, 7),
            (if pred { wt.query / 4 } else { wt.query }, 8),
            (wt.crypto, 9),
            (wt.introspect, 10),
            (if depth < 2 { wt.flow } else { 0 }, 11),
            (wt.wide, 12),
            (if pred { 0 } else { wt.ldc }, 13),
            // new families go last so that a zero weight leaves earlier picks unchanged
            (wt.frame, 14),
        ];
        let total: u32 = table.iter().map(|t| t.0).sum();
        let mut x = self.rng.below(total.max(1) as u64) as u32;
        let mut pick = 0u8;
        for (wgt, id) in table {
            if x < wgt {
                pick = id;
                break;
            }
            x -= wgt;
        }
        match pick {
            0 => self.alu(),
            1 => self.mem(),
            2 => self.stack(),
            3 => self.heap(),
            4 => self.log(),
            5 => self.storage(),
            6 => self.call(),
            7 => self.money(),
            8 => self.query(),
            9 => self.crypto(),
            10 => self.introspect(),
            11 => self.flow(depth, in_sub),
            13 => self.load_code(),
            14 => self.frame(),
            _ => self.wide(),
        }
    }

    /// receipt flood: `flood_n` iterations of a loop whose body is one receipt-producing
    /// instruction (only ever placed at top level: the loop counter is not nested)
    fn flood(&mut self) {
        let n = self.w.flood_n.clamp(1, 0x3ffff);
        let (a, b, c, d) = (self.val(), self.val(), self.val(), self.val());
        let (p, l) = (16u8, 17u8);
        let kind = self.rng.below(4);
        match kind {
            2 => {
                self.emit(op::move_(p, R_DATA));
                self.emit(op::movi(l, self.rng.below(24) as u32));
            }
            3 => {
                self.ptr_loc(p, self.rng.below(512) as u32);
                self.emit(op::movi(l, 0));
            }
            _ => {}
        }
        self.emit(op::movi(R_CNT, n));
        match kind {
            0 | 1 => self.emit(op::log(a, b, c, d)),
            _ => self.emit(op::logd(a, b, p, l)),
        }
        self.emit(op::subi(R_CNT, R_CNT, 1));
        // back to the receipt instruction, two instructions before this one
        self.emit(op::jnzb(R_CNT, ZERO, 1));
    }

    fn body(&mut self, n: usize, depth: u32, in_sub: bool) {
        for _ in 0..n {
            self.snippet(depth, in_sub);
        }
    }

    fn ending(&mut self) {
        let v = self.val();
        match self.rng.below(10) {
            0..=4 => {
                if self.mode == Mode::Predicate {
                    self.emit(op::ret(ONE));
                } else {
                    self.emit(op::ret(v));
                }
            }
            5 | 6 => {
                let (p, l) = (16u8, 17u8);
                if self.rng.bool() {
                    self.ptr_loc(p, self.rng.below(256) as u32);
                } else {
                    // return freshly allocated heap data
                    self.emit(op::movi(l, 64));
                    self.emit(op::aloc(l));
                    self.emit(op::sw(HP, v, 0));
                    self.emit(op::move_(p, HP));
                }
                self.emit(op::movi(l, self.rng.below(64) as u32));
                if self.mode == Mode::Predicate {
                    self.emit(op::ret(ONE));
                } else {
                    self.emit(op::retd(p, l));
                }
            }
            7 => {
                if self.mode == Mode::Predicate {
                    self.emit(op::ret(ZERO));
                } else {
                    self.emit(op::rvrt(v));
                }
            }
            8 => self.emit(op::ret(ONE)),
            _ => { /* fall off the end of the code */ }
        }
    }

    pub fn finish(mut self) -> Program {
        // pad code so the data section starts 8-aligned
        if self.code.len() % 2 != 0 {
            self.code.push(w(op::noop()));
        }
        let code_len = self.code.len() * 4;
        for at in self.patch_data_off.clone() {
            self.code[at] = w(op::movi(R_DATA, (code_len as u32) & 0x3ffff));
        }
        let mut bytes: Vec<u8> = self.code.iter().flat_map(|wd| wd.to_be_bytes()).collect();
        bytes.extend_from_slice(&self.data);
        while bytes.len() % 8 != 0 {
            bytes.push(0);
        }
        Program { bytes, code_len }
    }
}

/// Generate a program with `n` top-level snippets.
pub fn generate(rng: &mut Rng, env: &Env, mode: Mode, weights: Weights, n: usize) -> Program {
    generate_chained(rng, env, mode, weights, n, None)
}

/// As [`generate`]; with `first_call = Some(id)` the program calls that contract right
/// after its prelude (chain scenarios for deep call nesting).
pub fn generate_chained(rng: &mut Rng, env: &Env, mode: Mode, weights: Weights, n: usize, first_call: Option<&ContractId>) -> Program {
    let mut g = Gen::new(rng, env, mode, weights);
    g.prelude();
    if let Some(id) = first_call {
        g.chained_call(id);
    }
    if mode == Mode::Contract && g.w.recurse > 0 && g.rng.below(1000) < g.w.recurse as u64 {
        g.self_recursion();
    }
    if g.w.flood > 0 && g.rng.below(1000) < g.w.flood as u64 {
        let k = g.rng.usize_below(n + 1);
        g.body(k, 0, false);
        g.flood();
        g.body(n - k, 0, false);
    } else {
        g.body(n, 0, false);
    }
    g.ending();
    // safety net after the ending so that falling through still terminates
    g.emit(op::ret(ONE));
    g.finish()
}

/// Uniformly random bytes with a bias towards defined opcodes (C29).
pub fn random_bytes_program(rng: &mut Rng, n_instr: usize) -> Vec<u8> {
    let mut out = Vec::with_capacity(n_instr * 4);
    for _ in 0..n_instr {
        let mut wd = rng.u32();
        if rng.below(10) < 7 {
            // choose a defined opcode byte by rejection
            loop {
                let b = rng.u8();
                if fuel_asm::Opcode::try_from(b).is_ok() {
                    wd = (wd & 0x00ff_ffff) | ((b as u32) << 24);
                    break;
                }
            }
            if rng.bool() {
                // small register numbers / zero low bits help validity
                wd &= 0xff_fff_000 | rng.u32();
            }
        }
        out.extend_from_slice(&wd.to_be_bytes());
    }
    out
}

pub fn disasm(bytes: &[u8], max: usize) -> Vec<String> {
    bytes
        .chunks(4)
        .take(max)
        .map(|c| {
            if c.len() < 4 {
                return format!("{c:02x?}");
            }
            match Instruction::try_from([c[0], c[1], c[2], c[3]]) {
                Ok(i) => format!("{i:?}"),
                Err(_) => format!("INVALID {:08x}", u32::from_be_bytes([c[0], c[1], c[2], c[3]])),
            }
        })
        .collect()
}

#[allow(dead_code)]
fn _unused() {
    let _ = (BAL, FLAG, RegId::ZERO);
}
