//! Runtime-monitoring harness for fuel-vm (see /verif/DESIGN.md).
//!
//! Every monitor produces a [`Report`]: what it executed, which coverage classes it
//! observed, a few written-out samples and every refutation it found (with an exact
//! signature and a self-contained replay record). The python runner (`/verif/check`)
//! turns the report into a verdict, an evidence file and replay files.

#![allow(clippy::too_many_arguments)]

pub mod children;
pub mod gen_tx;
pub mod gen_valid;
pub mod mon;
pub mod prog;
pub mod recstore;
pub mod refmodel;
pub mod rng;
pub mod scenario;
pub mod stepbus;
pub mod vmutil;
pub mod world;

use serde_json::{
    Value,
    json,
};
use std::{
    cell::RefCell,
    collections::{
        BTreeMap,
        BTreeSet,
    },
    panic::{
        AssertUnwindSafe,
        catch_unwind,
    },
    sync::Once,
};

pub use rng::Rng;

/// Run configuration handed to every monitor.
#[derive(Clone, Debug)]
pub struct Cfg {
    pub prop: String,
    pub thorough: bool,
    pub seed: u64,
    pub threads: usize,
    /// multiplies every case budget (used by the runner for deeper sweeps)
    pub scale: f64,
    /// replay record (the `replay` member of a violation) to re-run instead of generating
    pub replay: Option<Value>,
    /// directory for event logs consumed by offline oracles
    pub work_dir: String,
    /// free-form options (`--opt k=v`)
    pub opts: BTreeMap<String, String>,
}

impl Cfg {
    /// case budget: `quick` or `thorough` scaled
    pub fn budget(&self, quick: u64, thorough: u64) -> u64 {
        let b = if self.thorough { thorough } else { quick };
        ((b as f64) * self.scale).max(1.0) as u64
    }

    pub fn opt(&self, k: &str) -> Option<&str> {
        self.opts.get(k).map(|s| s.as_str())
    }
}

#[derive(Clone, Debug)]
pub struct Violation {
    /// exact canonical signature of the failing shape (known findings are keyed on it)
    pub signature: String,
    /// human readable description of what was observed
    pub what: String,
    /// self-contained record sufficient to replay the case
    pub replay: Value,
}

/// What one monitor (or one worker of it) observed.
#[derive(Clone, Debug, Default)]
pub struct Report {
    pub evaluations: u64,
    pub classes: BTreeSet<String>,
    pub samples: Vec<Value>,
    pub counters: BTreeMap<String, u64>,
    pub violations: Vec<Violation>,
    /// number of violations per signature (all occurrences, `violations` keeps a few)
    pub violation_counts: BTreeMap<String, u64>,
    pub notes: Vec<String>,
    pub assumptions: Vec<String>,
    pub rule: String,
    pub exhaustive: bool,
    /// set when the monitor could not reach a verdict (never a violation)
    pub inconclusive: Option<String>,
    /// event logs written for offline oracles: (oracle name, path)
    pub event_logs: Vec<(String, String)>,
    /// coverage gates: (name, observed, required)
    pub gates: Vec<(String, u64, u64)>,
}

pub const MAX_SAMPLES: usize = 6;
pub const MAX_VIOLATIONS_PER_SIG: u64 = 3;

impl Report {
    pub fn new() -> Self {
        Self::default()
    }

    pub fn eval(&mut self) {
        self.evaluations += 1;
    }

    pub fn class(&mut self, c: impl Into<String>) {
        self.classes.insert(c.into());
    }

    pub fn count(&mut self, k: &str) {
        *self.counters.entry(k.to_string()).or_insert(0) += 1;
    }

    pub fn count_n(&mut self, k: &str, n: u64) {
        *self.counters.entry(k.to_string()).or_insert(0) += n;
    }

    pub fn counter(&self, k: &str) -> u64 {
        self.counters.get(k).copied().unwrap_or(0)
    }

    pub fn max(&mut self, k: &str, n: u64) {
        let e = self.counters.entry(k.to_string()).or_insert(0);
        if n > *e {
            *e = n;
        }
    }

    pub fn sample(&mut self, v: impl FnOnce() -> Value) {
        if self.samples.len() < MAX_SAMPLES {
            self.samples.push(v());
        }
    }

    pub fn note(&mut self, s: impl Into<String>) {
        let s = s.into();
        if !self.notes.contains(&s) && self.notes.len() < 64 {
            self.notes.push(s);
        }
    }

    pub fn assume(&mut self, s: impl Into<String>) {
        let s = s.into();
        if !self.assumptions.contains(&s) {
            self.assumptions.push(s);
        }
    }

    pub fn gate(&mut self, name: &str, observed: u64, required: u64) {
        self.gates.push((name.to_string(), observed, required));
    }

    pub fn violation(
        &mut self,
        signature: impl Into<String>,
        what: impl Into<String>,
        replay: impl FnOnce() -> Value,
    ) {
        let signature = signature.into();
        let n = self.violation_counts.entry(signature.clone()).or_insert(0);
        *n += 1;
        if *n <= MAX_VIOLATIONS_PER_SIG {
            self.violations.push(Violation {
                signature,
                what: what.into(),
                replay: replay(),
            });
        }
    }

    pub fn merge(&mut self, o: Report) {
        self.evaluations += o.evaluations;
        self.classes.extend(o.classes);
        for s in o.samples {
            if self.samples.len() < MAX_SAMPLES {
                self.samples.push(s);
            }
        }
        for (k, v) in o.counters {
            if k.starts_with("max_") {
                let e = self.counters.entry(k).or_insert(0);
                if v > *e {
                    *e = v;
                }
            } else {
                *self.counters.entry(k).or_insert(0) += v;
            }
        }
        for v in o.violations {
            let kept = self
                .violations
                .iter()
                .filter(|x| x.signature == v.signature)
                .count() as u64;
            if kept < MAX_VIOLATIONS_PER_SIG {
                self.violations.push(v);
            }
        }
        for (k, v) in o.violation_counts {
            *self.violation_counts.entry(k).or_insert(0) += v;
        }
        for n in o.notes {
            self.note(n);
        }
        for a in o.assumptions {
            self.assume(a);
        }
        if self.rule.is_empty() {
            self.rule = o.rule;
        }
        self.exhaustive |= o.exhaustive;
        if self.inconclusive.is_none() {
            self.inconclusive = o.inconclusive;
        }
        self.event_logs.extend(o.event_logs);
        self.gates.extend(o.gates);
    }

    pub fn to_json(&self) -> Value {
        json!({
            "evaluations": self.evaluations,
            "distinct_classes": self.classes.len(),
            "classes": self.classes.iter().take(4000).collect::<Vec<_>>(),
            "samples": self.samples,
            "counters": self.counters,
            "violations": self.violations.iter().map(|v| json!({
                "signature": v.signature, "what": v.what, "replay": v.replay,
            })).collect::<Vec<_>>(),
            "violation_counts": self.violation_counts,
            "notes": self.notes,
            "assumptions": self.assumptions,
            "rule": self.rule,
            "exhaustive": self.exhaustive,
            "inconclusive": self.inconclusive,
            "event_logs": self.event_logs.iter().map(|(o, p)| json!({"oracle": o, "path": p})).collect::<Vec<_>>(),
            "gates": self.gates.iter().map(|(n, o, r)| json!({"name": n, "observed": o, "required": r})).collect::<Vec<_>>(),
        })
    }
}

static PROGRESS: std::sync::OnceLock<std::fs::File> = std::sync::OnceLock::new();

/// Abort-safe progress marker (used by child workers of C29): the case about to run is
/// written to a file *before* it runs, so that a parent process can name the case that
/// killed the child with a signal.
pub fn set_progress_file(path: &str) {
    if let Ok(f) = std::fs::OpenOptions::new().create(true).write(true).truncate(true).open(path) {
        let _ = PROGRESS.set(f);
    }
}

pub fn progress(part: u64, idx: u64) {
    use std::os::unix::fs::FileExt;
    if let Some(f) = PROGRESS.get() {
        let mut b = [0u8; 16];
        b[..8].copy_from_slice(&part.to_le_bytes());
        b[8..].copy_from_slice(&idx.to_le_bytes());
        let _ = f.write_at(&b, 0);
    }
}

impl Report {
    /// Inverse of [`Report::to_json`] (used to merge the reports of child processes).
    pub fn from_json(j: &Value) -> Report {
        let mut r = Report::new();
        r.evaluations = j["evaluations"].as_u64().unwrap_or(0);
        if let Some(a) = j["classes"].as_array() {
            r.classes = a.iter().filter_map(|c| c.as_str().map(|s| s.to_string())).collect();
        }
        if let Some(a) = j["samples"].as_array() {
            r.samples = a.clone();
        }
        if let Some(m) = j["counters"].as_object() {
            r.counters = m.iter().map(|(k, v)| (k.clone(), v.as_u64().unwrap_or(0))).collect();
        }
        if let Some(a) = j["violations"].as_array() {
            for v in a {
                r.violations.push(Violation {
                    signature: v["signature"].as_str().unwrap_or("").to_string(),
                    what: v["what"].as_str().unwrap_or("").to_string(),
                    replay: v["replay"].clone(),
                });
            }
        }
        if let Some(m) = j["violation_counts"].as_object() {
            r.violation_counts = m.iter().map(|(k, v)| (k.clone(), v.as_u64().unwrap_or(0))).collect();
        }
        for (k, dst) in [("notes", &mut r.notes), ("assumptions", &mut r.assumptions)] {
            if let Some(a) = j[k].as_array() {
                *dst = a.iter().filter_map(|c| c.as_str().map(|s| s.to_string())).collect();
            }
        }
        r.rule = j["rule"].as_str().unwrap_or("").to_string();
        r.exhaustive = j["exhaustive"].as_bool().unwrap_or(false);
        r.inconclusive = j["inconclusive"].as_str().map(|s| s.to_string());
        if let Some(a) = j["gates"].as_array() {
            for g in a {
                r.gates.push((g["name"].as_str().unwrap_or("").to_string(), g["observed"].as_u64().unwrap_or(0), g["required"].as_u64().unwrap_or(0)));
            }
        }
        r
    }
}

/// Run `f(worker_index)` on `n` threads and merge the reports.
pub fn par<F>(n: usize, f: F) -> Report
where
    F: Fn(usize) -> Report + Sync,
{
    let n = n.max(1);
    let mut out = Report::new();
    let reports: Vec<Report> = std::thread::scope(|s| {
        let hs: Vec<_> = (0..n)
            .map(|i| {
                let f = &f;
                std::thread::Builder::new()
                    .stack_size(64 << 20)
                    .spawn_scoped(s, move || f(i))
                    .expect("spawn")
            })
            .collect();
        hs.into_iter()
            .enumerate()
            .map(|(i, h)| match h.join() {
                Ok(r) => r,
                Err(e) => {
                    let mut r = Report::new();
                    r.inconclusive = Some(format!(
                        "harness worker {i} panicked outside a monitored call: {}",
                        panic_payload(&e)
                    ));
                    r
                }
            })
            .collect()
    });
    for r in reports {
        out.merge(r);
    }
    out
}

fn panic_payload(e: &Box<dyn std::any::Any + Send>) -> String {
    if let Some(s) = e.downcast_ref::<&str>() {
        s.to_string()
    } else if let Some(s) = e.downcast_ref::<String>() {
        s.clone()
    } else {
        "<non-string panic>".into()
    }
}

thread_local! {
    static LAST_PANIC: RefCell<Option<String>> = const { RefCell::new(None) };
    static IN_MONITORED: RefCell<u32> = const { RefCell::new(0) };
}

static HOOK: Once = Once::new();

/// Install a panic hook that records message + location for [`guarded`] calls and stays
/// quiet for them (panics elsewhere are printed as usual).
pub fn install_panic_hook() {
    HOOK.call_once(|| {
        let default = std::panic::take_hook();
        std::panic::set_hook(Box::new(move |info| {
            let monitored = IN_MONITORED.with(|c| *c.borrow() > 0);
            let loc = info
                .location()
                .map(|l| format!("{}:{}", l.file(), l.line()))
                .unwrap_or_default();
            let msg = if let Some(s) = info.payload().downcast_ref::<&str>() {
                s.to_string()
            } else if let Some(s) = info.payload().downcast_ref::<String>() {
                s.clone()
            } else {
                "<non-string panic>".into()
            };
            if monitored {
                LAST_PANIC.with(|p| *p.borrow_mut() = Some(format!("{msg} @ {loc}")));
            } else {
                default(info);
            }
        }));
    });
}

/// A captured panic of the code under test.
#[derive(Clone, Debug)]
pub struct Panicked {
    /// `message @ file:line`
    pub text: String,
}

impl Panicked {
    /// `file:line` with the /repo prefix stripped (stable signature component)
    pub fn site(&self) -> String {
        let loc = self.text.rsplit(" @ ").next().unwrap_or("");
        loc.trim_start_matches("/repo/").to_string()
    }
}

/// Run library code under `catch_unwind`, recording the panic message and location.
pub fn guarded<T>(f: impl FnOnce() -> T) -> Result<T, Panicked> {
    install_panic_hook();
    IN_MONITORED.with(|c| *c.borrow_mut() += 1);
    let r = catch_unwind(AssertUnwindSafe(f));
    IN_MONITORED.with(|c| *c.borrow_mut() -= 1);
    match r {
        Ok(v) => Ok(v),
        Err(e) => {
            let text = LAST_PANIC
                .with(|p| p.borrow_mut().take())
                .unwrap_or_else(|| panic_payload(&e));
            Err(Panicked { text })
        }
    }
}

pub fn hx(b: impl AsRef<[u8]>) -> String {
    hex::encode(b.as_ref())
}

pub fn unhx(s: &str) -> Vec<u8> {
    hex::decode(s).expect("hex in replay record")
}

/// Length class used by several coverage rules.
pub fn len_class(n: usize) -> String {
    let m = n % 8;
    let b = match n {
        0 => "0",
        1..=7 => "1-7",
        8..=31 => "8-31",
        32..=255 => "32-255",
        256..=4095 => "256-4k",
        4096..=16383 => "4k-16k",
        _ => "16k+",
    };
    format!("{b}m{m}")
}

pub fn bucket(n: u64) -> &'static str {
    match n {
        0 => "0",
        1 => "1",
        2..=3 => "2-3",
        4..=7 => "4-7",
        8..=15 => "8-15",
        16..=63 => "16-63",
        64..=255 => "64-255",
        256..=1023 => "256-1023",
        1024..=4095 => "1k-4k",
        4096..=65535 => "4k-64k",
        _ => "64k+",
    }
}
