//! Transaction / protocol-value generators (DESIGN.md 2.4).
//!
//! `free_*`: any field values inside each field's domain (for C01–C04, C06, C07 and as the
//! mutation base of C02).

use crate::Rng;
use fuel_tx::{
    BlobBody,
    Input,
    Output,
    Receipt,
    ScriptExecutionResult,
    StorageSlot,
    Transaction,
    TxPointer,
    UpgradePurpose,
    UploadBody,
    UtxoId,
    Witness,
    policies::{
        Policies,
        PolicyType,
    },
};
use fuel_types::{
    Address,
    AssetId,
    BlobId,
    Bytes32,
    ContractId,
    Nonce,
    Salt,
    SubAssetId,
};

pub const INPUT_VARIANTS: usize = 7;
pub const OUTPUT_VARIANTS: usize = 5;
pub const TX_KINDS: usize = 6;
pub const RECEIPT_VARIANTS: usize = 13;

pub const POLICY_ORDER: [PolicyType; 6] = [
    PolicyType::Tip,
    PolicyType::WitnessLimit,
    PolicyType::Maturity,
    PolicyType::MaxFee,
    PolicyType::Expiration,
    PolicyType::Owner,
];

pub fn b32(rng: &mut Rng) -> [u8; 32] {
    rng.id32(6)
}
pub fn address(rng: &mut Rng) -> Address {
    Address::new(b32(rng))
}
pub fn asset(rng: &mut Rng) -> AssetId {
    AssetId::new(b32(rng))
}
pub fn contract_id(rng: &mut Rng) -> ContractId {
    ContractId::new(b32(rng))
}
pub fn bytes32(rng: &mut Rng) -> Bytes32 {
    Bytes32::new(b32(rng))
}
pub fn nonce(rng: &mut Rng) -> Nonce {
    Nonce::new(b32(rng))
}

pub fn u16_biased(rng: &mut Rng) -> u16 {
    match rng.below(6) {
        0 => 0,
        1 => 1,
        2 => u16::MAX,
        3 => u16::MAX - 1,
        4 => 255 + rng.below(3) as u16,
        _ => rng.u64() as u16,
    }
}

pub fn u32_biased(rng: &mut Rng) -> u32 {
    match rng.below(6) {
        0 => 0,
        1 => 1,
        2 => u32::MAX,
        3 => u32::MAX - 1,
        4 => 0xffff + rng.below(3) as u32,
        _ => rng.u64() as u32,
    }
}

pub fn utxo_id(rng: &mut Rng) -> UtxoId {
    UtxoId::new(bytes32(rng), u16_biased(rng))
}

pub fn tx_pointer(rng: &mut Rng) -> TxPointer {
    TxPointer::new(u32_biased(rng).into(), u16_biased(rng))
}

pub fn storage_slot(rng: &mut Rng) -> StorageSlot {
    StorageSlot::new(bytes32(rng), bytes32(rng))
}

pub fn witness(rng: &mut Rng, cap: usize) -> Witness {
    rng.bytes_len_class(cap).into()
}

/// all 64 masks; values from the boundary set; maturity/expiration are block heights
pub fn policies(rng: &mut Rng, mask: u32) -> Policies {
    let mut p = Policies::new();
    for (i, t) in POLICY_ORDER.iter().enumerate() {
        if mask & (1 << i) != 0 {
            let v = match t {
                PolicyType::Maturity | PolicyType::Expiration => u32_biased(rng) as u64,
                _ => rng.word(),
            };
            p.set(*t, Some(v));
        }
    }
    p
}

/// non-empty byte vector of a length class
fn nonempty(rng: &mut Rng, cap: usize) -> Vec<u8> {
    if cap == 0 {
        return vec![rng.u8()];
    }
    loop {
        let v = rng.bytes_len_class(cap);
        if !v.is_empty() {
            return v;
        }
    }
}

/// Input of the given variant (0..7). `allow_empty_distinguishing`: whether the byte vector
/// that distinguishes the variant on the wire (predicate / message data) may be empty.
pub fn input(rng: &mut Rng, variant: usize, cap: usize, allow_empty_distinguishing: bool) -> Input {
    let dist = |rng: &mut Rng| {
        if allow_empty_distinguishing && rng.chance(1, 6) {
            vec![]
        } else {
            nonempty(rng, cap)
        }
    };
    match variant % INPUT_VARIANTS {
        0 => Input::coin_signed(utxo_id(rng), address(rng), rng.word(), asset(rng), tx_pointer(rng), u16_biased(rng)),
        1 => {
            let p = dist(rng);
            Input::coin_predicate(utxo_id(rng), address(rng), rng.word(), asset(rng), tx_pointer(rng), rng.word(), p, rng.bytes_len_class(cap))
        }
        2 => Input::contract(utxo_id(rng), bytes32(rng), bytes32(rng), tx_pointer(rng), contract_id(rng)),
        3 => Input::message_coin_signed(address(rng), address(rng), rng.word(), nonce(rng), u16_biased(rng)),
        4 => {
            let p = dist(rng);
            Input::message_coin_predicate(address(rng), address(rng), rng.word(), nonce(rng), rng.word(), p, rng.bytes_len_class(cap))
        }
        5 => {
            let d = dist(rng);
            Input::message_data_signed(address(rng), address(rng), rng.word(), nonce(rng), u16_biased(rng), d)
        }
        _ => {
            let d = dist(rng);
            let p = dist(rng);
            Input::message_data_predicate(address(rng), address(rng), rng.word(), nonce(rng), rng.word(), d, p, rng.bytes_len_class(cap))
        }
    }
}

pub fn input_variant_name(i: &Input) -> &'static str {
    match i {
        Input::CoinSigned(_) => "CoinSigned",
        Input::CoinPredicate(_) => "CoinPredicate",
        Input::Contract(_) => "Contract",
        Input::MessageCoinSigned(_) => "MessageCoinSigned",
        Input::MessageCoinPredicate(_) => "MessageCoinPredicate",
        Input::MessageDataSigned(_) => "MessageDataSigned",
        Input::MessageDataPredicate(_) => "MessageDataPredicate",
    }
}

pub fn output(rng: &mut Rng, variant: usize) -> Output {
    match variant % OUTPUT_VARIANTS {
        0 => Output::coin(address(rng), rng.word(), asset(rng)),
        1 => Output::contract(u16_biased(rng), bytes32(rng), bytes32(rng)),
        2 => Output::change(address(rng), rng.word(), asset(rng)),
        3 => Output::variable(address(rng), rng.word(), asset(rng)),
        _ => Output::contract_created(contract_id(rng), bytes32(rng)),
    }
}

pub fn output_variant_name(o: &Output) -> &'static str {
    match o {
        Output::Coin { .. } => "Coin",
        Output::Contract(_) => "Contract",
        Output::Change { .. } => "Change",
        Output::Variable { .. } => "Variable",
        Output::ContractCreated { .. } => "ContractCreated",
    }
}

pub fn receipt(rng: &mut Rng, variant: usize, cap: usize) -> Receipt {
    let id = contract_id(rng);
    match variant % RECEIPT_VARIANTS {
        0 => Receipt::call(id, contract_id(rng), rng.word(), asset(rng), rng.word(), rng.word(), rng.word(), rng.word(), rng.word()),
        1 => Receipt::ret(id, rng.word(), rng.word(), rng.word()),
        2 => Receipt::return_data(id, rng.word(), rng.word(), rng.word(), rng.bytes_len_class(cap)),
        3 => {
            let reason = fuel_asm::PanicReason::from((rng.below(60)) as u8);
            let pi = fuel_asm::PanicInstruction::error(reason, rng.u32());
            let r = Receipt::panic(id, pi, rng.word(), rng.word());
            if rng.bool() { r.with_panic_contract_id(Some(contract_id(rng))) } else { r }
        }
        4 => Receipt::revert(id, rng.word(), rng.word(), rng.word()),
        5 => Receipt::log(id, rng.word(), rng.word(), rng.word(), rng.word(), rng.word(), rng.word()),
        6 => Receipt::log_data(id, rng.word(), rng.word(), rng.word(), rng.word(), rng.word(), rng.bytes_len_class(cap)),
        7 => Receipt::transfer(id, contract_id(rng), rng.word(), asset(rng), rng.word(), rng.word()),
        8 => Receipt::transfer_out(id, address(rng), rng.word(), asset(rng), rng.word(), rng.word()),
        9 => {
            let res = match rng.below(4) {
                0 => ScriptExecutionResult::Success,
                1 => ScriptExecutionResult::Revert,
                2 => ScriptExecutionResult::Panic,
                // incl. the codes that the word conversion maps to Success / Revert / Panic:
                // as a value `GenericFailure(0)` is not `Success` and must come back as itself
                _ => ScriptExecutionResult::GenericFailure(match rng.below(6) {
                    0 => 0,
                    1 => 1,
                    2 => 2,
                    3 => 3,
                    _ => rng.word(),
                }),
            };
            Receipt::script_result(res, rng.word())
        }
        10 => Receipt::message_out(&bytes32(rng), rng.word(), address(rng), address(rng), rng.word(), rng.bytes_len_class(cap)),
        11 => Receipt::mint(SubAssetId::new(b32(rng)), id, rng.word(), rng.word(), rng.word()),
        _ => Receipt::burn(SubAssetId::new(b32(rng)), id, rng.word(), rng.word(), rng.word()),
    }
}

pub fn receipt_variant_name(r: &Receipt) -> &'static str {
    match r {
        Receipt::Call { .. } => "Call",
        Receipt::Return { .. } => "Return",
        Receipt::ReturnData { .. } => "ReturnData",
        Receipt::Panic { .. } => "Panic",
        Receipt::Revert { .. } => "Revert",
        Receipt::Log { .. } => "Log",
        Receipt::LogData { .. } => "LogData",
        Receipt::Transfer { .. } => "Transfer",
        Receipt::TransferOut { .. } => "TransferOut",
        Receipt::ScriptResult { .. } => "ScriptResult",
        Receipt::MessageOut { .. } => "MessageOut",
        Receipt::Mint { .. } => "Mint",
        Receipt::Burn { .. } => "Burn",
    }
}

pub fn upgrade_purpose(rng: &mut Rng, variant: usize) -> UpgradePurpose {
    if variant % 2 == 0 {
        UpgradePurpose::ConsensusParameters { witness_index: u16_biased(rng), checksum: bytes32(rng) }
    } else {
        UpgradePurpose::StateTransition { root: bytes32(rng) }
    }
}

#[derive(Clone, Copy, Debug)]
pub struct FreeOpts {
    /// cap for byte-vector lengths
    pub cap: usize,
    pub max_inputs: usize,
    pub max_outputs: usize,
    pub max_witnesses: usize,
    pub allow_empty_distinguishing: bool,
}

impl Default for FreeOpts {
    fn default() -> Self {
        Self { cap: 600, max_inputs: 4, max_outputs: 4, max_witnesses: 4, allow_empty_distinguishing: false }
    }
}

pub fn tx_kind_name(t: &Transaction) -> &'static str {
    match t {
        Transaction::Script(_) => "Script",
        Transaction::Create(_) => "Create",
        Transaction::Mint(_) => "Mint",
        Transaction::Upgrade(_) => "Upgrade",
        Transaction::Upload(_) => "Upload",
        Transaction::Blob(_) => "Blob",
    }
}

/// Free-form transaction of the given kind (0..6): any values inside the field domains.
pub fn free_tx(rng: &mut Rng, kind: usize, o: &FreeOpts) -> Transaction {
    let mask = rng.below(64) as u32;
    let pol = policies(rng, mask);
    let ni = rng.small(o.max_inputs as u64) as usize;
    let no = rng.small(o.max_outputs as u64) as usize;
    let nw = rng.small(o.max_witnesses as u64) as usize;
    let iv = rng.usize_below(INPUT_VARIANTS);
    let inputs: Vec<Input> = (0..ni)
        .map(|k| {
            let v = if rng.bool() { iv + k } else { rng.usize_below(INPUT_VARIANTS) };
            input(rng, v, o.cap, o.allow_empty_distinguishing)
        })
        .collect();
    let ov = rng.usize_below(OUTPUT_VARIANTS);
    let outputs: Vec<Output> = (0..no)
        .map(|k| {
            let v = if rng.bool() { ov + k } else { rng.usize_below(OUTPUT_VARIANTS) };
            output(rng, v)
        })
        .collect();
    let witnesses: Vec<Witness> = (0..nw).map(|_| witness(rng, o.cap)).collect();
    match kind % TX_KINDS {
        0 => {
            let mut s = Transaction::script(rng.word(), rng.bytes_len_class(o.cap), rng.bytes_len_class(o.cap), pol, inputs, outputs, witnesses);
            // the constructor leaves the receipts root zero; free-form values carry any root
            if rng.below(4) != 0 {
                *fuel_tx::field::ReceiptsRoot::receipts_root_mut(&mut s) = bytes32(rng);
            }
            s.into()
        }
        1 => {
            let ns = rng.small(4) as usize;
            let slots = (0..ns).map(|_| storage_slot(rng)).collect();
            Transaction::create(u16_biased(rng), pol, Salt::new(b32(rng)), slots, inputs, outputs, witnesses).into()
        }
        2 => {
            let ic = match input(rng, 2, 0, false) {
                Input::Contract(c) => c,
                _ => unreachable!(),
            };
            let oc = match output(rng, 1) {
                Output::Contract(c) => c,
                _ => unreachable!(),
            };
            Transaction::mint(tx_pointer(rng), ic, oc, rng.word(), asset(rng), rng.word()).into()
        }
        3 => {
            let v = rng.usize_below(2);
            Transaction::upgrade(upgrade_purpose(rng, v), pol, inputs, outputs, witnesses).into()
        }
        4 => {
            let np = rng.small(5) as usize;
            let body = UploadBody {
                root: bytes32(rng),
                witness_index: u16_biased(rng),
                subsection_index: u16_biased(rng),
                subsections_number: u16_biased(rng),
                proof_set: (0..np).map(|_| bytes32(rng)).collect(),
            };
            Transaction::upload(body, pol, inputs, outputs, witnesses).into()
        }
        _ => {
            let body = BlobBody { id: BlobId::new(b32(rng)), witness_index: u16_biased(rng) };
            Transaction::blob(body, pol, inputs, outputs, witnesses).into()
        }
    }
}

/// Does the value contain an input whose distinguishing byte vector is empty (a shape the
/// wire format cannot express — known finding F6)?
pub fn inexpressible_input(i: &Input) -> Option<String> {
    let e = |o: Option<&[u8]>| o.map(|b| b.is_empty()).unwrap_or(false);
    match i {
        Input::CoinPredicate(_) if e(i.input_predicate()) => Some("Input::CoinPredicate|predicate_len=0".into()),
        Input::MessageCoinPredicate(_) if e(i.input_predicate()) => Some("Input::MessageCoinPredicate|predicate_len=0".into()),
        Input::MessageDataSigned(_) if e(i.input_data()) => Some("Input::MessageDataSigned|data_len=0".into()),
        Input::MessageDataPredicate(_) => {
            let (d, p) = (e(i.input_data()), e(i.input_predicate()));
            match (d, p) {
                (true, true) => Some("Input::MessageDataPredicate|data_len=0,predicate_len=0".into()),
                (true, false) => Some("Input::MessageDataPredicate|data_len=0".into()),
                (false, true) => Some("Input::MessageDataPredicate|predicate_len=0".into()),
                _ => None,
            }
        }
        _ => None,
    }
}
