//! Recording / fault-injecting storage wrapper around `MemoryStorage` (DESIGN 2.3.3).
//!
//! Implements every storage trait the interpreter requires by delegation, appends one
//! `Access` per call to a log the step bus attributes to the executing instruction, and
//! can fail the n-th access with an injected error (C29).

use fuel_storage::{
    Mappable,
    StorageInspect,
    StorageMutate,
    StorageRead,
    StorageReadError,
    StorageSize,
    StorageWrite,
};
use fuel_tx::{
    ConsensusParameters,
    Contract,
};
use fuel_types::{
    BlockHeight,
    Bytes32,
    ContractId,
    Word,
};
use fuel_vm::{
    error::{
        InterpreterError,
        RuntimeError,
    },
    storage::{
        BlobData,
        ContractsAssets,
        ContractsAssetsStorage,
        ContractsRawCode,
        ContractsState,
        InterpreterStorage,
        MemoryStorage,
        UploadedBytecodes,
    },
};
use std::{
    borrow::Cow,
    cell::{
        Cell,
        RefCell,
    },
};

#[derive(Clone, Debug, PartialEq, Eq)]
pub enum RecError {
    /// error injected by the harness at the n-th storage access
    Injected(u64),
}

impl From<RecError> for RuntimeError<RecError> {
    fn from(e: RecError) -> Self {
        RuntimeError::Storage(e)
    }
}

impl From<RecError> for InterpreterError<RecError> {
    fn from(e: RecError) -> Self {
        InterpreterError::Storage(e)
    }
}

#[derive(Clone, Debug, PartialEq, Eq)]
pub struct Access {
    pub table: &'static str,
    pub op: &'static str,
    /// contract the key belongs to (None for blob / uploaded bytecode / chain queries)
    pub contract: Option<ContractId>,
    pub write: bool,
}

pub struct RecStorage {
    pub inner: MemoryStorage,
    pub log: RefCell<Vec<Access>>,
    pub counter: Cell<u64>,
    /// fail the access with this ordinal (1-based), if set
    pub fail_at: Cell<Option<u64>>,
    pub recording: Cell<bool>,
}

impl RecStorage {
    pub fn new(inner: MemoryStorage) -> Self {
        Self {
            inner,
            log: RefCell::new(vec![]),
            counter: Cell::new(0),
            fail_at: Cell::new(None),
            recording: Cell::new(true),
        }
    }

    pub fn take_log(&self) -> Vec<Access> {
        std::mem::take(&mut *self.log.borrow_mut())
    }

    fn rec(
        &self,
        table: &'static str,
        op: &'static str,
        contract: Option<ContractId>,
        write: bool,
    ) -> Result<(), RecError> {
        let n = self.counter.get() + 1;
        self.counter.set(n);
        if self.recording.get() {
            self.log.borrow_mut().push(Access { table, op, contract, write });
        }
        if self.fail_at.get() == Some(n) {
            return Err(RecError::Injected(n));
        }
        Ok(())
    }
}

fn ok<T>(r: Result<T, core::convert::Infallible>) -> Result<T, RecError> {
    match r {
        Ok(v) => Ok(v),
        Err(e) => match e {},
    }
}

/// how to obtain the owning contract from a table key
trait KeyContract<T: Mappable> {
    fn contract_of(key: &T::Key) -> Option<ContractId>;
}

struct K;
impl KeyContract<ContractsRawCode> for K {
    fn contract_of(key: &ContractId) -> Option<ContractId> {
        Some(*key)
    }
}
impl KeyContract<ContractsState> for K {
    fn contract_of(key: &<ContractsState as Mappable>::Key) -> Option<ContractId> {
        Some(*key.contract_id())
    }
}
impl KeyContract<ContractsAssets> for K {
    fn contract_of(key: &<ContractsAssets as Mappable>::Key) -> Option<ContractId> {
        Some(*key.contract_id())
    }
}
impl KeyContract<BlobData> for K {
    fn contract_of(_: &<BlobData as Mappable>::Key) -> Option<ContractId> {
        None
    }
}
impl KeyContract<UploadedBytecodes> for K {
    fn contract_of(_: &Bytes32) -> Option<ContractId> {
        None
    }
}

macro_rules! impl_inspect_mutate {
    ($table:ty, $name:literal) => {
        impl StorageInspect<$table> for RecStorage {
            type Error = RecError;
            fn get(
                &self,
                key: &<$table as Mappable>::Key,
            ) -> Result<Option<Cow<'_, <$table as Mappable>::OwnedValue>>, RecError> {
                self.rec($name, "get", <K as KeyContract<$table>>::contract_of(key), false)?;
                ok(StorageInspect::<$table>::get(&self.inner, key))
            }
            fn contains_key(&self, key: &<$table as Mappable>::Key) -> Result<bool, RecError> {
                self.rec($name, "contains_key", <K as KeyContract<$table>>::contract_of(key), false)?;
                ok(StorageInspect::<$table>::contains_key(&self.inner, key))
            }
        }
        impl StorageMutate<$table> for RecStorage {
            fn insert(
                &mut self,
                key: &<$table as Mappable>::Key,
                value: &<$table as Mappable>::Value,
            ) -> Result<(), RecError> {
                self.rec($name, "insert", <K as KeyContract<$table>>::contract_of(key), true)?;
                ok(StorageMutate::<$table>::insert(&mut self.inner, key, value))
            }
            fn replace(
                &mut self,
                key: &<$table as Mappable>::Key,
                value: &<$table as Mappable>::Value,
            ) -> Result<Option<<$table as Mappable>::OwnedValue>, RecError> {
                self.rec($name, "replace", <K as KeyContract<$table>>::contract_of(key), true)?;
                ok(StorageMutate::<$table>::replace(&mut self.inner, key, value))
            }
            fn remove(&mut self, key: &<$table as Mappable>::Key) -> Result<(), RecError> {
                self.rec($name, "remove", <K as KeyContract<$table>>::contract_of(key), true)?;
                ok(StorageMutate::<$table>::remove(&mut self.inner, key))
            }
            fn take(
                &mut self,
                key: &<$table as Mappable>::Key,
            ) -> Result<Option<<$table as Mappable>::OwnedValue>, RecError> {
                self.rec($name, "take", <K as KeyContract<$table>>::contract_of(key), true)?;
                ok(StorageMutate::<$table>::take(&mut self.inner, key))
            }
        }
    };
}

macro_rules! impl_bytes {
    ($table:ty, $name:literal) => {
        impl StorageSize<$table> for RecStorage {
            fn size_of_value(
                &self,
                key: &<$table as Mappable>::Key,
            ) -> Result<Option<usize>, RecError> {
                self.rec($name, "size_of_value", <K as KeyContract<$table>>::contract_of(key), false)?;
                ok(StorageSize::<$table>::size_of_value(&self.inner, key))
            }
        }
        impl StorageRead<$table> for RecStorage {
            fn read_exact(
                &self,
                key: &<$table as Mappable>::Key,
                offset: usize,
                buf: &mut [u8],
            ) -> Result<Result<usize, StorageReadError>, RecError> {
                self.rec($name, "read_exact", <K as KeyContract<$table>>::contract_of(key), false)?;
                ok(StorageRead::<$table>::read_exact(&self.inner, key, offset, buf))
            }
            fn read_zerofill(
                &self,
                key: &<$table as Mappable>::Key,
                offset: usize,
                buf: &mut [u8],
            ) -> Result<Result<usize, StorageReadError>, RecError> {
                self.rec($name, "read_zerofill", <K as KeyContract<$table>>::contract_of(key), false)?;
                ok(StorageRead::<$table>::read_zerofill(&self.inner, key, offset, buf))
            }
            fn read_alloc(
                &self,
                key: &<$table as Mappable>::Key,
            ) -> Result<Option<Vec<u8>>, RecError> {
                self.rec($name, "read_alloc", <K as KeyContract<$table>>::contract_of(key), false)?;
                ok(StorageRead::<$table>::read_alloc(&self.inner, key))
            }
        }
        impl StorageWrite<$table> for RecStorage {
            fn write_bytes(
                &mut self,
                key: &<$table as Mappable>::Key,
                buf: &[u8],
            ) -> Result<(), RecError> {
                self.rec($name, "write_bytes", <K as KeyContract<$table>>::contract_of(key), true)?;
                ok(StorageWrite::<$table>::write_bytes(&mut self.inner, key, buf))
            }
            fn replace_bytes(
                &mut self,
                key: &<$table as Mappable>::Key,
                buf: &[u8],
            ) -> Result<Option<Vec<u8>>, RecError> {
                self.rec($name, "replace_bytes", <K as KeyContract<$table>>::contract_of(key), true)?;
                ok(StorageWrite::<$table>::replace_bytes(&mut self.inner, key, buf))
            }
            fn take_bytes(
                &mut self,
                key: &<$table as Mappable>::Key,
            ) -> Result<Option<Vec<u8>>, RecError> {
                self.rec($name, "take_bytes", <K as KeyContract<$table>>::contract_of(key), true)?;
                ok(StorageWrite::<$table>::take_bytes(&mut self.inner, key))
            }
        }
    };
}

impl_inspect_mutate!(ContractsRawCode, "ContractsRawCode");
impl_inspect_mutate!(ContractsState, "ContractsState");
impl_inspect_mutate!(ContractsAssets, "ContractsAssets");
impl_inspect_mutate!(BlobData, "BlobData");
impl_inspect_mutate!(UploadedBytecodes, "UploadedBytecodes");
impl_bytes!(ContractsRawCode, "ContractsRawCode");
impl_bytes!(ContractsState, "ContractsState");
impl_bytes!(BlobData, "BlobData");

impl ContractsAssetsStorage for RecStorage {}

impl InterpreterStorage for RecStorage {
    type DataError = RecError;

    fn block_height(&self) -> Result<BlockHeight, RecError> {
        self.rec("chain", "block_height", None, false)?;
        ok(self.inner.block_height())
    }
    fn consensus_parameters_version(&self) -> Result<u32, RecError> {
        self.rec("chain", "consensus_parameters_version", None, false)?;
        ok(self.inner.consensus_parameters_version())
    }
    fn state_transition_version(&self) -> Result<u32, RecError> {
        self.rec("chain", "state_transition_version", None, false)?;
        ok(self.inner.state_transition_version())
    }
    fn timestamp(&self, height: BlockHeight) -> Result<Word, RecError> {
        self.rec("chain", "timestamp", None, false)?;
        ok(self.inner.timestamp(height))
    }
    fn block_hash(&self, block_height: BlockHeight) -> Result<Bytes32, RecError> {
        self.rec("chain", "block_hash", None, false)?;
        ok(self.inner.block_hash(block_height))
    }
    fn coinbase(&self) -> Result<ContractId, RecError> {
        self.rec("chain", "coinbase", None, false)?;
        ok(self.inner.coinbase())
    }
    fn set_consensus_parameters(
        &mut self,
        version: u32,
        consensus_parameters: &ConsensusParameters,
    ) -> Result<Option<ConsensusParameters>, RecError> {
        self.rec("versions", "set_consensus_parameters", None, true)?;
        ok(self.inner.set_consensus_parameters(version, consensus_parameters))
    }
    fn set_state_transition_bytecode(
        &mut self,
        version: u32,
        hash: &Bytes32,
    ) -> Result<Option<Bytes32>, RecError> {
        self.rec("versions", "set_state_transition_bytecode", None, true)?;
        ok(self.inner.set_state_transition_bytecode(version, hash))
    }
    fn contract_state_remove_range(
        &mut self,
        contract: &ContractId,
        start_key: &Bytes32,
        range: usize,
    ) -> Result<(), RecError> {
        self.rec("ContractsState", "remove_range", Some(*contract), true)?;
        ok(self.inner.contract_state_remove_range(contract, start_key, range))
    }
}

impl fuel_vm::storage::predicate::PredicateStorageRequirements for RecStorage {
    fn storage_error_to_string(error: RecError) -> String {
        format!("{error:?}")
    }
}

#[allow(dead_code)]
fn _assert_contract_is_vec(c: &Contract) -> &[u8] {
    c.as_ref()
}
