//! Step bus (DESIGN 2.3.1): drives an execution with the debugger's single-stepping and
//! hands `(pre, instruction at pre.$pc, post, outcome)` to step monitors. Histories are
//! recorded at the boundary (before/after each single-stepped instruction), never inside
//! the implementation.

use crate::{
    Report,
    guarded,
    recstore::{
        Access,
        RecStorage,
    },
    world::{
        Outcome,
        Vm,
        World,
        new_vm,
        outcome_of,
    },
};
use fuel_asm::{
    Instruction,
    RegId,
};
use fuel_tx::{
    Receipt,
    Script,
};
use fuel_types::{
    AssetId,
    ContractId,
    Word,
};
use fuel_vm::{
    checked_transaction::Ready,
    state::ProgramState,
};

pub const MEM_SIZE: u64 = 1 << 26;

/// Observable VM state at an instruction boundary.
#[derive(Clone, Default)]
pub struct Snap {
    pub regs: Vec<Word>,
    /// copy of the raw stack buffer (extent = len) if memory capture is on
    pub stack: Vec<u8>,
    /// copy of the raw heap buffer (covers [MEM_SIZE - len, MEM_SIZE))
    pub heap: Vec<u8>,
    pub mem_captured: bool,
    pub receipts_len: usize,
    /// hook H2
    pub depth: usize,
    pub balances: Vec<(AssetId, Word, usize)>,
    pub input_contracts: Vec<ContractId>,
}

impl Snap {
    pub fn r(&self, id: RegId) -> Word {
        self.regs[id.to_u8() as usize]
    }
    pub fn pc(&self) -> Word {
        self.r(RegId::PC)
    }
    pub fn is(&self) -> Word {
        self.r(RegId::IS)
    }
    pub fn sp(&self) -> Word {
        self.r(RegId::SP)
    }
    pub fn ssp(&self) -> Word {
        self.r(RegId::SSP)
    }
    pub fn hp(&self) -> Word {
        self.r(RegId::HP)
    }
    pub fn fp(&self) -> Word {
        self.r(RegId::FP)
    }
    pub fn ggas(&self) -> Word {
        self.r(RegId::GGAS)
    }
    pub fn cgas(&self) -> Word {
        self.r(RegId::CGAS)
    }
    pub fn stack_extent(&self) -> u64 {
        self.stack.len() as u64
    }
    /// accessible per the flat model: below the stack extent or at/above `$hp`
    pub fn accessible(&self, addr: u64, len: u64) -> bool {
        let Some(end) = addr.checked_add(len) else {
            return false;
        };
        end <= MEM_SIZE && (end <= self.stack_extent() || addr >= self.hp())
    }
    /// byte at an address (only meaningful for accessible addresses, with capture on)
    pub fn byte(&self, addr: u64) -> Option<u8> {
        if addr < self.stack.len() as u64 {
            return Some(self.stack[addr as usize]);
        }
        let off = MEM_SIZE - self.heap.len() as u64;
        if addr >= off && addr < MEM_SIZE {
            return Some(self.heap[(addr - off) as usize]);
        }
        None
    }
    pub fn bytes(&self, addr: u64, len: u64) -> Option<Vec<u8>> {
        if !self.accessible(addr, len) {
            return None;
        }
        (addr..addr + len).map(|a| self.byte(a)).collect()
    }
    pub fn word_at(&self, addr: u64) -> Option<u64> {
        let b = self.bytes(addr, 8)?;
        Some(u64::from_be_bytes(b.try_into().ok()?))
    }
}

pub fn snap(vm: &Vm, capture_mem: bool, into: &mut Snap) {
    into.regs.clear();
    into.regs.extend_from_slice(vm.registers());
    into.mem_captured = capture_mem;
    into.stack.clear();
    into.heap.clear();
    if capture_mem {
        into.stack.extend_from_slice(vm.memory().stack_raw());
        into.heap.extend_from_slice(vm.memory().heap_raw());
    } else {
        // keep the extent information without the contents
        into.stack.resize(vm.memory().stack_raw().len(), 0);
    }
    into.receipts_len = vm.receipts().len();
    into.depth = vm.verif_call_depth();
    into.balances = vm.verif_balances();
    into.input_contracts = vm.verif_input_contracts();
}

#[derive(Clone, Debug, PartialEq)]
pub enum StepEnd {
    /// the VM is suspended before the next instruction
    Continue,
    /// the program ended; `post` includes the VM's epilogue (script result receipt,
    /// output finalisation, receipts root)
    Finished(ProgramState),
    /// the interpreter returned an error other than a program panic
    Error(String),
}

pub struct Step<'a> {
    pub index: u64,
    pub pre: &'a Snap,
    pub post: &'a Snap,
    /// instruction word at `pre.$pc` (None if not readable)
    pub word: Option<u32>,
    pub instr: Option<Instruction>,
    pub end: &'a StepEnd,
    pub new_receipts: &'a [Receipt],
    pub accesses: &'a [Access],
    /// transaction as currently held by the VM (after the step)
    pub tx: &'a Script,
    /// the VM's storage after the step (read `storage.inner` directly: going through the
    /// recording wrapper would add entries to the next step's access log)
    pub storage: &'a RecStorage,
    /// location `(contract, $pc - $is)` reported by the debug event that suspended the VM
    /// after this step (None when the program ended)
    pub event: Option<(ContractId, Word)>,
}

impl Step<'_> {
    /// With single-stepping the debugger suppresses the event when the location equals
    /// the previous one, so an instruction that jumps to itself executes twice between
    /// two events. Such steps are ambiguous for one-instruction oracles.
    pub fn ambiguous_self_jump(&self) -> bool {
        matches!(self.end, StepEnd::Continue) && self.post.pc() == self.pre.pc() && self.post.is() == self.pre.is()
    }
    /// `(reason, $pc in the receipt, raw instruction in the receipt)` of the panic receipt
    /// appended in this step. NOTE: the VM fetches the next instruction before raising
    /// the debug event, so a terminal step can carry a panic that belongs to the *fetch
    /// of the following instruction* (receipt pc != pre.pc: this instruction completed).
    pub fn panic_info(&self) -> Option<(fuel_asm::PanicReason, Word, u32)> {
        self.new_receipts.iter().find_map(|r| match r {
            Receipt::Panic { reason, pc, .. } => Some((*reason.reason(), *pc, *reason.instruction())),
            _ => None,
        })
    }
    /// panic raised by the instruction of this step itself
    pub fn own_panic(&self) -> Option<fuel_asm::PanicReason> {
        match self.panic_info() {
            Some((r, pc, _)) if pc == self.pre.pc() => Some(r),
            _ => None,
        }
    }
    /// the instruction of this step completed (possibly followed by a failing fetch)
    pub fn completed(&self) -> bool {
        self.own_panic().is_none() && !matches!(self.end, StepEnd::Error(_))
    }
    /// panic reason if this step ended the program with a panic receipt
    pub fn panic_reason(&self) -> Option<fuel_asm::PanicReason> {
        self.new_receipts.iter().find_map(|r| match r {
            Receipt::Panic { reason, .. } => Some(*reason.reason()),
            _ => None,
        })
    }
    pub fn opcode_name(&self) -> String {
        match &self.instr {
            Some(i) => format!("{:?}", i.opcode()),
            None => "INVALID".into(),
        }
    }
}

pub trait StepMonitor {
    fn on_start(&mut self, _w: &World, _first: &Snap, _tx: &Script, _rep: &mut Report) {}
    fn on_step(&mut self, w: &World, s: &Step, rep: &mut Report);
    fn on_finish(&mut self, _w: &World, _out: &Outcome, _vm: &Vm, _rep: &mut Report) {}
}

#[derive(Clone, Debug)]
pub struct BusOpts {
    pub capture_mem: bool,
    pub max_steps: u64,
}

impl Default for BusOpts {
    fn default() -> Self {
        Self { capture_mem: true, max_steps: 50_000 }
    }
}

pub struct BusResult {
    pub outcome: Outcome,
    pub vm: Vm,
    pub steps: u64,
    /// the run was cut at `max_steps` (monitors saw a prefix; no final comparison)
    pub truncated: bool,
    pub host_panic: Option<String>,
}

/// Execute `ready` on a fresh VM with single-stepping, feeding every step to `mons`.
pub fn run_stepped(
    w: &World,
    ready: Ready<Script>,
    opts: &BusOpts,
    mons: &mut [&mut dyn StepMonitor],
    rep: &mut Report,
) -> BusResult {
    let mut vm = new_vm(w);
    run_stepped_on(w, &mut vm, ready, opts, mons, rep).with_vm(vm)
}

pub struct BusPartial {
    pub outcome: Outcome,
    pub steps: u64,
    pub truncated: bool,
    pub host_panic: Option<String>,
}

impl BusPartial {
    fn with_vm(self, vm: Vm) -> BusResult {
        BusResult { outcome: self.outcome, vm, steps: self.steps, truncated: self.truncated, host_panic: self.host_panic }
    }
}

pub fn run_stepped_on(
    w: &World,
    vm: &mut Vm,
    ready: Ready<Script>,
    opts: &BusOpts,
    mons: &mut [&mut dyn StepMonitor],
    rep: &mut Report,
) -> BusPartial {
    vm.set_single_stepping(true);
    {
        let st: &RecStorage = (*vm).as_ref();
        st.take_log();
    }
    let mut host_panic = None;
    let mut cur: Result<ProgramState, String> = match guarded(|| vm.transact(ready).map(|s| *s.state())) {
        Ok(Ok(s)) => Ok(s),
        Ok(Err(e)) => Err(format!("{e:?}")),
        Err(p) => {
            host_panic = Some(p.text.clone());
            Err(format!("HOST PANIC: {}", p.text))
        }
    };
    let mut a = Snap::default();
    let mut b = Snap::default();
    let mut have_pre = false;
    let mut steps = 0u64;
    let mut truncated = false;
    // accesses made during initialisation (before the first instruction) are attributed
    // to step "init" by the monitors that care: expose through a pseudo step? they are
    // kept in `init_accesses` and handed to on_start via the report counters only.
    let init_accesses = {
        let st: &RecStorage = (*vm).as_ref();
        st.take_log()
    };
    rep.count_n("bus_init_storage_accesses", init_accesses.len() as u64);
    let mut pre_word: Option<u32> = None;
    loop {
        let suspended = matches!(cur, Ok(ProgramState::RunProgram(_)));
        // snapshot the current boundary into `b`
        snap(vm, opts.capture_mem, &mut b);
        let accesses = {
            let st: &RecStorage = (*vm).as_ref();
            st.take_log()
        };
        if have_pre {
            let end = if suspended {
                StepEnd::Continue
            } else {
                match &cur {
                    Ok(s) => StepEnd::Finished(*s),
                    Err(e) => StepEnd::Error(e.clone()),
                }
            };
            let new_receipts = &vm.receipts()[a.receipts_len.min(vm.receipts().len())..];
            let instr = pre_word.and_then(|wd| Instruction::try_from(wd.to_be_bytes()).ok());
            let storage_view: &RecStorage = (*vm).as_ref();
            let step = Step {
                index: steps,
                pre: &a,
                post: &b,
                word: pre_word,
                instr,
                end: &end,
                new_receipts,
                accesses: &accesses,
                tx: vm.transaction(),
                storage: storage_view,
                event: match &cur {
                    Ok(ProgramState::RunProgram(fuel_vm::state::DebugEval::Breakpoint(b))) => Some((*b.contract(), b.pc())),
                    _ => None,
                },
            };
            for m in mons.iter_mut() {
                m.on_step(w, &step, rep);
            }
            steps += 1;
        } else if suspended {
            for m in mons.iter_mut() {
                m.on_start(w, &b, vm.transaction(), rep);
            }
        }
        if !suspended {
            break;
        }
        if steps >= opts.max_steps {
            truncated = true;
            break;
        }
        // fetch the instruction about to execute
        let pc = b.pc();
        pre_word = vm
            .memory()
            .read(pc, 4usize)
            .ok()
            .map(|s| u32::from_be_bytes([s[0], s[1], s[2], s[3]]));
        std::mem::swap(&mut a, &mut b);
        have_pre = true;
        cur = match guarded(|| vm.resume()) {
            Ok(Ok(s)) => Ok(s),
            Ok(Err(e)) => Err(format!("{e:?}")),
            Err(p) => {
                host_panic = Some(p.text.clone());
                Err(format!("HOST PANIC: {}", p.text))
            }
        };
    }
    vm.set_single_stepping(false);
    let outcome = outcome_of(w, vm, cur);
    if !truncated {
        for m in mons.iter_mut() {
            m.on_finish(w, &outcome, vm, rep);
        }
    }
    rep.count_n("bus_steps", steps);
    BusPartial { outcome, steps, truncated, host_panic }
}
