//! Abort-safe execution: a monitor's workload split into shards, each run in a child
//! process of the monitor (the same binary with `--opt shards=N`). A child writes the case
//! it is about to run to a progress file (`crate::progress(part, idx)`); a child killed by
//! a signal (allocation failure abort, stack overflow) is observed by the parent, which
//! reports through `on_abort` and restarts the shard after the fatal case. First built
//! into C29; this is the reusable form (C02).
use crate::{
    Cfg,
    Report,
    par,
};
use serde_json::Value;

/// What killed a child.
#[derive(Clone, Debug)]
pub struct Abort {
    /// "allocation failure" | "stack overflow" | "signal Some(n)"
    pub kind: String,
    /// bytes of the failed allocation request, if that is what killed the child
    pub alloc_bytes: Option<u64>,
    pub part: u64,
    pub idx: u64,
    /// index of the shard (0-based) that died
    pub shard: u64,
    /// the seed the child ran with
    pub seed: u64,
    /// interesting stderr lines
    pub tail: String,
    pub status: String,
}

/// `Some((shards, from_part, from_idx))` in a child (also installs the progress file).
pub fn child_mode(cfg: &Cfg) -> Option<(u64, u64, u64)> {
    let sh = cfg.opt("shards")?;
    let shards: u64 = sh.parse().unwrap_or(1);
    let fp: u64 = cfg.opt("from-part").and_then(|s| s.parse().ok()).unwrap_or(0);
    let fi: u64 = cfg.opt("from-idx").and_then(|s| s.parse().ok()).unwrap_or(0);
    if let Some(p) = cfg.opt("progress-file") {
        crate::set_progress_file(p);
    }
    Some((shards, fp, fi))
}

pub fn child_seed(seed: u64, shard: u64, salt: u64) -> u64 {
    seed.wrapping_mul(1_000_003).wrapping_add(shard).wrapping_add(salt << 40)
}

/// Parent side. `on_abort` turns an abort into a violation (or a note) on the report and
/// says where the shard continues: `Some((part, idx))`, or `None` to give the shard up.
pub fn run_sharded(cfg: &Cfg, prop: &str, salt: u64, on_abort: impl Fn(&Abort, &mut Report) -> Option<(u64, u64)> + Sync) -> Report {
    let shards = cfg.threads.max(1) as u64;
    let exe = std::env::current_exe().expect("current exe");
    par(shards as usize, |w| {
        let mut rep = Report::new();
        let seed = child_seed(cfg.seed, w as u64, salt);
        let (mut fp, mut fi) = (0u64, 0u64);
        let mut restarts = 0;
        loop {
            let out = format!("{}/{prop}.child.{}.{}.json", cfg.work_dir, cfg.seed, w);
            let prog = format!("{}/{prop}.progress.{}.{}", cfg.work_dir, cfg.seed, w);
            let _ = std::fs::remove_file(&out);
            let _ = std::fs::remove_file(&prog);
            let r = std::process::Command::new(&exe)
                .args([prop, "--tier", if cfg.thorough { "thorough" } else { "quick" }, "--seed", &seed.to_string(), "--threads", "1", "--scale", &cfg.scale.to_string(), "--out", &out, "--work", &cfg.work_dir])
                .args(["--opt", &format!("shards={shards}"), "--opt", &format!("shard={w}"), "--opt", &format!("from-part={fp}"), "--opt", &format!("from-idx={fi}"), "--opt", &format!("progress-file={prog}")])
                .stdout(std::process::Stdio::null())
                .stderr(std::process::Stdio::piped())
                .output();
            let Ok(o) = r else {
                rep.inconclusive = Some("could not spawn a child worker".into());
                break;
            };
            if o.status.success() {
                match std::fs::read_to_string(&out).ok().and_then(|s| serde_json::from_str::<Value>(&s).ok()) {
                    Some(j) => rep.merge(Report::from_json(&j)),
                    None => rep.inconclusive = Some("a child worker left no report".into()),
                }
                let _ = std::fs::remove_file(&out);
                let _ = std::fs::remove_file(&prog);
                break;
            }
            use std::os::unix::process::ExitStatusExt;
            let sig = o.status.signal();
            let stderr = String::from_utf8_lossy(&o.stderr);
            let tail: String = stderr
                .lines()
                .filter(|l| l.contains("memory allocation") || l.contains("overflow") || l.contains("panicked") || l.contains("fatal"))
                .take(3)
                .map(|l| l.to_string())
                .collect::<Vec<_>>()
                .join(" | ");
            let cur = std::fs::read(&prog).ok().filter(|b| b.len() == 16).map(|b| (u64::from_le_bytes(b[..8].try_into().unwrap()), u64::from_le_bytes(b[8..].try_into().unwrap())));
            let Some((part, idx)) = cur else {
                rep.inconclusive = Some(format!("child worker died (status {:?}) before its first case: {tail}", o.status));
                break;
            };
            let alloc_bytes = stderr.split("memory allocation of ").nth(1).and_then(|s| s.split(' ').next()).and_then(|n| n.parse::<u64>().ok());
            let kind: String = if alloc_bytes.is_some() {
                "allocation failure".into()
            } else if stderr.contains("stack overflow") {
                "stack overflow".into()
            } else {
                format!("signal {sig:?}")
            };
            let a = Abort { kind, alloc_bytes, part, idx, shard: w as u64, seed, tail, status: format!("{:?}", o.status) };
            rep.count("child_worker_aborts");
            let next = on_abort(&a, &mut rep);
            restarts += 1;
            match next {
                Some((p, i)) if restarts <= 12 => {
                    fp = p;
                    fi = i;
                }
                Some(_) => {
                    rep.note("a shard was abandoned after 12 aborts");
                    break;
                }
                None => break,
            }
        }
        rep
    })
}
