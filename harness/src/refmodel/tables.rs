//! Chain tables changed by the four table-changing transaction kinds (Create, Blob,
//! Upload, Upgrade), written from the statement of C35 and the protocol identifiers
//! (fuel-specs `identifiers/contract-id.md`, `identifiers/blob-id.md`, `tx-format`):
//!
//! * contracts: contract id → code, plus contract state (contract id, slot key) → value;
//!   a contract id can be created only once;
//! * blobs: blob id → data; a blob id can be created only once;
//! * uploads: bytecode root → `Uncompleted{bytes so far, next index}` | `Completed(bytes)`;
//!   subsections are accepted only in consecutive order starting at 0, the entry becomes
//!   `Completed` exactly when the last subsection arrives and then holds the concatenation;
//! * consensus-parameter versions: u32 → value, state-transition versions: u32 → root;
//!   an upgrade installs its value under `current + 1` and fails when that version is
//!   taken or, for state transitions, when the root is not `Completed` in `uploads`;
//! * the two current versions are plain values changed only by block progress (never by a
//!   transaction).
//!
//! A rejected transaction leaves every table unchanged (each rule below returns before
//! touching `self`). The model is generic over the consensus-parameter value `P` so that it
//! does not depend on the crates under test.

use super::{
    H,
    rfc6962,
    sha256,
    smt,
};
use std::collections::BTreeMap;

#[derive(Clone, Debug, PartialEq, Eq)]
pub enum UploadEntry {
    Uncompleted { bytes: Vec<u8>, next: u16 },
    Completed(Vec<u8>),
}

/// Why a transaction is rejected (the *reason class*, not the implementation's error).
#[derive(Clone, Copy, Debug, PartialEq, Eq)]
pub enum Reject {
    ContractExists,
    BlobExists,
    /// subsection index is not the next expected one (duplicate, skipped, or first not 0)
    NotConsecutive,
    /// the root is already completely uploaded
    AlreadyCompleted,
    /// index ≥ subsections_number (cannot pass a valid Merkle proof; kept for totality)
    IndexBeyondCount,
    VersionTaken,
    /// state-transition root absent from `uploads` or not completed
    RootNotCompleted,
}

/// Table situation of a transaction *before* it is applied (coverage class component).
pub type Situation = &'static str;

#[derive(Clone, Debug, PartialEq, Eq)]
pub struct Tables<P> {
    pub contracts: BTreeMap<H, Vec<u8>>,
    pub contract_state: BTreeMap<(H, H), Vec<u8>>,
    pub blobs: BTreeMap<H, Vec<u8>>,
    pub uploads: BTreeMap<H, UploadEntry>,
    pub consensus_parameters_versions: BTreeMap<u32, P>,
    pub state_transition_versions: BTreeMap<u32, H>,
    pub consensus_parameters_version: u32,
    pub state_transition_version: u32,
}

pub const TABLE_NAMES: [&str; 7] = [
    "contracts",
    "contract_state",
    "blobs",
    "uploads",
    "consensus_parameters_versions",
    "state_transition_versions",
    "current_versions",
];

const LEAF: usize = 16 * 1024;

/// Code root: binary Merkle tree over 16 KiB leaves, the last leaf zero-padded to a
/// multiple of 8 bytes.
pub fn code_root(code: &[u8]) -> H {
    let leaves: Vec<Vec<u8>> = code
        .chunks(LEAF)
        .map(|c| {
            let mut v = c.to_vec();
            while v.len() % 8 != 0 {
                v.push(0);
            }
            v
        })
        .collect();
    rfc6962::mth(&leaves)
}

/// Initial state root: sparse Merkle tree over sha256(slot key) → slot value.
pub fn state_root(slots: &[(H, H)]) -> H {
    let map: BTreeMap<H, Vec<u8>> = slots.iter().map(|(k, v)| (sha256(&[k]), v.to_vec())).collect();
    smt::root(&map)
}

/// sha256("FUEL" ‖ salt ‖ code root ‖ state root)
pub fn contract_id(salt: &H, code: &[u8], slots: &[(H, H)]) -> H {
    sha256(&[&[0x46, 0x55, 0x45, 0x4C], salt, &code_root(code), &state_root(slots)])
}

pub fn blob_id(data: &[u8]) -> H {
    sha256(&[data])
}

/// Root over the subsections of an uploaded bytecode (RFC 6962 tree, one leaf per part).
pub fn bytecode_root<T: AsRef<[u8]>>(parts: &[T]) -> H {
    rfc6962::mth(parts)
}

impl<P: Clone + PartialEq> Tables<P> {
    pub fn new(consensus_parameters_version: u32, state_transition_version: u32) -> Self {
        Tables {
            contracts: BTreeMap::new(),
            contract_state: BTreeMap::new(),
            blobs: BTreeMap::new(),
            uploads: BTreeMap::new(),
            consensus_parameters_versions: BTreeMap::new(),
            state_transition_versions: BTreeMap::new(),
            consensus_parameters_version,
            state_transition_version,
        }
    }

    /// Names of the tables in which `self` and `other` differ.
    pub fn diff(&self, other: &Self) -> Vec<&'static str> {
        let mut d = vec![];
        if self.contracts != other.contracts {
            d.push(TABLE_NAMES[0]);
        }
        if self.contract_state != other.contract_state {
            d.push(TABLE_NAMES[1]);
        }
        if self.blobs != other.blobs {
            d.push(TABLE_NAMES[2]);
        }
        if self.uploads != other.uploads {
            d.push(TABLE_NAMES[3]);
        }
        if self.consensus_parameters_versions != other.consensus_parameters_versions {
            d.push(TABLE_NAMES[4]);
        }
        if self.state_transition_versions != other.state_transition_versions {
            d.push(TABLE_NAMES[5]);
        }
        if self.consensus_parameters_version != other.consensus_parameters_version
            || self.state_transition_version != other.state_transition_version
        {
            d.push(TABLE_NAMES[6]);
        }
        d
    }

    // ---- Create ------------------------------------------------------------------

    pub fn create_situation(&self, salt: &H, code: &[u8], slots: &[(H, H)]) -> Situation {
        let id = contract_id(salt, code, slots);
        if self.contracts.contains_key(&id) {
            "duplicate"
        } else if self.contracts.values().any(|c| c == code) {
            "fresh id, code deployed before under another id"
        } else {
            "fresh"
        }
    }

    /// Deploy `code` with `slots` (distinct keys) under the id derived from them.
    pub fn create(&mut self, salt: &H, code: &[u8], slots: &[(H, H)]) -> Result<H, Reject> {
        let id = contract_id(salt, code, slots);
        if self.contracts.contains_key(&id) {
            return Err(Reject::ContractExists);
        }
        self.contracts.insert(id, code.to_vec());
        for (k, v) in slots {
            self.contract_state.insert((id, *k), v.to_vec());
        }
        Ok(id)
    }

    // ---- Blob --------------------------------------------------------------------

    pub fn blob_situation(&self, data: &[u8]) -> Situation {
        if self.blobs.contains_key(&blob_id(data)) { "duplicate" } else { "fresh" }
    }

    pub fn blob(&mut self, data: &[u8]) -> Result<H, Reject> {
        let id = blob_id(data);
        if self.blobs.contains_key(&id) {
            return Err(Reject::BlobExists);
        }
        self.blobs.insert(id, data.to_vec());
        Ok(id)
    }

    // ---- Upload ------------------------------------------------------------------

    pub fn upload_situation(&self, root: &H, index: u16, number: u16) -> Situation {
        let last = index as u32 + 1 == number as u32;
        match self.uploads.get(root) {
            Some(UploadEntry::Completed(_)) => "after-complete",
            None if index == 0 && last => "fresh root, only subsection (completing)",
            None if index == 0 => "fresh root, first subsection",
            None => "fresh root, out-of-order (first is not 0)",
            Some(UploadEntry::Uncompleted { next, .. }) => {
                if index == *next && last {
                    "in order, completing"
                } else if index == *next {
                    "in order"
                } else if index < *next {
                    "duplicate (already uploaded index)"
                } else {
                    "out-of-order (skips ahead)"
                }
            }
        }
    }

    /// One subsection of the bytecode with Merkle root `root` split into `number` parts.
    /// (Whether `part` really belongs to `root` at `index` is the validity layer's
    /// business: the Merkle proof is verified before the transaction gets here.)
    pub fn upload(&mut self, root: &H, index: u16, number: u16, part: &[u8]) -> Result<(), Reject> {
        let (mut bytes, next) = match self.uploads.get(root) {
            Some(UploadEntry::Completed(_)) => return Err(Reject::AlreadyCompleted),
            Some(UploadEntry::Uncompleted { bytes, next }) => (bytes.clone(), *next),
            None => (vec![], 0u16),
        };
        if index != next {
            return Err(Reject::NotConsecutive);
        }
        if index >= number {
            return Err(Reject::IndexBeyondCount);
        }
        bytes.extend_from_slice(part);
        let entry = if index as u32 + 1 == number as u32 {
            UploadEntry::Completed(bytes)
        } else {
            UploadEntry::Uncompleted { bytes, next: index + 1 }
        };
        self.uploads.insert(*root, entry);
        Ok(())
    }

    // ---- Upgrade -----------------------------------------------------------------

    pub fn upgrade_consensus_parameters_situation(&self, value: &P) -> Situation {
        match self.consensus_parameters_version.checked_add(1) {
            None => "version overflow",
            Some(v) => match self.consensus_parameters_versions.get(&v) {
                None => "fresh version",
                Some(old) if old == value => "version-taken (same value)",
                Some(_) => "version-taken (other value)",
            },
        }
    }

    /// Install `value` under current + 1. `None` = current is u32::MAX (not specified).
    pub fn upgrade_consensus_parameters(&mut self, value: &P) -> Option<Result<u32, Reject>> {
        let v = self.consensus_parameters_version.checked_add(1)?;
        if self.consensus_parameters_versions.contains_key(&v) {
            return Some(Err(Reject::VersionTaken));
        }
        self.consensus_parameters_versions.insert(v, value.clone());
        Some(Ok(v))
    }

    pub fn upgrade_state_transition_situation(&self, root: &H) -> Situation {
        let Some(v) = self.state_transition_version.checked_add(1) else {
            return "version overflow";
        };
        let taken = self.state_transition_versions.get(&v);
        match (self.uploads.get(root), taken) {
            (None, None) => "root-unknown",
            (None, Some(_)) => "root-unknown and version-taken",
            (Some(UploadEntry::Uncompleted { .. }), None) => "root-incomplete",
            (Some(UploadEntry::Uncompleted { .. }), Some(_)) => "root-incomplete and version-taken",
            (Some(UploadEntry::Completed(_)), None) => "fresh version, root completed",
            (Some(UploadEntry::Completed(_)), Some(old)) if old == root => "version-taken (same root)",
            (Some(UploadEntry::Completed(_)), Some(_)) => "version-taken (other root)",
        }
    }

    /// Install `root` under current + 1. `None` = current is u32::MAX (not specified).
    pub fn upgrade_state_transition(&mut self, root: &H) -> Option<Result<u32, Reject>> {
        let v = self.state_transition_version.checked_add(1)?;
        if !matches!(self.uploads.get(root), Some(UploadEntry::Completed(_))) {
            return Some(Err(Reject::RootNotCompleted));
        }
        if self.state_transition_versions.contains_key(&v) {
            return Some(Err(Reject::VersionTaken));
        }
        self.state_transition_versions.insert(v, *root);
        Some(Ok(v))
    }

    // ---- block progress ----------------------------------------------------------

    pub fn set_consensus_parameters_version(&mut self, v: u32) {
        self.consensus_parameters_version = v;
    }

    pub fn set_state_transition_version(&mut self, v: u32) {
        self.state_transition_version = v;
    }
}

#[cfg(test)]
mod tests {
    use super::*;

    #[test]
    fn upload_rules() {
        let mut t: Tables<u8> = Tables::new(0, 0);
        let r = [1u8; 32];
        assert_eq!(t.upload(&r, 1, 3, b"x"), Err(Reject::NotConsecutive));
        assert!(t.uploads.is_empty());
        assert_eq!(t.upload(&r, 0, 3, b"a"), Ok(()));
        assert_eq!(t.upload(&r, 0, 3, b"a"), Err(Reject::NotConsecutive));
        assert_eq!(t.upload(&r, 2, 3, b"c"), Err(Reject::NotConsecutive));
        assert_eq!(t.upload(&r, 1, 3, b"b"), Ok(()));
        assert_eq!(t.upgrade_state_transition(&r), Some(Err(Reject::RootNotCompleted)));
        assert_eq!(t.upload(&r, 2, 3, b"c"), Ok(()));
        assert_eq!(t.uploads[&r], UploadEntry::Completed(b"abc".to_vec()));
        assert_eq!(t.upload(&r, 2, 3, b"c"), Err(Reject::AlreadyCompleted));
        assert_eq!(t.upgrade_state_transition(&r), Some(Ok(1)));
        assert_eq!(t.upgrade_state_transition(&r), Some(Err(Reject::VersionTaken)));
        t.set_state_transition_version(1);
        assert_eq!(t.upgrade_state_transition(&r), Some(Ok(2)));
        assert_eq!(t.upgrade_consensus_parameters(&7), Some(Ok(1)));
        assert_eq!(t.upgrade_consensus_parameters(&8), Some(Err(Reject::VersionTaken)));
        assert_eq!(t.consensus_parameters_versions[&1], 7);
    }
}
