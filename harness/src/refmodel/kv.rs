//! Contract storage as a plain key-value map (C33 / C26 reference).
//!
//! Written from the instruction-set definition, not from the interpreter:
//!
//! * the state of one contract is a partial map `key (256-bit) -> value (byte string)`;
//!   a key is either *absent* or *present* with a value of any length, including zero;
//! * "slot ranges" of the sequential instructions are the keys
//!   `start, start+1, .., start+n-1` in 256-bit big-endian arithmetic; a range that
//!   would pass `2^256 - 1` does not exist (`TooManySlots`); ranges of length 0 and 1
//!   exist for every start key;
//! * the legacy (32-byte) instructions address the value as 4 words (SRW: any word
//!   that lies inside the value) or as exactly 32 bytes (SRWQ); the dynamic
//!   instructions address byte slices `[offset, offset+len)` of the value; a slice that
//!   is not inside the value is `OutOfBounds`;
//! * a value longer than the configured maximum can never be stored (`OutOfBounds`).
//!
//! Every operation that can fail returns the *set* of applicable errors (a range access
//! may be wrong for two reasons; which one an implementation reports first is not
//! specified). Failed operations leave the map unchanged.

use std::collections::{
    BTreeMap,
    BTreeSet,
};

pub type Key = [u8; 32];

#[derive(Clone, Copy, Debug, PartialEq, Eq, PartialOrd, Ord)]
pub enum KvErr {
    /// slice / word / 32-byte view not inside the stored value, or value too long
    OutOfBounds,
    /// the key range passes 2^256 - 1
    TooManySlots,
}

pub type Errs = BTreeSet<KvErr>;

fn one(e: KvErr) -> Errs {
    let mut s = Errs::new();
    s.insert(e);
    s
}

/// `k + i` as 256-bit big-endian numbers; None when the sum needs more than 256 bits.
pub fn key_add(k: &Key, i: u64) -> Option<Key> {
    let mut out = *k;
    let mut carry = i as u128;
    for b in (0..32).rev() {
        if carry == 0 {
            break;
        }
        let s = out[b] as u128 + (carry & 0xff);
        out[b] = s as u8;
        carry = (carry >> 8) + (s >> 8);
    }
    if carry != 0 { None } else { Some(out) }
}

/// Last key of the range `[start, start+n)`: `Ok(None)` for the empty range.
pub fn range_last(start: &Key, n: u64) -> Result<Option<Key>, KvErr> {
    if n == 0 {
        return Ok(None);
    }
    key_add(start, n - 1).map(Some).ok_or(KvErr::TooManySlots)
}

/// Number of keys of `[start, start+n)` that exist (all of them unless the range
/// passes the top of the key space).
fn existing_part(start: &Key, n: u64) -> (u64, Key) {
    match key_add(start, n.saturating_sub(1)) {
        Some(last) => (n, last),
        None => {
            // keys start ..= 2^256-1: count = 2^256 - start, which is < n <= 2^64
            let top = [0xffu8; 32];
            let mut cnt: u64 = 0;
            // top - start fits 64 bits here; compute from the low 8 bytes with borrow
            let mut borrow = 0i16;
            let mut diff = [0u8; 32];
            for b in (0..32).rev() {
                let d = top[b] as i16 - start[b] as i16 - borrow;
                if d < 0 {
                    diff[b] = (d + 256) as u8;
                    borrow = 1;
                } else {
                    diff[b] = d as u8;
                    borrow = 0;
                }
            }
            for b in 24..32 {
                cnt = (cnt << 8) | diff[b] as u64;
            }
            (cnt.saturating_add(1), top)
        }
    }
}

/// `k` is one of the existing keys of `[start, start+n)`.
pub fn range_contains(start: &Key, n: u64, k: &Key) -> bool {
    if n == 0 {
        return false;
    }
    let (_, last) = existing_part(start, n);
    k >= start && k <= &last
}

#[derive(Clone, Debug, PartialEq, Eq)]
pub struct RangeRead {
    /// 32 bytes per slot, absent slots read as zeroes
    pub data: Vec<u8>,
    pub all_set: bool,
}

/// State of one contract plus the slots touched since `begin_tx` (hot/cold classes).
#[derive(Clone, Debug, Default, PartialEq, Eq)]
pub struct Kv {
    pub slots: BTreeMap<Key, Vec<u8>>,
    pub touched: BTreeSet<Key>,
}

/// bound on the per-operation bookkeeping of touched keys (huge clear ranges)
const TOUCH_CAP: u64 = 64;

impl Kv {
    pub fn begin_tx(&mut self) {
        self.touched.clear();
    }

    pub fn get(&self, k: &Key) -> Option<&Vec<u8>> {
        self.slots.get(k)
    }

    pub fn len_of(&self, k: &Key) -> Option<u64> {
        self.slots.get(k).map(|v| v.len() as u64)
    }

    pub fn was_touched(&self, k: &Key) -> bool {
        self.touched.contains(k)
    }

    pub fn touch(&mut self, k: &Key) {
        self.touched.insert(*k);
    }

    pub fn touch_range(&mut self, start: &Key, n: u64) {
        for i in 0..n.min(TOUCH_CAP) {
            match key_add(start, i) {
                Some(k) => {
                    self.touched.insert(k);
                }
                None => break,
            }
        }
    }

    /// SRW: word `word_off` of the value. `Ok(None)` = absent.
    pub fn read_word(&self, k: &Key, word_off: u64) -> Result<Option<u64>, Errs> {
        let Some(v) = self.slots.get(k) else {
            return Ok(None);
        };
        let start = word_off as u128 * 8;
        let end = start + 8;
        if end > v.len() as u128 {
            return Err(one(KvErr::OutOfBounds));
        }
        let mut b = [0u8; 8];
        b.copy_from_slice(&v[start as usize..end as usize]);
        Ok(Some(u64::from_be_bytes(b)))
    }

    /// SRWQ: `n` consecutive 32-byte slots.
    pub fn read_slots(&self, start: &Key, n: u64) -> Result<RangeRead, Errs> {
        let mut errs = Errs::new();
        if range_last(start, n).is_err() {
            errs.insert(KvErr::TooManySlots);
        }
        if n > 0 {
            let (_, last) = existing_part(start, n);
            if self.slots.range(*start..=last).any(|(_, v)| v.len() != 32) {
                errs.insert(KvErr::OutOfBounds);
            }
        }
        if !errs.is_empty() {
            return Err(errs);
        }
        let mut data = Vec::with_capacity(32 * n as usize);
        let mut all_set = true;
        for i in 0..n {
            let k = key_add(start, i).expect("range checked");
            match self.slots.get(&k) {
                Some(v) => data.extend_from_slice(v),
                None => {
                    all_set = false;
                    data.extend_from_slice(&[0u8; 32]);
                }
            }
        }
        Ok(RangeRead { data, all_set })
    }

    /// SWW: the value becomes the word followed by 24 zero bytes. Returns "the slot was
    /// absent before".
    pub fn write_word(&mut self, k: &Key, word: u64) -> bool {
        let mut v = vec![0u8; 32];
        v[..8].copy_from_slice(&word.to_be_bytes());
        self.slots.insert(*k, v).is_none()
    }

    /// SWWQ: `data.len() == 32 * n`. Returns the number of slots that were absent.
    pub fn write_slots(&mut self, start: &Key, n: u64, data: &[u8]) -> Result<u64, Errs> {
        if range_last(start, n).is_err() {
            return Err(one(KvErr::TooManySlots));
        }
        assert_eq!(data.len() as u64, 32 * n);
        let mut created = 0;
        for i in 0..n {
            let k = key_add(start, i).expect("range checked");
            let chunk = &data[32 * i as usize..32 * (i as usize + 1)];
            if self.slots.insert(k, chunk.to_vec()).is_none() {
                created += 1;
            }
        }
        Ok(created)
    }

    /// error set of SWWQ without needing the data
    pub fn write_slots_errs(&self, start: &Key, n: u64) -> Errs {
        match range_last(start, n) {
            Ok(_) => Errs::new(),
            Err(e) => one(e),
        }
    }

    /// SCWQ / SCLR: remove `n` consecutive keys. Returns "all of them were present".
    pub fn clear(&mut self, start: &Key, n: u64) -> Result<bool, Errs> {
        let last = match range_last(start, n) {
            Ok(Some(l)) => l,
            Ok(None) => return Ok(true),
            Err(e) => return Err(one(e)),
        };
        let keys: Vec<Key> = self.slots.range(*start..=last).map(|(k, _)| *k).collect();
        let all = keys.len() as u64 == n;
        for k in keys {
            self.slots.remove(&k);
        }
        Ok(all)
    }

    pub fn clear_errs(&self, start: &Key, n: u64) -> Errs {
        match range_last(start, n) {
            Ok(_) => Errs::new(),
            Err(e) => one(e),
        }
    }

    /// SRDD / SRDI: `Ok(None)` = absent (no data is transferred).
    pub fn read_dyn(&self, k: &Key, offset: u64, len: u64) -> Result<Option<Vec<u8>>, Errs> {
        let Some(v) = self.slots.get(k) else {
            return Ok(None);
        };
        let end = offset as u128 + len as u128;
        if end > v.len() as u128 {
            return Err(one(KvErr::OutOfBounds));
        }
        Ok(Some(v[offset as usize..end as usize].to_vec()))
    }

    pub fn write_dyn_errs(&self, len: u64, max_len: u64) -> Errs {
        if len > max_len { one(KvErr::OutOfBounds) } else { Errs::new() }
    }

    /// SWRD / SWRI: full overwrite with a value of any length up to `max_len`.
    pub fn write_dyn(&mut self, k: &Key, value: &[u8], max_len: u64) -> Result<(), Errs> {
        let e = self.write_dyn_errs(value.len() as u64, max_len);
        if !e.is_empty() {
            return Err(e);
        }
        self.slots.insert(*k, value.to_vec());
        Ok(())
    }

    /// effective offset and resulting length of SUPD / SUPI, or the error set
    pub fn update_plan(&self, k: &Key, offset: u64, len: u64, max_len: u64) -> Result<(u64, u64), Errs> {
        let cur = self.len_of(k).unwrap_or(0);
        let off = if offset == u64::MAX { cur } else { offset };
        if off > cur {
            return Err(one(KvErr::OutOfBounds));
        }
        let end = off as u128 + len as u128;
        if end > max_len as u128 {
            return Err(one(KvErr::OutOfBounds));
        }
        Ok((off, (end as u64).max(cur)))
    }

    /// SUPD / SUPI: overwrite `[offset, offset+len)` of the value (an absent slot counts
    /// as an empty value), extending it when the slice ends after the current end;
    /// `offset == u64::MAX` appends.
    pub fn update(&mut self, k: &Key, offset: u64, data: &[u8], max_len: u64) -> Result<(), Errs> {
        let (off, new_len) = self.update_plan(k, offset, data.len() as u64, max_len)?;
        let v = self.slots.entry(*k).or_default();
        if (v.len() as u64) < new_len {
            v.resize(new_len as usize, 0);
        }
        v[off as usize..off as usize + data.len()].copy_from_slice(data);
        Ok(())
    }
}

#[cfg(test)]
mod tests {
    use super::*;

    #[test]
    fn key_arithmetic() {
        let mut k = [0u8; 32];
        k[31] = 0xff;
        let r = key_add(&k, 1).unwrap();
        assert_eq!((r[30], r[31]), (1, 0));
        assert_eq!(key_add(&[0xff; 32], 1), None);
        assert_eq!(key_add(&[0xff; 32], 0), Some([0xff; 32]));
        let mut fd = [0xff; 32];
        fd[31] = 0xfd;
        assert_eq!(range_last(&fd, 3), Ok(Some([0xff; 32])));
        assert_eq!(range_last(&fd, 4), Err(KvErr::TooManySlots));
        assert_eq!(existing_part(&fd, 10).0, 3);
        assert_eq!(key_add(&[0u8; 32], u64::MAX).unwrap()[24..], [0xff; 8]);
    }
}
