//! Flat zero-initialised 64 MiB byte array with two regions (C23/C24 reference).
//!
//! accessible(start, len) ⇔ start + len ≤ 2^26 ∧ (end ≤ stack_extent ∨ start ≥ hp).
//! Contents are kept sparsely (4 KiB pages) so that a reset is cheap; bytes outside the
//! accessible regions are *defined* to be zero: shrinking a region (reset, heap
//! overtaking the stack) zeroes what is dropped, so that anything that becomes accessible
//! again later must read as zero.

use std::collections::HashMap;

pub const MEM_SIZE: u64 = 1 << 26;
const PAGE: usize = 4096;

#[derive(Clone, Debug, PartialEq, Eq)]
pub enum Access {
    Ok,
    /// start + len > 2^26 (or does not fit an address)
    Overflow,
    /// inside the 64 MiB but touching bytes of neither region
    Uninit,
}

#[derive(Clone)]
pub struct RefMem {
    pages: HashMap<usize, Box<[u8; PAGE]>>,
    pub stack_extent: u64,
    pub hp: u64,
}

impl Default for RefMem {
    fn default() -> Self {
        Self::new()
    }
}

impl RefMem {
    pub fn new() -> Self {
        Self {
            pages: HashMap::new(),
            stack_extent: 0,
            hp: MEM_SIZE,
        }
    }

    pub fn reset(&mut self) {
        self.pages.clear();
        self.stack_extent = 0;
        self.hp = MEM_SIZE;
    }

    pub fn access(&self, start: u64, len: u64) -> Access {
        let Some(end) = start.checked_add(len) else {
            return Access::Overflow;
        };
        if end > MEM_SIZE {
            return Access::Overflow;
        }
        if end <= self.stack_extent || start >= self.hp {
            Access::Ok
        } else {
            Access::Uninit
        }
    }

    pub fn get(&self, addr: u64) -> u8 {
        let a = addr as usize;
        self.pages.get(&(a / PAGE)).map(|p| p[a % PAGE]).unwrap_or(0)
    }

    pub fn set(&mut self, addr: u64, v: u8) {
        let a = addr as usize;
        if v == 0 && !self.pages.contains_key(&(a / PAGE)) {
            return;
        }
        self.pages
            .entry(a / PAGE)
            .or_insert_with(|| Box::new([0u8; PAGE]))[a % PAGE] = v;
    }

    pub fn read(&self, start: u64, len: u64) -> Vec<u8> {
        (start..start + len).map(|a| self.get(a)).collect()
    }

    pub fn write(&mut self, start: u64, data: &[u8]) {
        for (i, b) in data.iter().enumerate() {
            self.set(start + i as u64, *b);
        }
    }

    fn zero(&mut self, start: u64, end: u64) {
        if start >= end {
            return;
        }
        let (s, e) = (start as usize, end as usize);
        let first = s / PAGE;
        let last = (e - 1) / PAGE;
        for pg in first..=last {
            let lo = (pg * PAGE).max(s);
            let hi = ((pg + 1) * PAGE).min(e);
            if lo == pg * PAGE && hi == (pg + 1) * PAGE {
                self.pages.remove(&pg);
            } else if let Some(p) = self.pages.get_mut(&pg) {
                p[lo % PAGE..(hi - 1) % PAGE + 1].fill(0);
            }
        }
    }

    /// Result of a stack growth request to `new_sp` (the model of `grow_stack`).
    /// Err(true) = beyond memory, Err(false) = would overlap the heap.
    pub fn grow_stack(&mut self, new_sp: u64) -> Result<(), bool> {
        if new_sp > MEM_SIZE {
            return Err(true);
        }
        if new_sp > self.stack_extent {
            if new_sp > self.hp {
                return Err(false);
            }
            self.stack_extent = new_sp;
        }
        Ok(())
    }

    /// Heap growth by `amount` with the stack pointer at `sp`.
    /// Err(true) = overflow, Err(false) = overlap with the stack pointer.
    pub fn grow_heap(&mut self, sp: u64, amount: u64) -> Result<(), bool> {
        if amount > self.hp {
            return Err(true);
        }
        let new_hp = self.hp - amount;
        if new_hp < sp {
            return Err(false);
        }
        // new heap bytes read as zero
        self.zero(new_hp, self.hp);
        self.hp = new_hp;
        if self.stack_extent > new_hp {
            self.stack_extent = new_hp;
        }
        Ok(())
    }

    /// Snapshot of the accessible contents.
    pub fn snapshot(&self) -> RefMem {
        self.clone()
    }

    /// Roll back to `snap` (heap may only shrink, as the API documents).
    pub fn rollback_to(&mut self, snap: &RefMem) {
        *self = snap.clone();
    }

    /// Page-wise bulk read (same result as [`RefMem::read`]).
    pub fn read_vec(&self, start: u64, len: u64) -> Vec<u8> {
        let mut out = vec![0u8; len as usize];
        let (s, e) = (start as usize, (start + len) as usize);
        let mut a = s;
        while a < e {
            let pg = a / PAGE;
            let hi = ((pg + 1) * PAGE).min(e);
            if let Some(p) = self.pages.get(&pg) {
                out[a - s..hi - s].copy_from_slice(&p[a % PAGE..(hi - 1) % PAGE + 1]);
            }
            a = hi;
        }
        out
    }

    /// Page-wise bulk write.
    pub fn write_bulk(&mut self, start: u64, data: &[u8]) {
        let (s, e) = (start as usize, start as usize + data.len());
        let mut a = s;
        while a < e {
            let pg = a / PAGE;
            let hi = ((pg + 1) * PAGE).min(e);
            let chunk = &data[a - s..hi - s];
            if chunk.iter().any(|b| *b != 0) || self.pages.contains_key(&pg) {
                let p = self.pages.entry(pg).or_insert_with(|| Box::new([0u8; PAGE]));
                p[a % PAGE..(hi - 1) % PAGE + 1].copy_from_slice(chunk);
            }
            a = hi;
        }
    }

    /// Address of the first byte at which `bytes` differs from the model contents at
    /// `start..start+bytes.len()`.
    pub fn first_diff(&self, start: u64, bytes: &[u8]) -> Option<u64> {
        let (s, e) = (start as usize, start as usize + bytes.len());
        let mut a = s;
        while a < e {
            let pg = a / PAGE;
            let hi = ((pg + 1) * PAGE).min(e);
            let got = &bytes[a - s..hi - s];
            match self.pages.get(&pg) {
                Some(p) => {
                    let want = &p[a % PAGE..(hi - 1) % PAGE + 1];
                    if got != want {
                        let i = got.iter().zip(want).position(|(x, y)| x != y).unwrap();
                        return Some((a + i) as u64);
                    }
                }
                None => {
                    if let Some(i) = got.iter().position(|x| *x != 0) {
                        return Some((a + i) as u64);
                    }
                }
            }
            a = hi;
        }
        None
    }

    /// Same region bounds and same contents (bytes outside the regions are zero in both
    /// by the model invariant, so comparing all pages compares the accessible contents).
    pub fn same_as(&self, other: &RefMem) -> bool {
        if self.stack_extent != other.stack_extent || self.hp != other.hp {
            return false;
        }
        let zero = |p: &[u8; PAGE]| p.iter().all(|b| *b == 0);
        for (k, p) in &self.pages {
            match other.pages.get(k) {
                Some(q) => {
                    if p != q {
                        return false;
                    }
                }
                None => {
                    if !zero(p) {
                        return false;
                    }
                }
            }
        }
        for (k, q) in &other.pages {
            if !self.pages.contains_key(k) && !zero(q) {
                return false;
            }
        }
        true
    }

    /// number of materialised pages (monitor bookkeeping)
    pub fn pages_len(&self) -> usize {
        self.pages.len()
    }

    /// zero everything outside the accessible regions (model invariant helper)
    pub fn normalise(&mut self) {
        let (se, hp) = (self.stack_extent, self.hp);
        self.zero(se, hp);
    }
}
