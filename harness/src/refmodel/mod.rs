//! Reference models: transcriptions of the protocol definitions, independent of the
//! implementation's helpers (DESIGN.md section 3).

pub mod canon;
pub mod gas;
pub mod kv;
pub mod mem;
pub mod rfc6962;
pub mod smt;
pub mod tables;
pub mod validity;

use sha2::{
    Digest,
    Sha256,
};

pub type H = [u8; 32];

pub fn sha256(parts: &[&[u8]]) -> H {
    let mut h = Sha256::new();
    for p in parts {
        h.update(p);
    }
    h.finalize().into()
}
