//! The canonical transaction format as data: a reference encoder that also records the
//! byte span of every field (layout walker). Written from the protocol's transaction
//! format (words big-endian, 8-byte alignment, length words in the static part, padded
//! payloads in the dynamic part), reading values only through public accessors.

use fuel_tx::{
    Input,
    Output,
    Transaction,
    UpgradePurpose as UpgradePurposeT,
    field::*,
    policies::{
        Policies as PoliciesT,
        PolicyType,
    },
};
use fuel_types::Word;

#[derive(Clone, Debug, Default)]
pub struct Layout {
    /// (field name, offset, length in bytes incl. padding)
    pub spans: Vec<(String, usize, usize)>,
}

impl Layout {
    pub fn get(&self, name: &str) -> Option<(usize, usize)> {
        self.spans.iter().find(|s| s.0 == name).map(|s| (s.1, s.2))
    }
}

pub struct Enc {
    pub out: Vec<u8>,
    pub layout: Layout,
    prefix: String,
}

pub fn pad8(n: usize) -> usize {
    n.div_ceil(8) * 8
}

impl Enc {
    pub fn new() -> Self {
        Self { out: vec![], layout: Layout::default(), prefix: String::new() }
    }
    fn mark(&mut self, name: &str, start: usize) {
        let len = self.out.len() - start;
        self.layout.spans.push((format!("{}{}", self.prefix, name), start, len));
    }
    pub fn word(&mut self, name: &str, w: Word) {
        let s = self.out.len();
        self.out.extend_from_slice(&w.to_be_bytes());
        self.mark(name, s);
    }
    pub fn b32(&mut self, name: &str, b: &[u8]) {
        assert_eq!(b.len(), 32);
        let s = self.out.len();
        self.out.extend_from_slice(b);
        self.mark(name, s);
    }
    /// padded payload
    pub fn bytes(&mut self, name: &str, b: &[u8]) {
        let s = self.out.len();
        self.out.extend_from_slice(b);
        self.out.resize(s + pad8(b.len()), 0);
        self.mark(name, s);
    }
}

impl Default for Enc {
    fn default() -> Self {
        Self::new()
    }
}

fn utxo(e: &mut Enc, name: &str, u: &fuel_tx::UtxoId) {
    let s = e.out.len();
    e.out.extend_from_slice(u.tx_id().as_ref());
    e.out.extend_from_slice(&(u.output_index() as u64).to_be_bytes());
    e.mark(name, s);
}

fn txptr(e: &mut Enc, name: &str, p: &fuel_tx::TxPointer) {
    let s = e.out.len();
    e.out.extend_from_slice(&(u32::from(p.block_height()) as u64).to_be_bytes());
    e.out.extend_from_slice(&(p.tx_index() as u64).to_be_bytes());
    e.mark(name, s);
}

/// Input: static part then dynamic part, each span recorded under `inputs[i].<field>`.
pub fn input(e: &mut Enc, i: &Input) {
    let start = e.out.len();
    match i {
        Input::CoinSigned(_) | Input::CoinPredicate(_) => {
            e.word("repr", 0);
            utxo(e, "utxo_id", i.utxo_id().unwrap());
            e.b32("owner", i.input_owner().unwrap().as_ref());
            e.word("amount", i.amount().unwrap());
            e.b32("asset_id", match i {
                Input::CoinSigned(c) => c.asset_id.as_ref(),
                Input::CoinPredicate(c) => c.asset_id.as_ref(),
                _ => unreachable!(),
            });
            txptr(e, "tx_pointer", i.tx_pointer().unwrap());
            e.word("witness_index", i.witness_index().unwrap_or(0) as u64);
            e.word("predicate_gas_used", i.predicate_gas_used().unwrap_or(0));
            let p = i.input_predicate().unwrap_or(&[]).to_vec();
            let pd = i.input_predicate_data().unwrap_or(&[]).to_vec();
            e.word("predicate_len", p.len() as u64);
            e.word("predicate_data_len", pd.len() as u64);
            e.bytes("predicate", &p);
            e.bytes("predicate_data", &pd);
        }
        Input::Contract(c) => {
            e.word("repr", 1);
            utxo(e, "utxo_id", &c.utxo_id);
            e.b32("balance_root", c.balance_root.as_ref());
            e.b32("state_root", c.state_root.as_ref());
            txptr(e, "tx_pointer", &c.tx_pointer);
            e.b32("contract_id", c.contract_id.as_ref());
        }
        _ => {
            e.word("repr", 2);
            e.b32("sender", i.sender().unwrap().as_ref());
            e.b32("recipient", i.recipient().unwrap().as_ref());
            e.word("amount", i.amount().unwrap());
            e.b32("nonce", i.nonce().unwrap().as_ref());
            e.word("witness_index", i.witness_index().unwrap_or(0) as u64);
            e.word("predicate_gas_used", i.predicate_gas_used().unwrap_or(0));
            let d = i.input_data().unwrap_or(&[]).to_vec();
            let p = i.input_predicate().unwrap_or(&[]).to_vec();
            let pd = i.input_predicate_data().unwrap_or(&[]).to_vec();
            e.word("data_len", d.len() as u64);
            e.word("predicate_len", p.len() as u64);
            e.word("predicate_data_len", pd.len() as u64);
            e.bytes("data", &d);
            e.bytes("predicate", &p);
            e.bytes("predicate_data", &pd);
        }
    }
    let _ = start;
}

pub fn output(e: &mut Enc, o: &Output) {
    match o {
        Output::Coin { to, amount, asset_id } => {
            e.word("repr", 0);
            e.b32("to", to.as_ref());
            e.word("amount", *amount);
            e.b32("asset_id", asset_id.as_ref());
        }
        Output::Contract(c) => {
            e.word("repr", 1);
            e.word("input_index", c.input_index as u64);
            e.b32("balance_root", c.balance_root.as_ref());
            e.b32("state_root", c.state_root.as_ref());
        }
        Output::Change { to, amount, asset_id } => {
            e.word("repr", 2);
            e.b32("to", to.as_ref());
            e.word("amount", *amount);
            e.b32("asset_id", asset_id.as_ref());
        }
        Output::Variable { to, amount, asset_id } => {
            e.word("repr", 3);
            e.b32("to", to.as_ref());
            e.word("amount", *amount);
            e.b32("asset_id", asset_id.as_ref());
        }
        Output::ContractCreated { contract_id, state_root } => {
            e.word("repr", 4);
            e.b32("contract_id", contract_id.as_ref());
            e.b32("state_root", state_root.as_ref());
        }
    }
}

const POLICY_ORDER: [PolicyType; 6] = [
    PolicyType::Tip,
    PolicyType::WitnessLimit,
    PolicyType::Maturity,
    PolicyType::MaxFee,
    PolicyType::Expiration,
    PolicyType::Owner,
];

fn policy_bits(p: &PoliciesT) -> u64 {
    let mut bits = 0u64;
    for (i, t) in POLICY_ORDER.iter().enumerate() {
        if p.is_set(*t) {
            bits |= 1 << i;
        }
    }
    bits
}

fn policy_values(e: &mut Enc, p: &PoliciesT) {
    let s = e.out.len();
    for t in POLICY_ORDER.iter() {
        if let Some(v) = p.get(*t) {
            e.out.extend_from_slice(&v.to_be_bytes());
        }
    }
    e.mark("policies", s);
}

/// the common tail: counts in the static part; policies values, inputs, outputs,
/// witnesses in the dynamic part
struct Common<'a> {
    policies: &'a PoliciesT,
    inputs: &'a [Input],
    outputs: &'a [Output],
    witnesses: &'a [fuel_tx::Witness],
}

fn common_static(e: &mut Enc, c: &Common) {
    e.word("policy_types", policy_bits(c.policies));
    e.word("inputs_count", c.inputs.len() as u64);
    e.word("outputs_count", c.outputs.len() as u64);
    e.word("witnesses_count", c.witnesses.len() as u64);
}

fn common_dynamic(e: &mut Enc, c: &Common) {
    policy_values(e, c.policies);
    let s0 = e.out.len();
    for (i, inp) in c.inputs.iter().enumerate() {
        let s = e.out.len();
        e.prefix = format!("inputs[{i}].");
        input(e, inp);
        e.prefix.clear();
        e.mark(&format!("inputs[{i}]"), s);
    }
    e.mark("inputs", s0);
    let s0 = e.out.len();
    for (i, o) in c.outputs.iter().enumerate() {
        let s = e.out.len();
        e.prefix = format!("outputs[{i}].");
        output(e, o);
        e.prefix.clear();
        e.mark(&format!("outputs[{i}]"), s);
    }
    e.mark("outputs", s0);
    let s0 = e.out.len();
    for (i, w) in c.witnesses.iter().enumerate() {
        let s = e.out.len();
        e.out.extend_from_slice(&(w.as_vec().len() as u64).to_be_bytes());
        let d = e.out.len();
        e.out.extend_from_slice(w.as_vec());
        e.out.resize(d + pad8(w.as_vec().len()), 0);
        e.mark(&format!("witnesses[{i}]"), s);
    }
    e.mark("witnesses", s0);
}

/// Reference canonical encoding of a transaction plus the span of every field.
pub fn encode_tx(tx: &Transaction) -> (Vec<u8>, Layout) {
    let mut e = Enc::new();
    match tx {
        Transaction::Script(t) => {
            let c = Common { policies: t.policies(), inputs: t.inputs(), outputs: t.outputs(), witnesses: t.witnesses() };
            e.word("type", 0);
            e.word("script_gas_limit", *t.script_gas_limit());
            e.b32("receipts_root", t.receipts_root().as_ref());
            e.word("script_len", t.script().len() as u64);
            e.word("script_data_len", t.script_data().len() as u64);
            common_static(&mut e, &c);
            e.bytes("script", t.script());
            e.bytes("script_data", t.script_data());
            common_dynamic(&mut e, &c);
        }
        Transaction::Create(t) => {
            let c = Common { policies: t.policies(), inputs: t.inputs(), outputs: t.outputs(), witnesses: t.witnesses() };
            e.word("type", 1);
            e.word("bytecode_witness_index", *t.bytecode_witness_index() as u64);
            e.b32("salt", t.salt().as_ref());
            e.word("storage_slots_count", t.storage_slots().len() as u64);
            common_static(&mut e, &c);
            let s0 = e.out.len();
            for (i, s) in t.storage_slots().iter().enumerate() {
                let st = e.out.len();
                e.out.extend_from_slice(s.key().as_ref());
                e.out.extend_from_slice(s.value().as_ref());
                e.mark(&format!("storage_slots[{i}]"), st);
            }
            e.mark("storage_slots", s0);
            common_dynamic(&mut e, &c);
        }
        Transaction::Mint(t) => {
            e.word("type", 2);
            txptr(&mut e, "tx_pointer", t.tx_pointer());
            // input contract (no discriminant: it is the bare struct)
            let s = e.out.len();
            let ic = t.input_contract();
            e.prefix = "input_contract.".into();
            utxo(&mut e, "utxo_id", &ic.utxo_id);
            e.b32("balance_root", ic.balance_root.as_ref());
            e.b32("state_root", ic.state_root.as_ref());
            txptr(&mut e, "tx_pointer", &ic.tx_pointer);
            e.b32("contract_id", ic.contract_id.as_ref());
            e.prefix.clear();
            e.mark("input_contract", s);
            let s = e.out.len();
            let oc = t.output_contract();
            e.prefix = "output_contract.".into();
            e.word("input_index", oc.input_index as u64);
            e.b32("balance_root", oc.balance_root.as_ref());
            e.b32("state_root", oc.state_root.as_ref());
            e.prefix.clear();
            e.mark("output_contract", s);
            e.word("mint_amount", *t.mint_amount());
            e.b32("mint_asset_id", t.mint_asset_id().as_ref());
            e.word("gas_price", *t.gas_price());
        }
        Transaction::Upgrade(t) => {
            let c = Common { policies: t.policies(), inputs: t.inputs(), outputs: t.outputs(), witnesses: t.witnesses() };
            e.word("type", 3);
            let s = e.out.len();
            match t.upgrade_purpose() {
                UpgradePurposeT::ConsensusParameters { witness_index, checksum } => {
                    e.word("purpose.repr", 0);
                    e.word("purpose.witness_index", *witness_index as u64);
                    e.b32("purpose.checksum", checksum.as_ref());
                }
                UpgradePurposeT::StateTransition { root } => {
                    e.word("purpose.repr", 1);
                    e.b32("purpose.root", root.as_ref());
                }
            }
            e.mark("upgrade_purpose", s);
            common_static(&mut e, &c);
            common_dynamic(&mut e, &c);
        }
        Transaction::Upload(t) => {
            let c = Common { policies: t.policies(), inputs: t.inputs(), outputs: t.outputs(), witnesses: t.witnesses() };
            e.word("type", 4);
            e.b32("bytecode_root", t.bytecode_root().as_ref());
            e.word("bytecode_witness_index", *t.bytecode_witness_index() as u64);
            e.word("subsection_index", *t.subsection_index() as u64);
            e.word("subsections_number", *t.subsections_number() as u64);
            e.word("proof_set_count", t.proof_set().len() as u64);
            common_static(&mut e, &c);
            let s0 = e.out.len();
            for (i, p) in t.proof_set().iter().enumerate() {
                e.b32(&format!("proof_set[{i}]"), p.as_ref());
            }
            e.mark("proof_set", s0);
            common_dynamic(&mut e, &c);
        }
        Transaction::Blob(t) => {
            let c = Common { policies: t.policies(), inputs: t.inputs(), outputs: t.outputs(), witnesses: t.witnesses() };
            e.word("type", 5);
            e.b32("blob_id", t.blob_id().as_ref());
            e.word("bytecode_witness_index", *t.bytecode_witness_index() as u64);
            common_static(&mut e, &c);
            common_dynamic(&mut e, &c);
        }
    }
    (e.out, e.layout)
}

/// Reference encoding of a single input / output (used by C01 as an observation and by
/// C04 for decode-at-offset).
pub fn encode_input(i: &Input) -> Vec<u8> {
    let mut e = Enc::new();
    input(&mut e, i);
    e.out
}

pub fn encode_output(o: &Output) -> Vec<u8> {
    let mut e = Enc::new();
    output(&mut e, o);
    e.out
}
