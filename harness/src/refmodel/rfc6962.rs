//! RFC 6962 section 2.1: Merkle Tree Hash, audit paths and audit-path verification,
//! written from the recursive definitions.

use super::{
    H,
    sha256,
};

pub fn leaf_hash(d: &[u8]) -> H {
    sha256(&[&[0u8], d])
}

pub fn node_hash(l: &H, r: &H) -> H {
    sha256(&[&[1u8], l, r])
}

/// largest power of two strictly smaller than n (n > 1)
fn split(n: usize) -> usize {
    debug_assert!(n > 1);
    let mut k = 1usize;
    while k * 2 < n {
        k *= 2;
    }
    k
}

/// MTH over already hashed leaves.
pub fn mth_hashed(leaves: &[H]) -> H {
    match leaves.len() {
        0 => sha256(&[]),
        1 => leaves[0],
        n => {
            let k = split(n);
            node_hash(&mth_hashed(&leaves[..k]), &mth_hashed(&leaves[k..]))
        }
    }
}

/// MTH(D[n])
pub fn mth<T: AsRef<[u8]>>(leaves: &[T]) -> H {
    let hashed: Vec<H> = leaves.iter().map(|l| leaf_hash(l.as_ref())).collect();
    mth_hashed(&hashed)
}

/// PATH(m, D[n]) over hashed leaves, ordered from the leaf towards the root.
pub fn path_hashed(m: usize, leaves: &[H]) -> Vec<H> {
    let n = leaves.len();
    assert!(m < n);
    if n == 1 {
        return vec![];
    }
    let k = split(n);
    if m < k {
        let mut p = path_hashed(m, &leaves[..k]);
        p.push(mth_hashed(&leaves[k..]));
        p
    } else {
        let mut p = path_hashed(m - k, &leaves[k..]);
        p.push(mth_hashed(&leaves[..k]));
        p
    }
}

/// Incremental MTH helper: keeps hashed leaves, memoises perfect subtrees.
#[derive(Default, Clone)]
pub struct RefTree {
    pub leaves: Vec<H>,
}

impl RefTree {
    pub fn push(&mut self, d: &[u8]) {
        self.leaves.push(leaf_hash(d));
    }
    pub fn root(&self) -> H {
        mth_hashed(&self.leaves)
    }
    pub fn path(&self, m: usize) -> Vec<H> {
        path_hashed(m, &self.leaves)
    }
}

/// Fast MTH for big leaf counts: bottom-up over perfect subtrees (same function, used
/// where the recursive form would re-hash too much). Checked against `mth_hashed` in
/// the unit test below.
pub fn mth_hashed_fast(leaves: &[H]) -> H {
    fn rec(l: &[H]) -> H {
        let n = l.len();
        if n == 1 {
            return l[0];
        }
        if n.is_power_of_two() {
            let mut cur: Vec<H> = l.to_vec();
            while cur.len() > 1 {
                cur = cur.chunks(2).map(|c| node_hash(&c[0], &c[1])).collect();
            }
            return cur[0];
        }
        let k = split(n);
        node_hash(&rec(&l[..k]), &rec(&l[k..]))
    }
    if leaves.is_empty() {
        return sha256(&[]);
    }
    rec(leaves)
}

/// Length of the audit path for leaf `m` of `n` leaves (None if m >= n).
pub fn path_len(m: u64, n: u64) -> Option<usize> {
    if m >= n {
        return None;
    }
    let (mut m, mut n, mut len) = (m, n, 0usize);
    // iterative descent of the recursive definition
    while n > 1 {
        let mut k = 1u64;
        while k.checked_mul(2).map(|x| x < n).unwrap_or(false) {
            k *= 2;
        }
        len += 1;
        if m < k {
            n = k;
        } else {
            m -= k;
            n -= k;
        }
    }
    Some(len)
}

/// Reference audit-path verifier: recompute the root by descending the recursive
/// definition; accepts iff index < count, the proof has exactly the path length and
/// the recomputation reaches `root`.
pub fn verify(root: &H, data: &[u8], proof: &[H], index: u64, count: u64) -> bool {
    let Some(len) = path_len(index, count) else {
        return false;
    };
    if proof.len() != len {
        return false;
    }
    // collect the left/right decisions from the root down, then fold from the leaf up
    let (mut m, mut n) = (index, count);
    let mut sides = Vec::with_capacity(len); // true: sibling is on the right
    while n > 1 {
        let mut k = 1u64;
        while k.checked_mul(2).map(|x| x < n).unwrap_or(false) {
            k *= 2;
        }
        if m < k {
            sides.push(true);
            n = k;
        } else {
            sides.push(false);
            m -= k;
            n -= k;
        }
    }
    let mut h = leaf_hash(data);
    for (sib, right) in proof.iter().zip(sides.iter().rev()) {
        h = if *right { node_hash(&h, sib) } else { node_hash(sib, &h) };
    }
    h == *root
}

#[cfg(test)]
mod tests {
    use super::*;
    #[test]
    fn fast_equals_recursive_and_paths_verify() {
        for n in 0..70usize {
            let leaves: Vec<H> = (0..n).map(|i| leaf_hash(&[i as u8])).collect();
            assert_eq!(mth_hashed(&leaves), mth_hashed_fast(&leaves));
            let root = mth_hashed(&leaves);
            for m in 0..n {
                let p = path_hashed(m, &leaves);
                assert_eq!(path_len(m as u64, n as u64), Some(p.len()));
                assert!(verify(&root, &[m as u8], &p, m as u64, n as u64));
                if n > 1 {
                    assert!(!verify(&root, &[m as u8], &p, ((m + 1) % n) as u64, n as u64) || {
                        // may still verify only if recomputation coincides - impossible w/ distinct leaves
                        false
                    });
                }
            }
        }
    }
    #[test]
    fn rfc_vector() {
        // RFC 6962 empty tree
        assert_eq!(
            hex::encode(mth::<&[u8]>(&[])),
            "e3b0c44298fc1c149afbf4c8996fb92427ae41e4649b934ca495991b7852b855"
        );
    }
}

/// Memoised form of the recursive definition: hashes of all *aligned perfect* subtrees
/// are cached as leaves arrive, `root(n)`/`path(m, n)` follow the recursive definition on
/// the prefix of `n` leaves and only look up perfect subtrees. Agreement with the plain
/// recursive functions is unit-tested.
#[derive(Default, Clone)]
pub struct Memo {
    /// levels[k][i] = MTH of leaves [i·2^k, (i+1)·2^k)
    levels: Vec<Vec<H>>,
}

impl Memo {
    pub fn new() -> Self {
        Self { levels: vec![vec![]] }
    }
    pub fn len(&self) -> usize {
        self.levels[0].len()
    }
    pub fn is_empty(&self) -> bool {
        self.len() == 0
    }
    pub fn clear(&mut self) {
        self.levels = vec![vec![]];
    }
    pub fn truncate(&mut self, n: usize) {
        for (k, l) in self.levels.iter_mut().enumerate() {
            l.truncate(n >> k);
        }
    }
    pub fn push_hashed(&mut self, h: H) {
        self.levels[0].push(h);
        let mut k = 0;
        loop {
            let n = self.levels[k].len();
            if n % 2 != 0 {
                break;
            }
            let parent = node_hash(&self.levels[k][n - 2], &self.levels[k][n - 1]);
            if self.levels.len() == k + 1 {
                self.levels.push(vec![]);
            }
            self.levels[k + 1].push(parent);
            k += 1;
        }
    }
    pub fn push(&mut self, d: &[u8]) {
        self.push_hashed(leaf_hash(d));
    }
    /// MTH of leaves [start, start+n)
    fn sub(&self, start: usize, n: usize) -> H {
        if n.is_power_of_two() && start % n == 0 {
            let k = n.trailing_zeros() as usize;
            return self.levels[k][start >> k];
        }
        let k = split(n);
        node_hash(&self.sub(start, k), &self.sub(start + k, n - k))
    }
    pub fn root(&self, n: usize) -> H {
        assert!(n <= self.len());
        if n == 0 {
            return sha256(&[]);
        }
        self.sub(0, n)
    }
    fn path_rec(&self, m: usize, start: usize, n: usize, out: &mut Vec<H>) {
        if n == 1 {
            return;
        }
        let k = split(n);
        if m < k {
            self.path_rec(m, start, k, out);
            out.push(self.sub(start + k, n - k));
        } else {
            self.path_rec(m - k, start + k, n - k, out);
            out.push(self.sub(start, k));
        }
    }
    pub fn path(&self, m: usize, n: usize) -> Vec<H> {
        assert!(m < n && n <= self.len());
        let mut out = vec![];
        self.path_rec(m, 0, n, &mut out);
        out
    }
}

#[cfg(test)]
mod memo_tests {
    use super::*;
    #[test]
    fn memo_equals_recursive() {
        let mut memo = Memo::new();
        let mut leaves = vec![];
        for n in 0..100usize {
            assert_eq!(memo.root(n), mth_hashed(&leaves));
            for m in 0..n {
                assert_eq!(memo.path(m, n), path_hashed(m, &leaves));
            }
            let h = leaf_hash(&[n as u8, 7]);
            leaves.push(h);
            memo.push_hashed(h);
        }
        assert_eq!(memo.root(37), mth_hashed(&leaves[..37]));
        memo.truncate(37);
        memo.push_hashed(leaves[37]);
        assert_eq!(memo.root(38), mth_hashed(&leaves[..38]));
    }
}
