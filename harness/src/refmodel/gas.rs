//! Reference gas-schedule evaluator (DESIGN section 3, `refmodel::gas`; used by C26).
//!
//! `reference(instr, pre, world, shadow)` returns the list of charges ("stages") the
//! instruction set prescribes for this instruction with the operands found in the
//! pre-state, evaluated on the schedule in `world.gas_costs()`. The dependent-cost
//! formulas are re-implemented here from the documentation of `DependentCost`
//! (`LightOperation`: base + floor(units / units_per_gas), `HeavyOperation`:
//! base + units * gas_per_unit) in unbounded arithmetic; the schedule's accessor functions
//! are used only to look the parameters up.
//!
//! Several instructions charge in more than one stage (base, then a part that depends on
//! state read in between, then a surcharge for newly created storage). A stage list is
//! `complete` when every stage of a successful execution could be evaluated from the
//! pre-state; otherwise only the known prefix is returned (the instruction is then bound
//! to fail validation, or needs state the model does not track).
//!
//! State the charges depend on and that registers/memory do not show is tracked in
//! `Shadow`: which (contract, asset) balance entries exist (new-entry surcharge of
//! CALL/TR/MINT), and per contract-state slot its current length and whether it was
//! touched in this transaction (hot/cold reads, new-bytes surcharge of writes).

use crate::{
    recstore::Access,
    refmodel::sha256,
    stepbus::Snap,
    world::World,
};
use fuel_asm::{
    Instruction,
    RegId,
};
use fuel_tx::{
    DependentCost,
    GasCosts,
};
use fuel_types::{
    AssetId,
    ContractId,
};
use fuel_vm::storage::ContractsAssetsStorage;
use std::collections::{
    HashMap,
    HashSet,
};

/// bytes of a balance entry (asset id + amount) charged at `new_storage_per_byte`
pub const BALANCE_ENTRY_BYTES: u128 = 32 + 8;
/// longest slot range the storage simulation expands
pub const SLOT_RANGE_CAP: u64 = 4096;

#[derive(Clone, Copy, Debug, PartialEq, Eq, Hash, PartialOrd, Ord)]
pub enum Level {
    /// every stage is modelled: the charge of a successful execution is known exactly
    Full,
    /// only a lower bound (the unconditional first charge) is modelled
    Partial,
    /// nothing is claimed (handler-defined or undefined cost)
    Unmodelled,
}

impl Level {
    pub fn tag(&self) -> &'static str {
        match self {
            Level::Full => "full",
            Level::Partial => "partial",
            Level::Unmodelled => "unmodelled",
        }
    }
}

#[derive(Clone, Debug)]
pub struct RefCharge {
    pub level: Level,
    /// successive charges in the order they are made
    pub stages: Vec<u128>,
    /// `stages` is the whole list for a successful execution
    pub complete: bool,
    /// why the list is incomplete
    pub note: &'static str,
}

impl RefCharge {
    pub fn total(&self) -> u128 {
        self.stages.iter().sum()
    }
    pub fn first(&self) -> Option<u128> {
        self.stages.first().copied()
    }
    fn full(stages: Vec<u128>) -> Self {
        Self { level: Level::Full, stages, complete: true, note: "" }
    }
    fn prefix(stages: Vec<u128>, note: &'static str) -> Self {
        Self { level: Level::Full, stages, complete: false, note }
    }
    fn unmodelled(note: &'static str) -> Self {
        Self { level: Level::Unmodelled, stages: vec![], complete: false, note }
    }
}

/// base of a dependent cost
pub fn dep_base(c: &DependentCost) -> u128 {
    match c {
        DependentCost::LightOperation { base, .. } => *base as u128,
        DependentCost::HeavyOperation { base, .. } => *base as u128,
    }
}

/// unit-dependent part: light = floor(units / units_per_gas), heavy = units * gas_per_unit
pub fn dep_units(c: &DependentCost, units: u64) -> Option<u128> {
    match c {
        DependentCost::LightOperation { units_per_gas, .. } => {
            if *units_per_gas == 0 {
                None
            } else {
                Some((units / *units_per_gas) as u128)
            }
        }
        DependentCost::HeavyOperation { gas_per_unit, .. } => Some(units as u128 * *gas_per_unit as u128),
    }
}

pub fn dep(c: &DependentCost, units: u64) -> Option<u128> {
    Some(dep_base(c) + dep_units(c, units)?)
}

fn padded8(n: u64) -> Option<u64> {
    n.checked_add(7).map(|x| x & !7)
}

type K32 = [u8; 32];

/// State the gas charges depend on, tracked across the steps of one transaction.
pub struct Shadow {
    base_asset: K32,
    /// balance entries created during this transaction
    created_balance: HashSet<(K32, K32)>,
    pub balances_tainted: bool,
    /// current length of contract-state slots (None = absent); initial contents loaded
    /// from the world
    slot_len: HashMap<(K32, K32), Option<u64>>,
    /// slots read or written in this transaction
    touched: HashSet<(K32, K32)>,
    pub storage_tainted: bool,
    code_len: HashMap<K32, u64>,
    blob_len: HashMap<K32, u64>,
}

impl Shadow {
    pub fn new(w: &World) -> Self {
        let mut slot_len = HashMap::new();
        for (k, v) in w.storage.all_contract_state() {
            let kb: &[u8] = k.as_ref();
            if kb.len() != 64 {
                continue;
            }
            let mut c = [0u8; 32];
            let mut s = [0u8; 32];
            c.copy_from_slice(&kb[..32]);
            s.copy_from_slice(&kb[32..]);
            let vb: &[u8] = v.as_ref();
            slot_len.insert((c, s), Some(vb.len() as u64));
        }
        Self {
            base_asset: **w.params.base_asset_id(),
            created_balance: HashSet::new(),
            balances_tainted: false,
            slot_len,
            touched: HashSet::new(),
            storage_tainted: false,
            code_len: w.contracts.iter().map(|c| (*c.id, c.code.len() as u64)).collect(),
            blob_len: w.blobs.iter().map(|(id, d)| (**id, d.len() as u64)).collect(),
        }
    }

    fn balance_entry_exists(&self, w: &World, c: &K32, a: &K32) -> bool {
        if self.created_balance.contains(&(*c, *a)) {
            return true;
        }
        matches!(
            ContractsAssetsStorage::contract_asset_id_balance(&w.storage, &ContractId::new(*c), &AssetId::new(*a)),
            Ok(Some(_))
        )
    }

    fn len_of(&self, c: &K32, k: &K32) -> u64 {
        self.slot_len.get(&(*c, *k)).copied().flatten().unwrap_or(0)
    }

    /// Record the balance entries written in this step (any write to the balance table
    /// leaves an entry behind, also a decrease to zero or a mint/burn of zero).
    pub fn observe_accesses(&mut self, instr: Option<&Instruction>, pre: &Snap, accesses: &[Access]) {
        for a in accesses {
            if a.table != "ContractsAssets" || !a.write {
                continue;
            }
            let Some(c) = a.contract else {
                self.balances_tainted = true;
                continue;
            };
            let cb: K32 = *c;
            let g = |r: RegId| pre.regs[r.to_u8() as usize];
            let b32 = |addr: u64| -> Option<K32> { pre.bytes(addr, 32).and_then(|v| v.try_into().ok()) };
            let asset: Option<K32> = match instr {
                Some(Instruction::CALL(o)) => b32(g(o.unpack().2)),
                Some(Instruction::TR(o)) => b32(g(o.unpack().2)),
                Some(Instruction::TRO(o)) => b32(g(o.unpack().3)),
                Some(Instruction::SMO(_)) => Some(self.base_asset),
                Some(Instruction::MINT(o)) => b32(g(o.unpack().1)).map(|sub| sha256(&[&cb[..], &sub[..]])),
                Some(Instruction::BURN(o)) => b32(g(o.unpack().1)).map(|sub| sha256(&[&cb[..], &sub[..]])),
                _ => None,
            };
            match asset {
                Some(asset) => {
                    self.created_balance.insert((cb, asset));
                }
                None => self.balances_tainted = true,
            }
        }
    }
}

fn key_add(k: &K32, i: u64) -> Option<K32> {
    let mut out = *k;
    let mut carry = i as u128;
    for b in out.iter_mut().rev() {
        if carry == 0 {
            break;
        }
        let s = *b as u128 + (carry & 0xff);
        *b = (s & 0xff) as u8;
        carry = (carry >> 8) + (s >> 8);
    }
    if carry != 0 { None } else { Some(out) }
}

/// Evaluate the schedule for `instr` in state `pre`. Effects on the tracked storage state
/// are applied to `sh` right away: a step that does not complete ends the program, so the
/// shadow is never consulted after a step whose effects did not happen.
pub fn reference(instr: &Instruction, pre: &Snap, w: &World, sh: &mut Shadow) -> RefCharge {
    use Instruction as I;
    let costs: &GasCosts = w.gas_costs();
    let g = |r: RegId| pre.regs[r.to_u8() as usize];
    let b32 = |addr: u64| -> Option<K32> { pre.bytes(addr, 32).and_then(|v| v.try_into().ok()) };
    let one = |x: u64| RefCharge::full(vec![x as u128]);
    let depc = |c: DependentCost, units: u64| match dep(&c, units) {
        Some(x) => RefCharge::full(vec![x]),
        None => RefCharge::unmodelled("units_per_gas = 0"),
    };
    let nspb = costs.new_storage_per_byte() as u128;
    match instr {
        // ---- ALU, comparisons, moves
        I::ADD(_) => one(costs.add()),
        I::ADDI(_) => one(costs.addi()),
        I::AND(_) => one(costs.and()),
        I::ANDI(_) => one(costs.andi()),
        I::DIV(_) => one(costs.div()),
        I::DIVI(_) => one(costs.divi()),
        I::EQ(_) => one(costs.eq_()),
        I::EXP(_) => one(costs.exp()),
        I::EXPI(_) => one(costs.expi()),
        I::GT(_) => one(costs.gt()),
        I::LT(_) => one(costs.lt()),
        I::MLOG(_) => one(costs.mlog()),
        I::MOD(_) => one(costs.mod_op()),
        I::MODI(_) => one(costs.modi()),
        I::MOVE(_) => one(costs.move_op()),
        I::MOVI(_) => one(costs.movi()),
        I::MROO(_) => one(costs.mroo()),
        I::MUL(_) => one(costs.mul()),
        I::MULI(_) => one(costs.muli()),
        I::MLDV(_) => one(costs.mldv()),
        I::NIOP(_) => match costs.niop() {
            Ok(x) => one(x),
            Err(_) => RefCharge::unmodelled("cost not defined in this schedule version"),
        },
        I::NOOP(_) => one(costs.noop()),
        I::NOT(_) => one(costs.not()),
        I::OR(_) => one(costs.or()),
        I::ORI(_) => one(costs.ori()),
        I::SLL(_) => one(costs.sll()),
        I::SLLI(_) => one(costs.slli()),
        I::SRL(_) => one(costs.srl()),
        I::SRLI(_) => one(costs.srli()),
        I::SUB(_) => one(costs.sub()),
        I::SUBI(_) => one(costs.subi()),
        I::XOR(_) => one(costs.xor()),
        I::XORI(_) => one(costs.xori()),
        // ---- wide integers
        I::WDCM(_) => one(costs.wdcm()),
        I::WQCM(_) => one(costs.wqcm()),
        I::WDOP(_) => one(costs.wdop()),
        I::WQOP(_) => one(costs.wqop()),
        I::WDML(_) => one(costs.wdml()),
        I::WQML(_) => one(costs.wqml()),
        I::WDDV(_) => one(costs.wddv()),
        I::WQDV(_) => one(costs.wqdv()),
        I::WDMD(_) => one(costs.wdmd()),
        I::WQMD(_) => one(costs.wqmd()),
        I::WDAM(_) => one(costs.wdam()),
        I::WQAM(_) => one(costs.wqam()),
        I::WDMM(_) => one(costs.wdmm()),
        I::WQMM(_) => one(costs.wqmm()),
        // ---- control flow
        I::JI(_) => one(costs.ji()),
        I::JNEI(_) => one(costs.jnei()),
        I::JNZI(_) => one(costs.jnzi()),
        I::JMP(_) => one(costs.jmp()),
        I::JNE(_) => one(costs.jne()),
        I::JMPF(_) => one(costs.jmpf()),
        I::JMPB(_) => one(costs.jmpb()),
        I::JNZF(_) => one(costs.jnzf()),
        I::JNZB(_) => one(costs.jnzb()),
        I::JNEF(_) => one(costs.jnef()),
        I::JNEB(_) => one(costs.jneb()),
        // the schedule has no entry of its own for JAL: it is a register jump
        I::JAL(_) => one(costs.jmp()),
        I::RET(_) => one(costs.ret()),
        I::RETD(o) => depc(costs.retd(), g(o.unpack().1)),
        I::RVRT(_) => one(costs.rvrt()),
        // ---- memory
        I::ALOC(o) => depc(costs.aloc(), g(o.unpack())),
        I::CFEI(o) => depc(costs.cfei(), u32::from(o.unpack()) as u64),
        I::CFE(o) => depc(costs.cfe(), g(o.unpack())),
        I::CFSI(_) => one(costs.cfsi()),
        // no schedule entry of its own: shrinking costs the same with a register operand
        I::CFS(_) => one(costs.cfsi()),
        I::PSHL(_) => one(costs.pshl()),
        I::PSHH(_) => one(costs.pshh()),
        I::POPL(_) => one(costs.popl()),
        I::POPH(_) => one(costs.poph()),
        I::LB(_) => one(costs.lb()),
        I::LW(_) => one(costs.lw()),
        // quarter/half word loads and stores share the word entries
        I::LQW(_) => one(costs.lw()),
        I::LHW(_) => one(costs.lw()),
        I::SB(_) => one(costs.sb()),
        I::SW(_) => one(costs.sw()),
        I::SQW(_) => one(costs.sw()),
        I::SHW(_) => one(costs.sw()),
        I::MCL(o) => depc(costs.mcl(), g(o.unpack().1)),
        I::MCLI(o) => depc(costs.mcli(), u32::from(o.unpack().1) as u64),
        I::MCP(o) => depc(costs.mcp(), g(o.unpack().2)),
        I::MCPI(o) => depc(costs.mcpi(), u16::from(o.unpack().2) as u64),
        I::MEQ(o) => depc(costs.meq(), g(o.unpack().3)),
        // ---- receipts
        I::LOG(_) => one(costs.log()),
        I::LOGD(o) => depc(costs.logd(), g(o.unpack().3)),
        // ---- crypto
        I::ECK1(_) => one(costs.eck1()),
        I::ECR1(_) => one(costs.ecr1()),
        I::ED19(o) => {
            // message length 0 means the legacy fixed 32-byte message
            let len = g(o.unpack().3);
            depc(costs.ed19(), if len == 0 { 32 } else { len })
        }
        I::K256(o) => depc(costs.k256(), g(o.unpack().2)),
        I::S256(o) => depc(costs.s256(), g(o.unpack().2)),
        I::ECOP(_) => match costs.ecop() {
            Ok(x) => one(x),
            Err(_) => RefCharge::unmodelled("cost not defined in this schedule version"),
        },
        I::EPAR(o) => match costs.epar() {
            Ok(c) => depc(c, g(o.unpack().2)),
            Err(_) => RefCharge::unmodelled("cost not defined in this schedule version"),
        },
        // ---- context queries
        I::GM(_) => one(costs.gm()),
        I::GTF(_) => one(costs.gtf()),
        I::FLAG(_) => one(costs.flag()),
        I::BHEI(_) => one(costs.bhei()),
        I::BHSH(_) => one(costs.bhsh()),
        I::TIME(_) => one(costs.time()),
        I::CB(_) => one(costs.cb()),
        I::BAL(_) => one(costs.bal()),
        // ---- contracts and blobs (base, then a part depending on the object size)
        I::CALL(o) => {
            let (ra, rb, rc, _rd) = o.unpack();
            let c = costs.call();
            let mut st = vec![dep_base(&c)];
            let (Some(to), Some(asset)) = (b32(g(ra)), b32(g(rc))) else {
                return RefCharge::prefix(st, "call operands not readable");
            };
            // the call structure must be readable as a whole (to, a, b)
            if pre.bytes(g(ra), 48).is_none() {
                return RefCharge::prefix(st, "call structure not readable");
            }
            let Some(len) = sh.code_len.get(&to).copied() else {
                return RefCharge::prefix(st, "callee does not exist");
            };
            let Some(p) = padded8(len) else {
                return RefCharge::prefix(st, "code size overflow");
            };
            let Some(d) = dep_units(&c, p) else {
                return RefCharge::unmodelled("units_per_gas = 0");
            };
            st.push(d);
            if g(rb) > 0 {
                if sh.balances_tainted {
                    return RefCharge::prefix(st, "balance entries not tracked");
                }
                if !sh.balance_entry_exists(w, &to, &asset) {
                    st.push(BALANCE_ENTRY_BYTES * nspb);
                }
            }
            RefCharge::full(st)
        }
        I::LDC(o) => {
            let (ra, _rb, rc, mode) = o.unpack();
            let c = costs.ldc();
            let mut st = vec![dep_base(&c)];
            let units = match u8::from(mode) {
                0 => {
                    let Some(id) = b32(g(ra)) else {
                        return RefCharge::prefix(st, "id not readable");
                    };
                    let Some(p) = padded8(g(rc)) else {
                        return RefCharge::prefix(st, "length overflow");
                    };
                    let Some(len) = sh.code_len.get(&id).copied() else {
                        return RefCharge::prefix(st, "contract does not exist");
                    };
                    len.max(p)
                }
                1 => {
                    let Some(id) = b32(g(ra)) else {
                        return RefCharge::prefix(st, "id not readable");
                    };
                    let p = padded8(g(rc)).unwrap_or(u64::MAX);
                    let Some(len) = sh.blob_len.get(&id).copied() else {
                        return RefCharge::prefix(st, "blob does not exist");
                    };
                    len.max(p)
                }
                2 => {
                    if g(rc) == 0 {
                        return RefCharge::full(st);
                    }
                    padded8(g(rc)).unwrap_or(u64::MAX)
                }
                _ => return RefCharge::prefix(st, "invalid mode"),
            };
            match dep_units(&c, units) {
                Some(d) => st.push(d),
                None => return RefCharge::unmodelled("units_per_gas = 0"),
            }
            RefCharge::full(st)
        }
        I::CCP(o) => {
            let (_ra, rb, _rc, rd) = o.unpack();
            let c = costs.ccp();
            let mut st = vec![dep_base(&c)];
            let Some(id) = b32(g(rb)) else {
                return RefCharge::prefix(st, "id not readable");
            };
            let Some(len) = sh.code_len.get(&id).copied() else {
                return RefCharge::prefix(st, "contract does not exist");
            };
            match dep_units(&c, len.max(g(rd))) {
                Some(d) => st.push(d),
                None => return RefCharge::unmodelled("units_per_gas = 0"),
            }
            RefCharge::full(st)
        }
        I::CROO(o) => sized(costs.croo(), b32(g(o.unpack().1)), &sh.code_len),
        I::CSIZ(o) => sized(costs.csiz(), b32(g(o.unpack().1)), &sh.code_len),
        I::BSIZ(o) => match costs.bsiz() {
            Ok(c) => sized(c, b32(g(o.unpack().1)), &sh.blob_len),
            Err(_) => RefCharge::unmodelled("cost not defined in this schedule version"),
        },
        I::BLDD(o) => {
            let (_ra, rb, _rc, rd) = o.unpack();
            let Ok(c) = costs.bldd() else {
                return RefCharge::unmodelled("cost not defined in this schedule version");
            };
            let mut st = vec![dep_base(&c)];
            let Some(id) = b32(g(rb)) else {
                return RefCharge::prefix(st, "id not readable");
            };
            let Some(len) = sh.blob_len.get(&id).copied() else {
                return RefCharge::prefix(st, "blob does not exist");
            };
            match dep_units(&c, len.max(g(rd))) {
                Some(d) => st.push(d),
                None => return RefCharge::unmodelled("units_per_gas = 0"),
            }
            RefCharge::full(st)
        }
        // ---- coins
        I::TR(o) => {
            let (ra, rb, rc) = o.unpack();
            let mut st = vec![costs.tr() as u128];
            if g(rb) == 0 {
                return RefCharge::prefix(st, "zero amount");
            }
            let (Some(to), Some(asset)) = (b32(g(ra)), b32(g(rc))) else {
                return RefCharge::prefix(st, "operands not readable");
            };
            if sh.balances_tainted {
                return RefCharge::prefix(st, "balance entries not tracked");
            }
            if !sh.balance_entry_exists(w, &to, &asset) {
                st.push(BALANCE_ENTRY_BYTES * nspb);
            }
            RefCharge::full(st)
        }
        I::TRO(_) => one(costs.tro()),
        I::MINT(o) => {
            let (_ra, rb) = o.unpack();
            let mut st = vec![costs.mint() as u128];
            if pre.fp() == 0 {
                return RefCharge::prefix(st, "not in a contract");
            }
            let (Some(me), Some(sub)) = (b32(pre.fp()), b32(g(rb))) else {
                return RefCharge::prefix(st, "operands not readable");
            };
            if sh.balances_tainted {
                return RefCharge::prefix(st, "balance entries not tracked");
            }
            // asset id of a contract's sub asset = sha256(contract id || sub id)
            let asset = sha256(&[&me[..], &sub[..]]);
            if !sh.balance_entry_exists(w, &me, &asset) {
                st.push(BALANCE_ENTRY_BYTES * nspb);
            }
            RefCharge::full(st)
        }
        I::BURN(_) => one(costs.burn()),
        I::SMO(o) => depc(costs.smo(), g(o.unpack().2)),
        // ---- contract state
        I::SRW(_)
        | I::SRWQ(_)
        | I::SWW(_)
        | I::SWWQ(_)
        | I::SCWQ(_)
        | I::SCLR(_)
        | I::SRDD(_)
        | I::SRDI(_)
        | I::SWRD(_)
        | I::SWRI(_)
        | I::SUPD(_)
        | I::SUPI(_)
        | I::SPLD(_) => storage(instr, pre, w, sh),
        I::ECAL(_) => RefCharge::unmodelled("handler-defined"),
        #[allow(unreachable_patterns)]
        _ => RefCharge::unmodelled("unknown instruction"),
    }
}

fn sized(c: DependentCost, id: Option<K32>, table: &HashMap<K32, u64>) -> RefCharge {
    let mut st = vec![dep_base(&c)];
    let Some(id) = id else {
        return RefCharge::prefix(st, "id not readable");
    };
    let Some(len) = table.get(&id).copied() else {
        return RefCharge::prefix(st, "object does not exist");
    };
    match dep_units(&c, len) {
        Some(d) => st.push(d),
        None => return RefCharge::unmodelled("units_per_gas = 0"),
    }
    RefCharge::full(st)
}

/// Contract-state instructions: every one first pays the `noop` cost (dispatch), then per
/// slot a read (hot when the slot was touched earlier in this transaction, else cold; units
/// = current length of the slot, 0 when absent), for writes `storage_write(new length)`
/// plus `new_storage_per_byte` for every byte the slot grows by, for clears
/// `storage_clear(number of slots)`.
fn storage(instr: &Instruction, pre: &Snap, w: &World, sh: &mut Shadow) -> RefCharge {
    use Instruction as I;
    let costs: &GasCosts = w.gas_costs();
    let g = |r: RegId| pre.regs[r.to_u8() as usize];
    let b32 = |addr: u64| -> Option<K32> { pre.bytes(addr, 32).and_then(|v| v.try_into().ok()) };
    let st = vec![costs.noop() as u128];
    let partial = |st: Vec<u128>, note: &'static str| RefCharge { level: Level::Partial, stages: st, complete: false, note };
    let (Ok(hot), Ok(cold), Ok(write), Ok(clear)) = (costs.storage_read_hot(), costs.storage_read_cold(), costs.storage_write(), costs.storage_clear()) else {
        return partial(st, "storage costs not defined in this schedule version");
    };
    if sh.storage_tainted {
        return partial(st, "contract state not tracked");
    }
    if pre.fp() == 0 {
        return RefCharge::prefix(st, "not in a contract");
    }
    let Some(me) = b32(pre.fp()) else {
        return RefCharge::prefix(st, "frame not readable");
    };
    let nspb = costs.new_storage_per_byte() as u128;
    let max_len = w.params.script_params().max_storage_slot_length();

    struct Sim<'a> {
        sh: &'a mut Shadow,
        me: K32,
        st: Vec<u128>,
        hot: DependentCost,
        cold: DependentCost,
        write: DependentCost,
        nspb: u128,
        bad: bool,
    }
    impl Sim<'_> {
        fn read(&mut self, k: &K32) -> u64 {
            let len = self.sh.len_of(&self.me, k);
            let c = if self.sh.touched.contains(&(self.me, *k)) { self.hot } else { self.cold };
            match dep(&c, len) {
                Some(x) => self.st.push(x),
                None => self.bad = true,
            }
            self.sh.touched.insert((self.me, *k));
            len
        }
        fn write(&mut self, k: &K32, new_len: u64) {
            let old = self.sh.len_of(&self.me, k);
            match dep(&self.write, new_len) {
                Some(x) => self.st.push(x),
                None => self.bad = true,
            }
            self.st.push(self.nspb * new_len.saturating_sub(old) as u128);
            self.sh.slot_len.insert((self.me, *k), Some(new_len));
            self.sh.touched.insert((self.me, *k));
        }
        fn clear(&mut self, k: &K32) {
            self.sh.slot_len.insert((self.me, *k), None);
            self.sh.touched.insert((self.me, *k));
        }
    }
    let mut sim = Sim { sh, me, st, hot, cold, write, nspb, bad: false };
    // expand `[key, key + n)`; None = not expressible (overflow, or too long to simulate)
    let keys = |k: &K32, n: u64, sim: &mut Sim| -> Result<Vec<K32>, &'static str> {
        if n > SLOT_RANGE_CAP {
            sim.sh.storage_tainted = true;
            return Err("slot range too long to simulate");
        }
        (0..n).map(|i| key_add(k, i).ok_or("key range overflow")).collect()
    };
    macro_rules! try_or {
        ($e:expr, $level:expr) => {
            match $e {
                Ok(v) => v,
                Err(note) => {
                    let lv = if sim.sh.storage_tainted { Level::Partial } else { $level };
                    return RefCharge { level: lv, stages: sim.st[..1].to_vec(), complete: false, note };
                }
            }
        };
    }
    match instr {
        I::SRW(o) => {
            let (_a, _b, c, _imm) = o.unpack();
            let k = try_or!(b32(g(c)).ok_or("key not readable"), Level::Full);
            sim.read(&k);
        }
        I::SRWQ(o) => {
            let (_a, _b, c, d) = o.unpack();
            let k = try_or!(b32(g(c)).ok_or("key not readable"), Level::Full);
            let ks = try_or!(keys(&k, g(d), &mut sim), Level::Full);
            for k in ks.iter() {
                sim.read(k);
            }
        }
        I::SWW(o) => {
            let (a, _b, _c) = o.unpack();
            let k = try_or!(b32(g(a)).ok_or("key not readable"), Level::Full);
            sim.read(&k);
            sim.write(&k, 32);
        }
        I::SWWQ(o) => {
            let (a, _b, _c, d) = o.unpack();
            let k = try_or!(b32(g(a)).ok_or("key not readable"), Level::Full);
            let ks = try_or!(keys(&k, g(d), &mut sim), Level::Full);
            for k in ks.iter() {
                sim.read(k);
                sim.write(k, 32);
            }
        }
        I::SCWQ(o) => {
            let (a, _b, c) = o.unpack();
            let k = try_or!(b32(g(a)).ok_or("key not readable"), Level::Full);
            let ks = try_or!(keys(&k, g(c), &mut sim), Level::Full);
            for k in ks.iter() {
                sim.read(k);
            }
            match dep(&clear, g(c)) {
                Some(x) => sim.st.push(x),
                None => sim.bad = true,
            }
            for k in ks.iter() {
                sim.clear(k);
            }
        }
        I::SCLR(o) => {
            let (a, b) = o.unpack();
            let k = try_or!(b32(g(a)).ok_or("key not readable"), Level::Full);
            let ks = try_or!(keys(&k, g(b), &mut sim), Level::Full);
            match dep(&clear, g(b)) {
                Some(x) => sim.st.push(x),
                None => sim.bad = true,
            }
            for k in ks.iter() {
                sim.clear(k);
            }
        }
        I::SRDD(o) => {
            let k = try_or!(b32(g(o.unpack().1)).ok_or("key not readable"), Level::Full);
            sim.read(&k);
        }
        I::SRDI(o) => {
            let k = try_or!(b32(g(o.unpack().1)).ok_or("key not readable"), Level::Full);
            sim.read(&k);
        }
        I::SPLD(o) => {
            let k = try_or!(b32(g(o.unpack().1)).ok_or("key not readable"), Level::Full);
            sim.read(&k);
        }
        I::SWRD(o) => {
            let (a, _b, c) = o.unpack();
            let k = try_or!(b32(g(a)).ok_or("key not readable"), Level::Full);
            let len = g(c);
            try_or!(if len > max_len { Err("longer than the slot limit") } else { Ok(()) }, Level::Full);
            sim.write(&k, len);
        }
        I::SWRI(o) => {
            let (a, _b, imm) = o.unpack();
            let k = try_or!(b32(g(a)).ok_or("key not readable"), Level::Full);
            let len = u16::from(imm) as u64;
            try_or!(if len > max_len { Err("longer than the slot limit") } else { Ok(()) }, Level::Full);
            sim.write(&k, len);
        }
        I::SUPD(_) | I::SUPI(_) => {
            let (a, off, len) = match instr {
                I::SUPD(o) => {
                    let (a, _b, c, d) = o.unpack();
                    (a, g(c), g(d))
                }
                I::SUPI(o) => {
                    let (a, _b, c, imm) = o.unpack();
                    (a, g(c), u8::from(imm) as u64)
                }
                _ => unreachable!(),
            };
            let k = try_or!(b32(g(a)).ok_or("key not readable"), Level::Full);
            let old = sim.read(&k);
            // offset u64::MAX = append
            let off = if off == u64::MAX { old } else { off };
            if off > old {
                return RefCharge::prefix(sim.st, "offset beyond the value");
            }
            let Some(after) = off.checked_add(len) else {
                return RefCharge::prefix(sim.st, "length overflow");
            };
            if after > max_len {
                return RefCharge::prefix(sim.st, "longer than the slot limit");
            }
            sim.write(&k, old.max(after));
        }
        _ => return RefCharge::unmodelled("not a storage instruction"),
    }
    if sim.bad {
        return RefCharge::unmodelled("units_per_gas = 0");
    }
    RefCharge::full(sim.st)
}

/// name of the schedule kind used in coverage classes
pub fn schedule_kind(s: u8) -> &'static str {
    match s {
        0 => "default",
        1 => "unit",
        2 => "free",
        3 => "random",
        _ => "other",
    }
}
