//! The transaction validity rules as a pure function (DESIGN.md section 3, `refmodel::validity`).
//!
//! Transcription of the "Transaction validity" rules of the tx-format specification
//! (transaction.md / input.md / output.md / policy.md, tx-validity.md "sufficient balance")
//! as one predicate function per rule. Every rule is evaluated on the *whole* transaction,
//! the verdict is the conjunction; the implementation instead returns the first error it
//! meets, so agreement of the verdicts is evidence that no rule is skipped, shadowed or
//! compared the wrong way round.
//!
//! Trusted / shared with the code under test (recorded in the monitor's assumptions):
//! `Chargeable::max_gas` (fee arithmetic is C18's subject), `Contract::root_from_code` /
//! `Contract::initial_state_root` (C15), `postcard` for "the witness deserialises", field
//! accessors. Sizes come from the independent canonical encoder `refmodel::canon`, hashes
//! from `sha2`, the upload proof from `refmodel::rfc6962`.

use crate::refmodel::{
    canon,
    rfc6962,
    sha256,
};
use fuel_tx::{
    Chargeable,
    ConsensusParameters,
    Contract,
    Input,
    Output,
    Transaction,
    UpgradePurpose,
    Witness,
    field as f,
    policies::{
        Policies,
        PolicyType,
    },
};
use fuel_types::{
    Address,
    AssetId,
    BlockHeight,
};
use std::collections::{
    BTreeMap,
    BTreeSet,
};

#[derive(Clone, Copy, Debug, PartialEq, Eq)]
pub enum Status {
    /// stated by the specification / the property statement, boundary included
    Specified,
    /// the implementation's reading is kept (boundary or rule not confirmable offline)
    PinnedToImplementation,
}

pub struct Rule {
    pub name: &'static str,
    pub status: Status,
    pub text: &'static str,
    eval: fn(&Ctx) -> Option<bool>,
}

#[derive(Clone, Copy, Debug, PartialEq, Eq)]
enum Kind {
    Script,
    Create,
    Mint,
    Upgrade,
    Upload,
    Blob,
}

struct Ctx<'a> {
    tx: &'a Transaction,
    kind: Kind,
    height: u32,
    p: &'a ConsensusParameters,
    pol: Option<&'a Policies>,
    ins: &'a [Input],
    outs: &'a [Output],
    wits: &'a [Witness],
    base: AssetId,
}

impl<'a> Ctx<'a> {
    fn new(tx: &'a Transaction, height: BlockHeight, p: &'a ConsensusParameters) -> Self {
        macro_rules! parts {
            ($t:expr) => {
                (
                    Some(f::Policies::policies($t)),
                    f::Inputs::inputs($t).as_slice(),
                    f::Outputs::outputs($t).as_slice(),
                    f::Witnesses::witnesses($t).as_slice(),
                )
            };
        }
        let (kind, (pol, ins, outs, wits)) = match tx {
            Transaction::Script(t) => (Kind::Script, parts!(t)),
            Transaction::Create(t) => (Kind::Create, parts!(t)),
            Transaction::Upgrade(t) => (Kind::Upgrade, parts!(t)),
            Transaction::Upload(t) => (Kind::Upload, parts!(t)),
            Transaction::Blob(t) => (Kind::Blob, parts!(t)),
            Transaction::Mint(_) => (Kind::Mint, (None, &[][..], &[][..], &[][..])),
        };
        Ctx { tx, kind, height: u32::from(height), p, pol, ins, outs, wits, base: *p.base_asset_id() }
    }

    fn chargeable(&self) -> bool {
        self.kind != Kind::Mint
    }

    /// Create, Upgrade, Upload, Blob: the kinds that may not touch contracts
    fn restricted(&self) -> bool {
        matches!(self.kind, Kind::Create | Kind::Upgrade | Kind::Upload | Kind::Blob)
    }

    fn policy(&self, t: PolicyType) -> Option<u64> {
        self.pol.and_then(|p| p.get(t))
    }
}

// ---------------------------------------------------------------------------------------
// views of inputs and outputs

fn is_coin(i: &Input) -> bool {
    matches!(i, Input::CoinSigned(_) | Input::CoinPredicate(_))
}
fn is_message_coin(i: &Input) -> bool {
    matches!(i, Input::MessageCoinSigned(_) | Input::MessageCoinPredicate(_))
}
fn is_message_data(i: &Input) -> bool {
    matches!(i, Input::MessageDataSigned(_) | Input::MessageDataPredicate(_))
}
fn is_contract(i: &Input) -> bool {
    matches!(i, Input::Contract(_))
}
fn is_signed(i: &Input) -> bool {
    matches!(i, Input::CoinSigned(_) | Input::MessageCoinSigned(_) | Input::MessageDataSigned(_))
}
fn is_predicate(i: &Input) -> bool {
    matches!(i, Input::CoinPredicate(_) | Input::MessageCoinPredicate(_) | Input::MessageDataPredicate(_))
}

fn coin_asset(i: &Input) -> Option<AssetId> {
    match i {
        Input::CoinSigned(c) => Some(c.asset_id),
        Input::CoinPredicate(c) => Some(c.asset_id),
        _ => None,
    }
}

/// owner of a coin / recipient of a message
fn owner_of(i: &Input) -> Option<Address> {
    match i {
        Input::CoinSigned(c) => Some(c.owner),
        Input::CoinPredicate(c) => Some(c.owner),
        Input::MessageCoinSigned(m) => Some(m.recipient),
        Input::MessageCoinPredicate(m) => Some(m.recipient),
        Input::MessageDataSigned(m) => Some(m.recipient),
        Input::MessageDataPredicate(m) => Some(m.recipient),
        Input::Contract(_) => None,
    }
}

/// the asset ids "in the input set": coin assets, and the base asset through any message
fn input_asset_set(c: &Ctx) -> BTreeSet<AssetId> {
    let mut s = BTreeSet::new();
    for i in c.ins {
        if let Some(a) = coin_asset(i) {
            s.insert(a);
        } else if is_message_coin(i) || is_message_data(i) {
            s.insert(c.base);
        }
    }
    s
}

/// Σ amounts spendable without restriction, per asset (coins; message coins as base asset)
fn spendable_sums(c: &Ctx) -> BTreeMap<AssetId, u128> {
    let mut m: BTreeMap<AssetId, u128> = BTreeMap::new();
    for i in c.ins {
        if let Some(a) = coin_asset(i) {
            *m.entry(a).or_default() += i.amount().unwrap_or(0) as u128;
        } else if is_message_coin(i) {
            *m.entry(c.base).or_default() += i.amount().unwrap_or(0) as u128;
        }
    }
    m
}

/// Σ amounts of messages with data (base asset, spendable only during execution)
fn retryable_sum(c: &Ctx) -> u128 {
    c.ins.iter().filter(|i| is_message_data(i)).map(|i| i.amount().unwrap_or(0) as u128).sum()
}

fn coin_output_sums(c: &Ctx) -> BTreeMap<AssetId, u128> {
    let mut m: BTreeMap<AssetId, u128> = BTreeMap::new();
    for o in c.outs {
        if let Output::Coin { asset_id, amount, .. } = o {
            *m.entry(*asset_id).or_default() += *amount as u128;
        }
    }
    m
}

fn witness_bytes(c: &Ctx) -> u128 {
    // every witness is serialized as a length word followed by its 8-byte padded payload
    c.wits.iter().map(|w| 8 + canon::pad8(w.as_vec().len()) as u128).sum()
}

fn witness_at<'a>(c: &'a Ctx, idx: u16) -> Option<&'a [u8]> {
    c.wits.get(idx as usize).map(|w| w.as_vec().as_slice())
}

fn all<T>(xs: impl IntoIterator<Item = T>, applicable: bool, mut pred: impl FnMut(T) -> bool) -> Option<bool> {
    if !applicable {
        return None;
    }
    let mut any = false;
    let mut ok = true;
    for x in xs {
        any = true;
        ok &= pred(x);
    }
    if any { Some(ok) } else { None }
}

fn has_duplicates<T: Ord>(xs: impl IntoIterator<Item = T>) -> bool {
    let mut seen = BTreeSet::new();
    for x in xs {
        if !seen.insert(x) {
            return true;
        }
    }
    false
}

// ---------------------------------------------------------------------------------------
// rules common to all kinds

fn tx_size_within_max_size(c: &Ctx) -> Option<bool> {
    Some(canon::encode_tx(c.tx).0.len() as u128 <= c.p.tx_params().max_size() as u128)
}

// ---------------------------------------------------------------------------------------
// policies

fn policy_bits_known(c: &Ctx) -> Option<bool> {
    c.pol.map(|p| p.bits() & !0x3f == 0)
}

fn policy_values_in_range(c: &Ctx) -> Option<bool> {
    c.pol.map(|_| {
        [PolicyType::Maturity, PolicyType::Expiration, PolicyType::Owner]
            .iter()
            .all(|t| c.policy(*t).map(|v| v <= u32::MAX as u64).unwrap_or(true))
    })
}

fn max_fee_policy_set(c: &Ctx) -> Option<bool> {
    c.pol.map(|p| p.is_set(PolicyType::MaxFee))
}

fn witness_limit_covers_witnesses(c: &Ctx) -> Option<bool> {
    c.policy(PolicyType::WitnessLimit).map(|l| witness_bytes(c) <= l as u128)
}

fn maturity_reached(c: &Ctx) -> Option<bool> {
    c.policy(PolicyType::Maturity).map(|m| m <= c.height as u64)
}

fn not_expired(c: &Ctx) -> Option<bool> {
    c.policy(PolicyType::Expiration).map(|e| e >= c.height as u64)
}

fn owner_index_in_range(c: &Ctx) -> Option<bool> {
    c.policy(PolicyType::Owner).map(|o| (o as u128) < c.ins.len() as u128)
}

fn owner_input_has_owner(c: &Ctx) -> Option<bool> {
    let o = c.policy(PolicyType::Owner)?;
    let i = c.ins.get(usize::try_from(o).ok()?)?;
    Some(owner_of(i).is_some())
}

fn max_gas_within_limit(c: &Ctx) -> Option<bool> {
    let (g, fp) = (c.p.gas_costs(), c.p.fee_params());
    let max_gas = match c.tx {
        Transaction::Script(t) => t.max_gas(g, fp),
        Transaction::Create(t) => t.max_gas(g, fp),
        Transaction::Upgrade(t) => t.max_gas(g, fp),
        Transaction::Upload(t) => t.max_gas(g, fp),
        Transaction::Blob(t) => t.max_gas(g, fp),
        Transaction::Mint(_) => return None,
    };
    Some(max_gas <= c.p.tx_params().max_gas_per_tx())
}

// ---------------------------------------------------------------------------------------
// counts, presence, duplicates

fn inputs_count_within_max(c: &Ctx) -> Option<bool> {
    c.chargeable().then(|| c.ins.len() as u128 <= c.p.tx_params().max_inputs() as u128)
}
fn outputs_count_within_max(c: &Ctx) -> Option<bool> {
    c.chargeable().then(|| c.outs.len() as u128 <= c.p.tx_params().max_outputs() as u128)
}
fn witnesses_count_within_max(c: &Ctx) -> Option<bool> {
    c.chargeable().then(|| c.wits.len() as u128 <= c.p.tx_params().max_witnesses() as u128)
}

fn has_spendable_input(c: &Ctx) -> Option<bool> {
    c.chargeable().then(|| c.ins.iter().any(|i| is_coin(i) || is_message_coin(i)))
}

fn no_duplicate_coin_utxo_id(c: &Ctx) -> Option<bool> {
    let ids: Vec<_> = c.ins.iter().filter(|i| is_coin(i)).filter_map(|i| i.utxo_id().copied()).collect();
    (!ids.is_empty()).then(|| !has_duplicates(ids))
}
fn no_duplicate_contract_id(c: &Ctx) -> Option<bool> {
    let ids: Vec<_> = c.ins.iter().filter_map(|i| i.contract_id().copied()).collect();
    (!ids.is_empty()).then(|| !has_duplicates(ids))
}
fn no_duplicate_message_nonce(c: &Ctx) -> Option<bool> {
    let ids: Vec<_> = c.ins.iter().filter_map(|i| i.nonce().copied()).collect();
    (!ids.is_empty()).then(|| !has_duplicates(ids))
}

// ---------------------------------------------------------------------------------------
// per input

fn input_witness_index_in_range(c: &Ctx) -> Option<bool> {
    all(c.ins.iter().filter(|i| is_signed(i)), true, |i| (i.witness_index().unwrap_or(0) as usize) < c.wits.len())
}
fn input_predicate_not_empty(c: &Ctx) -> Option<bool> {
    all(c.ins.iter().filter(|i| is_predicate(i)), true, |i| !i.input_predicate().unwrap_or(&[]).is_empty())
}
fn input_predicate_within_max_length(c: &Ctx) -> Option<bool> {
    let max = c.p.predicate_params().max_predicate_length() as u128;
    all(c.ins.iter().filter(|i| is_predicate(i)), true, |i| i.input_predicate().unwrap_or(&[]).len() as u128 <= max)
}
fn input_predicate_data_within_max_length(c: &Ctx) -> Option<bool> {
    let max = c.p.predicate_params().max_predicate_data_length() as u128;
    all(c.ins.iter().filter(|i| is_predicate(i)), true, |i| i.input_predicate_data().unwrap_or(&[]).len() as u128 <= max)
}
fn input_message_data_not_empty(c: &Ctx) -> Option<bool> {
    all(c.ins.iter().filter(|i| is_message_data(i)), true, |i| !i.input_data().unwrap_or(&[]).is_empty())
}
fn input_message_data_within_max_length(c: &Ctx) -> Option<bool> {
    let max = c.p.predicate_params().max_message_data_length() as u128;
    all(c.ins.iter().filter(|i| is_message_data(i)), true, |i| i.input_data().unwrap_or(&[]).len() as u128 <= max)
}
/// ∀ input contract ∃! output contract : output.inputIndex = index of the input
fn input_contract_has_exactly_one_output(c: &Ctx) -> Option<bool> {
    all(c.ins.iter().enumerate().filter(|(_, i)| is_contract(i)), true, |(k, _)| {
        c.outs.iter().filter(|o| matches!(o, Output::Contract(oc) if oc.input_index as usize == k)).count() == 1
    })
}

// ---------------------------------------------------------------------------------------
// per output

fn output_contract_refers_to_contract_input(c: &Ctx) -> Option<bool> {
    all(c.outs.iter().filter_map(|o| if let Output::Contract(oc) = o { Some(oc) } else { None }), true, |oc| {
        c.ins.get(oc.input_index as usize).map(is_contract).unwrap_or(false)
    })
}
fn change_asset_among_inputs(c: &Ctx) -> Option<bool> {
    let set = input_asset_set(c);
    all(c.outs.iter().filter_map(|o| if let Output::Change { asset_id, .. } = o { Some(asset_id) } else { None }), true, |a| set.contains(a))
}
fn coin_asset_among_inputs(c: &Ctx) -> Option<bool> {
    let set = input_asset_set(c);
    all(c.outs.iter().filter_map(|o| if let Output::Coin { asset_id, .. } = o { Some(asset_id) } else { None }), true, |a| set.contains(a))
}
fn at_most_one_change_per_asset(c: &Ctx) -> Option<bool> {
    let ids: Vec<_> = c.outs.iter().filter_map(|o| if let Output::Change { asset_id, .. } = o { Some(*asset_id) } else { None }).collect();
    (!ids.is_empty()).then(|| !has_duplicates(ids))
}

// ---------------------------------------------------------------------------------------
// sufficient balance

fn input_amounts_fit_u64(c: &Ctx) -> Option<bool> {
    c.chargeable().then(|| spendable_sums(c).values().all(|v| *v <= u64::MAX as u128) && retryable_sum(c) <= u64::MAX as u128)
}
fn fee_limit_covered_by_base_inputs(c: &Ctx) -> Option<bool> {
    let fee = c.policy(PolicyType::MaxFee)? as u128;
    Some(spendable_sums(c).get(&c.base).copied().unwrap_or(0) >= fee)
}
/// per asset: Σ coin outputs (+ the fee limit for the base asset) ≤ Σ spendable inputs
fn coin_outputs_covered_by_inputs(c: &Ctx) -> Option<bool> {
    let outs = coin_output_sums(c);
    if outs.is_empty() || !c.chargeable() {
        return None;
    }
    let ins = spendable_sums(c);
    let fee = c.policy(PolicyType::MaxFee).unwrap_or(0) as u128;
    Some(outs.iter().all(|(a, o)| {
        let need = *o + if *a == c.base { fee } else { 0 };
        ins.get(a).copied().unwrap_or(0) >= need
    }))
}

// ---------------------------------------------------------------------------------------
// kind specific

fn script_length_within_max(c: &Ctx) -> Option<bool> {
    let Transaction::Script(t) = c.tx else { return None };
    Some(f::Script::script(t).len() as u128 <= c.p.script_params().max_script_length() as u128)
}
fn script_data_length_within_max(c: &Ctx) -> Option<bool> {
    let Transaction::Script(t) = c.tx else { return None };
    Some(f::ScriptData::script_data(t).len() as u128 <= c.p.script_params().max_script_data_length() as u128)
}
/// Script, Upgrade, Upload, Blob
fn no_contract_created_output(c: &Ctx) -> Option<bool> {
    matches!(c.kind, Kind::Script | Kind::Upgrade | Kind::Upload | Kind::Blob)
        .then(|| !c.outs.iter().any(|o| matches!(o, Output::ContractCreated { .. })))
}

// Create, Upgrade, Upload, Blob
fn only_base_asset_inputs(c: &Ctx) -> Option<bool> {
    c.restricted().then(|| c.ins.iter().filter_map(coin_asset).all(|a| a == c.base))
}
fn no_contract_inputs(c: &Ctx) -> Option<bool> {
    c.restricted().then(|| !c.ins.iter().any(is_contract))
}
fn no_message_data_inputs(c: &Ctx) -> Option<bool> {
    c.restricted().then(|| !c.ins.iter().any(is_message_data))
}
fn no_contract_outputs(c: &Ctx) -> Option<bool> {
    c.restricted().then(|| !c.outs.iter().any(|o| matches!(o, Output::Contract(_))))
}
fn no_variable_outputs(c: &Ctx) -> Option<bool> {
    c.restricted().then(|| !c.outs.iter().any(|o| matches!(o, Output::Variable { .. })))
}
fn change_outputs_only_base_asset(c: &Ctx) -> Option<bool> {
    c.restricted().then(|| c.outs.iter().all(|o| !matches!(o, Output::Change { asset_id, .. } if *asset_id != c.base)))
}

fn create_bytecode_witness_index_in_range(c: &Ctx) -> Option<bool> {
    let Transaction::Create(t) = c.tx else { return None };
    Some((*f::BytecodeWitnessIndex::bytecode_witness_index(t) as usize) < c.wits.len())
}
fn create_bytecode_within_contract_max_size(c: &Ctx) -> Option<bool> {
    let Transaction::Create(t) = c.tx else { return None };
    let w = witness_at(c, *f::BytecodeWitnessIndex::bytecode_witness_index(t))?;
    Some(w.len() as u128 <= c.p.contract_params().contract_max_size() as u128)
}
fn create_storage_slots_within_max(c: &Ctx) -> Option<bool> {
    let Transaction::Create(t) = c.tx else { return None };
    Some(f::StorageSlots::storage_slots(t).len() as u128 <= c.p.contract_params().max_storage_slots() as u128)
}
/// keys strictly ascending (sorted, no duplicate key)
fn create_storage_slots_sorted_unique(c: &Ctx) -> Option<bool> {
    let Transaction::Create(t) = c.tx else { return None };
    let s = f::StorageSlots::storage_slots(t);
    Some(s.windows(2).all(|w| AsRef::<[u8]>::as_ref(w[0].key()) < AsRef::<[u8]>::as_ref(w[1].key())))
}
fn create_exactly_one_contract_created_output(c: &Ctx) -> Option<bool> {
    (c.kind == Kind::Create).then(|| c.outs.iter().filter(|o| matches!(o, Output::ContractCreated { .. })).count() == 1)
}
/// (contract id, state root) as the specification computes them from the transaction
pub fn create_computed_ids(t: &fuel_tx::Create) -> Option<([u8; 32], [u8; 32])> {
    let idx = *f::BytecodeWitnessIndex::bytecode_witness_index(t) as usize;
    let code = f::Witnesses::witnesses(t).get(idx)?.as_vec();
    let code_root = Contract::root_from_code(code);
    let state_root = Contract::initial_state_root(f::StorageSlots::storage_slots(t).iter());
    // contract id = sha256("FUEL" ‖ salt ‖ code root ‖ state root)
    let id = sha256(&[
        &[0x46u8, 0x55, 0x45, 0x4C][..],
        f::Salt::salt(t).as_ref(),
        code_root.as_ref(),
        state_root.as_ref(),
    ]);
    Some((id, *state_root))
}
fn create_contract_created_matches_computed(c: &Ctx) -> Option<bool> {
    let Transaction::Create(t) = c.tx else { return None };
    let (id, root) = create_computed_ids(t)?;
    all(
        c.outs.iter().filter_map(|o| if let Output::ContractCreated { contract_id, state_root } = o { Some((contract_id, state_root)) } else { None }),
        true,
        |(cid, sr)| **cid == id && **sr == root,
    )
}

fn upgrade_privileged_owner_among_inputs(c: &Ctx) -> Option<bool> {
    (c.kind == Kind::Upgrade).then(|| c.ins.iter().filter_map(owner_of).any(|o| o == *c.p.privileged_address()))
}
fn upgrade_purpose_witness(c: &Ctx) -> Option<(u16, [u8; 32])> {
    let Transaction::Upgrade(t) = c.tx else { return None };
    match f::UpgradePurpose::upgrade_purpose(t) {
        UpgradePurpose::ConsensusParameters { witness_index, checksum } => Some((*witness_index, **checksum)),
        UpgradePurpose::StateTransition { .. } => None,
    }
}
fn upgrade_witness_index_in_range(c: &Ctx) -> Option<bool> {
    upgrade_purpose_witness(c).map(|(i, _)| (i as usize) < c.wits.len())
}
fn upgrade_checksum_matches_witness(c: &Ctx) -> Option<bool> {
    let (i, sum) = upgrade_purpose_witness(c)?;
    let w = witness_at(c, i)?;
    Some(sha256(&[w]) == sum)
}
fn upgrade_witness_deserialises(c: &Ctx) -> Option<bool> {
    let (i, _) = upgrade_purpose_witness(c)?;
    let w = witness_at(c, i)?;
    Some(postcard::from_bytes::<ConsensusParameters>(w).is_ok())
}

fn upload_subsections_number_within_max(c: &Ctx) -> Option<bool> {
    let Transaction::Upload(t) = c.tx else { return None };
    Some(*f::SubsectionsNumber::subsections_number(t) <= c.p.tx_params().max_bytecode_subsections())
}
fn upload_witness_index_in_range(c: &Ctx) -> Option<bool> {
    let Transaction::Upload(t) = c.tx else { return None };
    Some((*f::BytecodeWitnessIndex::bytecode_witness_index(t) as usize) < c.wits.len())
}
fn upload_subsection_index_below_number(c: &Ctx) -> Option<bool> {
    let Transaction::Upload(t) = c.tx else { return None };
    Some(*f::SubsectionIndex::subsection_index(t) < *f::SubsectionsNumber::subsections_number(t))
}
fn upload_proof_connects_subsection_to_root(c: &Ctx) -> Option<bool> {
    let Transaction::Upload(t) = c.tx else { return None };
    let w = witness_at(c, *f::BytecodeWitnessIndex::bytecode_witness_index(t))?;
    let (idx, n) = (*f::SubsectionIndex::subsection_index(t) as u64, *f::SubsectionsNumber::subsections_number(t) as u64);
    if idx >= n {
        return None;
    }
    let proof: Vec<[u8; 32]> = f::ProofSet::proof_set(t).iter().map(|b| **b).collect();
    Some(rfc6962::verify(&**f::BytecodeRoot::bytecode_root(t), w, &proof, idx, n))
}

fn blob_witness_index_in_range(c: &Ctx) -> Option<bool> {
    let Transaction::Blob(t) = c.tx else { return None };
    Some((*f::BytecodeWitnessIndex::bytecode_witness_index(t) as usize) < c.wits.len())
}
fn blob_id_is_hash_of_witness(c: &Ctx) -> Option<bool> {
    let Transaction::Blob(t) = c.tx else { return None };
    let w = witness_at(c, *f::BytecodeWitnessIndex::bytecode_witness_index(t))?;
    Some(sha256(&[w]) == **f::BlobId::blob_id(t))
}

fn mint_tx_pointer_height_is_block_height(c: &Ctx) -> Option<bool> {
    let Transaction::Mint(t) = c.tx else { return None };
    Some(u32::from(f::TxPointer::tx_pointer(t).block_height()) == c.height)
}
fn mint_output_contract_index_zero(c: &Ctx) -> Option<bool> {
    let Transaction::Mint(t) = c.tx else { return None };
    Some(f::OutputContract::output_contract(t).input_index == 0)
}
fn mint_asset_is_base_asset(c: &Ctx) -> Option<bool> {
    let Transaction::Mint(t) = c.tx else { return None };
    Some(*f::MintAssetId::mint_asset_id(t) == c.base)
}

use Status::{
    PinnedToImplementation as P,
    Specified as S,
};

macro_rules! rule {
    ($f:ident, $s:expr, $t:expr) => {
        Rule { name: stringify!($f), status: $s, text: $t, eval: $f }
    };
}

/// The rule catalogue of the basic (signature-free) checks.
pub const RULES: &[Rule] = &[
    rule!(tx_size_within_max_size, S, "canonical size in bytes <= MAX_SIZE (all kinds incl. Mint)"),
    rule!(policy_bits_known, S, "policyTypes has no bit above the six defined policies"),
    rule!(policy_values_in_range, P, "maturity, expiration (block heights) and owner index fit 32 bits"),
    rule!(max_fee_policy_set, S, "the MaxFee policy is set"),
    rule!(witness_limit_covers_witnesses, S, "if set: serialized size of the witnesses (length word + padded data each) <= witnessLimit; the size measure is the implementation's"),
    rule!(maturity_reached, S, "if set: maturity <= block height"),
    rule!(not_expired, S, "if set: expiration >= block height"),
    rule!(owner_index_in_range, P, "if set: owner policy < inputsCount"),
    rule!(owner_input_has_owner, P, "if set and in range: inputs[owner] is a coin or a message (has an owner/recipient)"),
    rule!(max_gas_within_limit, S, "max_gas(tx) <= MAX_GAS_PER_TX (max_gas taken from Chargeable::max_gas)"),
    rule!(inputs_count_within_max, S, "inputsCount <= MAX_INPUTS"),
    rule!(outputs_count_within_max, S, "outputsCount <= MAX_OUTPUTS"),
    rule!(witnesses_count_within_max, S, "witnessesCount <= MAX_WITNESSES"),
    rule!(has_spendable_input, S, "at least one input is a coin or a message without data"),
    rule!(no_duplicate_coin_utxo_id, S, "no two coin inputs share a UTXO id"),
    rule!(no_duplicate_contract_id, S, "no two contract inputs share a contract id"),
    rule!(no_duplicate_message_nonce, S, "no two message inputs share a nonce"),
    rule!(input_witness_index_in_range, S, "signed inputs: witnessIndex < witnessesCount"),
    rule!(input_predicate_not_empty, P, "predicate inputs: predicateLength > 0 (not expressible on the wire)"),
    rule!(input_predicate_within_max_length, S, "predicateLength <= MAX_PREDICATE_LENGTH"),
    rule!(input_predicate_data_within_max_length, S, "predicateDataLength <= MAX_PREDICATE_DATA_LENGTH"),
    rule!(input_message_data_not_empty, P, "message-with-data inputs: dataLength > 0 (not expressible on the wire)"),
    rule!(input_message_data_within_max_length, S, "dataLength <= MAX_MESSAGE_DATA_LENGTH"),
    rule!(input_contract_has_exactly_one_output, S, "every contract input has exactly one Output::Contract with its index"),
    rule!(output_contract_refers_to_contract_input, S, "Output::Contract.inputIndex refers to an existing contract input"),
    rule!(change_asset_among_inputs, S, "every Change output's asset is in the input set (messages count as base asset)"),
    rule!(coin_asset_among_inputs, P, "every Coin output's asset is in the input set (messages count as base asset), also for amount 0"),
    rule!(at_most_one_change_per_asset, S, "at most one Change output per asset id"),
    rule!(input_amounts_fit_u64, P, "per asset the sum of input amounts fits 64 bits (also the sum of data-message amounts)"),
    rule!(fee_limit_covered_by_base_inputs, S, "fee limit <= sum of base-asset coins and data-less messages"),
    rule!(coin_outputs_covered_by_inputs, S, "per asset: coin outputs (+ fee limit for the base asset) <= sum of spendable inputs"),
    rule!(script_length_within_max, S, "Script: scriptLength <= MAX_SCRIPT_LENGTH"),
    rule!(script_data_length_within_max, S, "Script: scriptDataLength <= MAX_SCRIPT_DATA_LENGTH"),
    rule!(no_contract_created_output, S, "Script/Upgrade/Upload/Blob: no ContractCreated output"),
    rule!(only_base_asset_inputs, S, "Create/Upgrade/Upload/Blob: every coin input is of the base asset"),
    rule!(no_contract_inputs, S, "Create/Upgrade/Upload/Blob: no contract input"),
    rule!(no_message_data_inputs, S, "Create/Upgrade/Upload/Blob: no message input with data"),
    rule!(no_contract_outputs, S, "Create/Upgrade/Upload/Blob: no Contract output"),
    rule!(no_variable_outputs, S, "Create/Upgrade/Upload/Blob: no Variable output"),
    rule!(change_outputs_only_base_asset, S, "Create/Upgrade/Upload/Blob: Change outputs only for the base asset"),
    rule!(create_bytecode_witness_index_in_range, S, "Create: bytecodeWitnessIndex < witnessesCount"),
    rule!(create_bytecode_within_contract_max_size, S, "Create: bytecode witness length <= CONTRACT_MAX_SIZE"),
    rule!(create_storage_slots_within_max, S, "Create: storageSlotsCount <= MAX_STORAGE_SLOTS"),
    rule!(create_storage_slots_sorted_unique, S, "Create: storage slot keys strictly ascending"),
    rule!(create_exactly_one_contract_created_output, S, "Create: exactly one ContractCreated output"),
    rule!(create_contract_created_matches_computed, S, "Create: ContractCreated carries the computed contract id and state root"),
    rule!(upgrade_privileged_owner_among_inputs, S, "Upgrade: some input is owned by the privileged address"),
    rule!(upgrade_witness_index_in_range, S, "Upgrade(ConsensusParameters): witnessIndex < witnessesCount"),
    rule!(upgrade_checksum_matches_witness, S, "Upgrade(ConsensusParameters): checksum == sha256(witness)"),
    rule!(upgrade_witness_deserialises, P, "Upgrade(ConsensusParameters): the witness deserialises (postcard) into consensus parameters"),
    rule!(upload_subsections_number_within_max, S, "Upload: subsectionsNumber <= MAX_BYTECODE_SUBSECTIONS"),
    rule!(upload_witness_index_in_range, S, "Upload: witnessIndex < witnessesCount"),
    rule!(upload_subsection_index_below_number, S, "Upload: subsectionIndex < subsectionsNumber"),
    rule!(upload_proof_connects_subsection_to_root, S, "Upload: the binary Merkle root recomputed from witness, index, number and proof set equals root"),
    rule!(blob_witness_index_in_range, S, "Blob: witnessIndex < witnessesCount"),
    rule!(blob_id_is_hash_of_witness, S, "Blob: id == sha256(witness)"),
    rule!(mint_tx_pointer_height_is_block_height, S, "Mint: txPointer block height == block height"),
    rule!(mint_output_contract_index_zero, S, "Mint: outputContract.inputIndex == 0"),
    rule!(mint_asset_is_base_asset, P, "Mint: mintAssetId is the base asset"),
];

/// Name of the rule the implementation enforces only at the signature stage
/// (`Checked::check_signatures`), therefore not part of [`valid`].
pub const STAGED_RULE_PREDICATE_OWNER: &str = "input_predicate_owner_is_predicate_root";

#[derive(Clone, Debug, Default)]
pub struct Evaluation {
    /// names of applicable rules that hold
    pub satisfied: Vec<&'static str>,
    /// names of applicable rules that are broken (sorted by catalogue order)
    pub violated: Vec<&'static str>,
}

impl Evaluation {
    pub fn valid(&self) -> bool {
        self.violated.is_empty()
    }
}

/// Evaluate every rule on the whole transaction.
pub fn evaluate(tx: &Transaction, height: BlockHeight, params: &ConsensusParameters) -> Evaluation {
    let c = Ctx::new(tx, height, params);
    let mut e = Evaluation::default();
    for r in RULES {
        match (r.eval)(&c) {
            Some(true) => e.satisfied.push(r.name),
            Some(false) => e.violated.push(r.name),
            None => {}
        }
    }
    e
}

/// The verdict of the basic checks according to the specification.
pub fn valid(tx: &Transaction, height: BlockHeight, params: &ConsensusParameters) -> bool {
    evaluate(tx, height, params).valid()
}

/// Free balances of an accepted transaction.
#[derive(Clone, Debug, PartialEq, Eq)]
pub struct FreeBalances {
    /// per asset: Σ spendable inputs − Σ coin outputs (− fee limit for the base asset)
    pub non_retryable: BTreeMap<AssetId, u64>,
    /// Σ amounts of message inputs with data (base asset, usable only during execution)
    pub retryable: u64,
}

/// Reference free balances; `None` for Mint and whenever the amounts do not work out
/// (missing fee limit, overflow, outputs or fee exceeding inputs).
pub fn free_balances_full(tx: &Transaction, params: &ConsensusParameters) -> Option<FreeBalances> {
    let c = Ctx::new(tx, BlockHeight::from(0u32), params);
    if !c.chargeable() {
        return None;
    }
    let fee = c.policy(PolicyType::MaxFee)? as u128;
    let mut ins = spendable_sums(&c);
    ins.entry(c.base).or_default();
    let outs = coin_output_sums(&c);
    if outs.keys().any(|a| !ins.contains_key(a)) {
        return None;
    }
    let mut m = BTreeMap::new();
    for (a, v) in ins {
        let need = outs.get(&a).copied().unwrap_or(0) + if a == c.base { fee } else { 0 };
        if v > u64::MAX as u128 || need > v {
            return None;
        }
        m.insert(a, (v - need) as u64);
    }
    let r = retryable_sum(&c);
    if r > u64::MAX as u128 {
        return None;
    }
    Some(FreeBalances { non_retryable: m, retryable: r as u64 })
}

/// The unrestricted free balances per asset (DESIGN.md section 3).
pub fn free_balances(tx: &Transaction, params: &ConsensusParameters) -> Option<BTreeMap<AssetId, u64>> {
    free_balances_full(tx, params).map(|b| b.non_retryable)
}

/// `Some(all predicate inputs are owned by their predicate's root address)`, `None` when
/// the transaction has no predicate input. `Input::predicate_owner` is C15's subject.
pub fn predicate_owners_match(tx: &Transaction) -> Option<bool> {
    let p = ConsensusParameters::standard();
    let c = Ctx::new(tx, BlockHeight::from(0u32), &p);
    all(c.ins.iter().filter(|i| is_predicate(i)), true, |i| {
        owner_of(i) == Some(Input::predicate_owner(i.input_predicate().unwrap_or(&[])))
    })
}

/// does the transaction carry inputs that need a signature
pub fn has_signed_inputs(tx: &Transaction) -> bool {
    let p = ConsensusParameters::standard();
    let c = Ctx::new(tx, BlockHeight::from(0u32), &p);
    c.ins.iter().any(is_signed)
}

/// figures of a transaction that limits are compared with (used by the generator to set
/// limits just below / at / above them)
#[derive(Clone, Debug, Default)]
pub struct Figures {
    pub size: u64,
    pub witness_bytes: u64,
    pub max_predicate_len: u64,
    pub max_predicate_data_len: u64,
    pub max_message_data_len: u64,
}

pub fn figures(tx: &Transaction) -> Figures {
    let p = ConsensusParameters::standard();
    let c = Ctx::new(tx, BlockHeight::from(0u32), &p);
    Figures {
        size: canon::encode_tx(tx).0.len() as u64,
        witness_bytes: witness_bytes(&c) as u64,
        max_predicate_len: c.ins.iter().filter_map(|i| i.input_predicate()).map(|p| p.len() as u64).max().unwrap_or(0),
        max_predicate_data_len: c.ins.iter().filter_map(|i| i.input_predicate_data()).map(|p| p.len() as u64).max().unwrap_or(0),
        max_message_data_len: c.ins.iter().filter(|i| is_message_data(i)).filter_map(|i| i.input_data()).map(|p| p.len() as u64).max().unwrap_or(0),
    }
}
