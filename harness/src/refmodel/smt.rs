//! Compact sparse Merkle tree as quoted in C12: leaf = H(0x00 ‖ key ‖ H(value)),
//! node = H(0x01 ‖ left ‖ right), empty subtree = 32 zero bytes, a subtree holding
//! exactly one leaf is that leaf (not expanded). Root by recursion on the sorted key set
//! and bit depth.

use super::{
    H,
    sha256,
};
use std::collections::BTreeMap;

pub const ZERO: H = [0u8; 32];

pub fn leaf_hash(key: &H, value: &[u8]) -> H {
    let hv = sha256(&[value]);
    sha256(&[&[0u8], key, &hv])
}

pub fn leaf_hash_from_value_hash(key: &H, hv: &H) -> H {
    sha256(&[&[0u8], key, hv])
}

pub fn node_hash(l: &H, r: &H) -> H {
    sha256(&[&[1u8], l, r])
}

pub fn bit(key: &H, i: usize) -> bool {
    (key[i / 8] >> (7 - (i % 8))) & 1 == 1
}

/// root of the subtree at `depth` holding `items` (sorted by key, all sharing the first
/// `depth` bits); items are (key, leaf hash)
fn sub(items: &[(H, H)], depth: usize) -> H {
    match items.len() {
        0 => ZERO,
        1 => items[0].1,
        _ => {
            assert!(depth < 256, "duplicate keys");
            let split = items.partition_point(|(k, _)| !bit(k, depth));
            node_hash(&sub(&items[..split], depth + 1), &sub(&items[split..], depth + 1))
        }
    }
}

pub fn root(map: &BTreeMap<H, Vec<u8>>) -> H {
    let items: Vec<(H, H)> = map.iter().map(|(k, v)| (*k, leaf_hash(k, v))).collect();
    sub(&items, 0)
}

/// Root over pre-hashed leaves: `items` = (key, leaf hash), strictly sorted by key.
/// (Lets a monitor cache the leaf hashes of a model map between operations.)
pub fn root_of_items(items: &[(H, H)]) -> H {
    debug_assert!(items.windows(2).all(|w| w[0].0 < w[1].0));
    sub(items, 0)
}

/// What a proof for `key` must contain according to the compact-tree definition:
/// the side hashes from the root down to where the descent stops, and what it stops at.
pub enum Terminal {
    /// the descent ended in an empty subtree
    Empty,
    /// the descent ended at a single leaf (key, leaf hash) — equal to the queried key
    /// for inclusion, another key for exclusion
    Leaf(H, H),
}

/// Descend towards `key`; returns (side hashes root→down, terminal).
pub fn descend(map: &BTreeMap<H, Vec<u8>>, key: &H) -> (Vec<H>, Terminal) {
    let items: Vec<(H, H)> = map.iter().map(|(k, v)| (*k, leaf_hash(k, v))).collect();
    descend_items(&items, key)
}

/// [`descend`] over pre-hashed leaves (key, leaf hash), strictly sorted by key.
pub fn descend_items(items: &[(H, H)], key: &H) -> (Vec<H>, Terminal) {
    let mut cur: &[(H, H)] = items;
    let mut depth = 0usize;
    let mut sides = Vec::new();
    loop {
        match cur.len() {
            0 => return (sides, Terminal::Empty),
            1 => return (sides, Terminal::Leaf(cur[0].0, cur[0].1)),
            _ => {
                let split = cur.partition_point(|(k, _)| !bit(k, depth));
                let (l, r) = cur.split_at(split);
                if bit(key, depth) {
                    sides.push(sub(l, depth + 1));
                    cur = r;
                } else {
                    sides.push(sub(r, depth + 1));
                    cur = l;
                }
                depth += 1;
            }
        }
    }
}

/// Recompute a root from a starting hash at depth `sides.len()` up to the root, where
/// `sides_leaf_to_root[i]` is the sibling at depth `len-1-i`.
pub fn fold_up(key: &H, start: H, sides_leaf_to_root: &[H]) -> H {
    let n = sides_leaf_to_root.len();
    let mut h = start;
    for (i, sib) in sides_leaf_to_root.iter().enumerate() {
        let depth = n - 1 - i;
        h = if bit(key, depth) { node_hash(sib, &h) } else { node_hash(&h, sib) };
    }
    h
}

/// Reference inclusion verification: proof set ordered leaf→root, at most 256 entries.
pub fn verify_inclusion(root: &H, key: &H, value: &[u8], proof_leaf_to_root: &[H]) -> bool {
    if proof_leaf_to_root.len() > 256 {
        return false;
    }
    fold_up(key, leaf_hash(key, value), proof_leaf_to_root) == *root
}

/// The leaf an exclusion proof exhibits at the end of the path.
#[derive(Clone, Debug, PartialEq, Eq)]
pub enum ExLeaf {
    Placeholder,
    /// (leaf key, hash of the leaf's value)
    Leaf(H, H),
}

/// Reference exclusion verification: the exhibited leaf must not be the queried key; the
/// path for `key` folded from that leaf (or the zero placeholder) must reach the root.
pub fn verify_exclusion(root: &H, key: &H, leaf: &ExLeaf, proof_leaf_to_root: &[H]) -> bool {
    if proof_leaf_to_root.len() > 256 {
        return false;
    }
    let start = match leaf {
        ExLeaf::Placeholder => ZERO,
        ExLeaf::Leaf(k, hv) => {
            if k == key {
                return false;
            }
            leaf_hash_from_value_hash(k, hv)
        }
    };
    fold_up(key, start, proof_leaf_to_root) == *root
}

#[cfg(test)]
mod tests {
    use super::*;
    #[test]
    fn descend_folds_to_root() {
        let mut m = BTreeMap::new();
        for i in 0..20u8 {
            let mut k = [0u8; 32];
            k[0] = i.wrapping_mul(37);
            k[31] = i;
            m.insert(k, vec![i; i as usize]);
        }
        let r = root(&m);
        for (k, v) in &m {
            let (mut sides, t) = descend(&m, k);
            sides.reverse();
            assert!(matches!(t, Terminal::Leaf(kk, _) if kk == *k));
            assert!(verify_inclusion(&r, k, v, &sides));
            assert!(!verify_inclusion(&r, k, b"other", &sides));
        }
        let absent = [0x55u8; 32];
        let (mut sides, t) = descend(&m, &absent);
        sides.reverse();
        let leaf = match t {
            Terminal::Empty => ExLeaf::Placeholder,
            Terminal::Leaf(k, _) => ExLeaf::Leaf(k, sha256(&[&m[&k]])),
        };
        assert!(verify_exclusion(&r, &absent, &leaf, &sides));
    }
}
