//! One monitor per property (DESIGN.md section 4).
use crate::{
    Cfg,
    Report,
};

pub mod c01;
pub mod c02;
pub mod c03;
pub mod c04;
pub mod c05;
pub mod c06;
pub mod c07;
pub mod c08;
pub mod c09;
pub mod c10;
pub mod c11;
pub mod be256;
pub mod c12;
pub mod c13;
pub mod c14;
pub mod smt_gen;
pub mod c15;
pub mod c16;
pub mod c17;
pub mod c18;
pub mod c19;
pub mod c20;
pub mod c20_exec;
pub mod c21;
pub mod c22;
pub mod c23;
pub mod c24;
pub mod c25;
pub mod c26;
pub mod c27;
pub mod c28;
pub mod ledger;
pub mod c33;
pub mod c34;
pub mod c35;
pub mod c36;
pub mod c29;
pub mod c30;
pub mod insn_bench;
pub mod c31;
pub mod c32;
pub mod grp_e;

pub fn run(cfg: &Cfg) -> Option<Report> {
    let r = match cfg.prop.as_str() {
        "C01" => c01::run(cfg),
        "C02" => c02::run(cfg),
        "C03" => c03::run(cfg),
        "C05" => c05::run(cfg),
        "C06" => c06::run(cfg),
        "C04" => c04::run(cfg),
        "C07" => c07::run(cfg),
        "C08" => c08::run(cfg),
        "C09" => c09::run(cfg),
        "C10" => c10::run(cfg),
        "C11" => c11::run(cfg),
        "C12" => c12::run(cfg),
        "C13" => c13::run(cfg),
        "C14" => c14::run(cfg),
        "C15" => c15::run(cfg),
        "C16" => c16::run(cfg),
        "C17" => c17::run(cfg),
        "C18" => c18::run(cfg),
        "C19" => c19::run(cfg),
        "C20" => c20::run(cfg),
        "C21" => c21::run(cfg),
        "C22" => c22::run(cfg),
        "C23" => c23::run(cfg),
        "C24" => c24::run(cfg),
        "C25" => c25::run(cfg),
        "C26" => c26::run(cfg),
        "C27" => c27::run(cfg),
        "C28" => c28::run(cfg),
        "C33" => c33::run(cfg),
        "C34" => c34::run(cfg),
        "C35" => c35::run(cfg),
        "C36" => c36::run(cfg),
        "C29" => c29::run(cfg),
        "C30" => c30::run(cfg),
        "C31" => c31::run(cfg),
        "C32" => c32::run(cfg),
        _ => return None,
    };
    Some(r)
}
