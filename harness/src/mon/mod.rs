//! One monitor per property (DESIGN.md section 4).
use crate::{
    Cfg,
    Report,
};

pub mod c01;
pub mod c09;

pub fn run(cfg: &Cfg) -> Option<Report> {
    let r = match cfg.prop.as_str() {
        "C01" => c01::run(cfg),
        "C09" => c09::run(cfg),
        _ => return None,
    };
    Some(r)
}
