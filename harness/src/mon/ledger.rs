//! Asset bookkeeping shared by C27 (conservation ledger) and C28 (outputs after a
//! revert): amounts available to a script transaction, computed from the declarative
//! `ScriptSpec` the transaction was built from (not from the VM's view of it), the fee
//! rule, and the sub-asset id formula. All sums in `u128`.

use crate::world::{
    ScriptSpec,
    World,
};
use fuel_tx::{
    Chargeable,
    Receipt,
    Script,
};
use fuel_types::{
    AssetId,
    ContractId,
};
use sha2::{
    Digest,
    Sha256,
};
use std::collections::BTreeMap;

pub type Sums = BTreeMap<AssetId, u128>;

/// What the transaction brings in and promises, from its specification.
#[derive(Clone, Debug, Default)]
pub struct TxMoney {
    /// coin inputs (signed and predicate) + message inputs without data (base asset), per asset
    pub spendable: Sums,
    /// sum of the amounts of data-carrying (retryable) message inputs: base asset, only
    /// spendable by a successful script
    pub retryable: u128,
    /// coin outputs per asset
    pub coin_outputs: Sums,
    /// assets that have a change output
    pub change_assets: Vec<AssetId>,
    pub max_fee: u128,
    pub tip: u128,
    pub base: AssetId,
}

impl TxMoney {
    pub fn of(spec: &ScriptSpec, w: &World) -> Self {
        let base = w.base_asset();
        let asset = |i: usize| w.assets[i % w.assets.len()];
        let mut m = TxMoney { base, max_fee: spec.max_fee as u128, tip: spec.tip.unwrap_or(0) as u128, ..Default::default() };
        for (_, a, amount) in spec.coins.iter() {
            *m.spendable.entry(asset(*a)).or_default() += *amount as u128;
        }
        for (_, _, a, amount, _) in spec.predicates.iter() {
            *m.spendable.entry(asset(*a)).or_default() += *amount as u128;
        }
        for (_, amount, data) in spec.messages.iter() {
            if data.is_empty() {
                *m.spendable.entry(base).or_default() += *amount as u128;
            } else {
                m.retryable += *amount as u128;
            }
        }
        for (a, amount) in spec.coin_outputs.iter() {
            *m.coin_outputs.entry(asset(*a)).or_default() += *amount as u128;
        }
        m.change_assets = spec.change.iter().map(|a| asset(*a)).collect();
        m
    }

    /// Free balance of every asset the script starts with if the execution is going to
    /// be reverted (`with_retryable = false`: this is what change outputs fall back to)
    /// or as seen by the running script (`with_retryable = true`).
    /// `None` = the specification does not cover its own outputs/fee (such transactions
    /// are rejected by the validity layer; never judged).
    pub fn initial_free(&self, with_retryable: bool) -> Option<Sums> {
        let mut f = self.spendable.clone();
        let b = f.entry(self.base).or_default();
        *b = b.checked_sub(self.max_fee)?;
        for (a, out) in self.coin_outputs.iter() {
            let e = f.get_mut(a)?;
            *e = e.checked_sub(*out)?;
        }
        if with_retryable && self.retryable > 0 {
            *f.entry(self.base).or_default() += self.retryable;
        }
        Some(f)
    }
}

/// Fee charged for an execution that used `gas_used` units of the script gas limit:
/// `ceil((min_gas + gas_used) * gas_price / gas_price_factor) + tip`. `min_gas` (intrinsic
/// gas of the transaction: bytes, inputs, VM initialisation) is taken from the
/// repository's `Chargeable::min_gas` (judged by C18, trusted here).
pub fn fee_charged(tx: &Script, w: &World, tip: u128, gas_used: u64) -> u128 {
    let min_gas = tx.min_gas(w.gas_costs(), w.params.fee_params()) as u128;
    let factor = w.params.fee_params().gas_price_factor() as u128;
    let total = min_gas + gas_used as u128;
    let num = total * w.gas_price as u128;
    let fee = if factor == 0 { 0 } else { (num + factor - 1) / factor };
    fee + tip
}

/// `sha256(contract_id ‖ sub_id)`
pub fn sub_asset(contract: &ContractId, sub_id: &[u8; 32]) -> AssetId {
    let mut h = Sha256::new();
    h.update(contract.as_ref());
    h.update(sub_id);
    AssetId::new(h.finalize().into())
}

/// gas used as stated by the script result receipt
pub fn gas_used_of(receipts: &[Receipt]) -> Option<u64> {
    receipts.iter().rev().find_map(|r| match r {
        Receipt::ScriptResult { gas_used, .. } => Some(*gas_used),
        _ => None,
    })
}
