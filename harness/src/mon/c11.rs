//! C11 Binary Merkle trees behave like fresh trees across reset and reload.
//!
//! Histories over push / reset / root / prove / leaves_count / load (and `new`) are run
//! against `in_memory::MerkleTree` and the storage-backed `binary::MerkleTree` over a
//! shared node storage. The model is the list of leaves pushed since the last reset
//! (truncated to k by `load(storage, k)`); root and proofs come from the RFC 6962
//! reference. `load` is only issued at counts k the tree stood at since the last reset
//! (after a reset, new pushes overwrite nodes of the same storage, so older counts are
//! outside the property). Because a tree passes through every count on its way up, the
//! recorded counts are exactly `0..=len`.
use crate::{
    Cfg,
    Panicked,
    Report,
    Rng,
    bucket,
    guarded,
    hx,
    par,
    refmodel::rfc6962 as r,
    unhx,
    vmutil::SharedMap,
};
use fuel_merkle::binary::{
    self,
    in_memory::{
        MerkleTree as MemTree,
        NodesTable,
    },
};
use serde_json::{
    Value,
    json,
};
use std::collections::BTreeSet;

type H = [u8; 32];
type StorTree = binary::MerkleTree<NodesTable, SharedMap<NodesTable>>;

const MEM: &str = "in_memory::MerkleTree";
const STOR: &str = "binary::MerkleTree(storage)";

#[derive(Clone, Debug)]
enum Op {
    New,
    Push(Vec<u8>),
    /// m short leaves by formula (medium leaf counts without huge replay records)
    PushMany { salt: u32, m: u32 },
    Reset,
    Root,
    Prove,
    LeavesCount,
    Load(u64),
}

const KINDS: &[&str] = &["new", "push", "reset", "root", "prove", "leaves_count", "load"];

impl Op {
    fn kind(&self) -> usize {
        match self {
            Op::New => 0,
            Op::Push(_) | Op::PushMany { .. } => 1,
            Op::Reset => 2,
            Op::Root => 3,
            Op::Prove => 4,
            Op::LeavesCount => 5,
            Op::Load(_) => 6,
        }
    }

    fn to_json(&self) -> Value {
        match self {
            Op::New => json!({"op":"new"}),
            Op::Push(d) => json!({"op":"push","data":hx(d)}),
            Op::PushMany { salt, m } => json!({"op":"push_many","salt":salt,"m":m}),
            Op::Reset => json!({"op":"reset"}),
            Op::Root => json!({"op":"root"}),
            Op::Prove => json!({"op":"prove"}),
            Op::LeavesCount => json!({"op":"leaves_count"}),
            Op::Load(k) => json!({"op":"load","k":k}),
        }
    }

    fn from_json(v: &Value) -> Option<Op> {
        Some(match v.get("op")?.as_str()? {
            "new" => Op::New,
            "push" => Op::Push(unhx(v.get("data")?.as_str()?)),
            "push_many" => Op::PushMany {
                salt: v.get("salt")?.as_u64()? as u32,
                m: v.get("m")?.as_u64()? as u32,
            },
            "reset" => Op::Reset,
            "root" => Op::Root,
            "prove" => Op::Prove,
            "leaves_count" => Op::LeavesCount,
            "load" => Op::Load(v.get("k")?.as_u64()?),
            _ => return None,
        })
    }
}

/// panic message without the location (stable across edits that move lines)
fn panic_msg(p: &Panicked) -> String {
    p.text.rsplit_once(" @ ").map(|(m, _)| m).unwrap_or(&p.text).to_string()
}

fn many_leaf(salt: u32, j: u32) -> [u8; 2] {
    let v = j.wrapping_mul(40_503) ^ salt;
    [v as u8, (v >> 8) as u8]
}

enum Tree {
    Mem(MemTree),
    Stor { tree: StorTree, storage: SharedMap<NodesTable> },
}

/// One history under observation: the implementation, the model and the bookkeeping for
/// signatures and coverage classes.
struct Run {
    name: &'static str,
    tree: Tree,
    memo: r::Memo,
    datas: Vec<Vec<u8>>,
    /// model length just before the most recent reset / load / new
    old_len: usize,
    had_reset: bool,
    had_load: bool,
    kinds: u8,
    ops: Vec<Op>,
    /// signatures already reported for this history
    seen: BTreeSet<String>,
}

impl Run {
    fn new(name: &'static str) -> Self {
        let tree = if name == MEM {
            Tree::Mem(MemTree::new())
        } else {
            let storage = SharedMap::new();
            Tree::Stor { tree: binary::MerkleTree::new(storage.clone()), storage }
        };
        Run {
            name,
            tree,
            memo: r::Memo::new(),
            datas: vec![],
            old_len: 0,
            had_reset: false,
            had_load: false,
            kinds: 0,
            ops: vec![],
            seen: BTreeSet::new(),
        }
    }

    fn len(&self) -> usize {
        self.datas.len()
    }

    fn phase(&self) -> &'static str {
        if self.had_reset {
            "after reset"
        } else if self.had_load {
            "after load"
        } else {
            "no reset or load"
        }
    }

    fn kinds_str(&self) -> String {
        KINDS
            .iter()
            .enumerate()
            .filter(|(k, _)| self.kinds & (1 << k) != 0)
            .map(|(_, n)| *n)
            .collect::<Vec<_>>()
            .join("+")
    }

    fn replay(&self) -> Value {
        json!({"kind":"history","impl":self.name,"ops":self.ops.iter().map(|o| o.to_json()).collect::<Vec<_>>()})
    }

    fn violation(&mut self, rep: &mut Report, what: &str, detail: String) {
        let sig = format!("C11|{}|{}|{}", self.name, self.phase(), what);
        if self.seen.insert(sig.clone()) {
            let text = format!(
                "{}: {detail} (model: {} leaves, {} leaves before the last reset/load; history of {} operations using {})",
                self.name,
                self.len(),
                self.old_len,
                self.ops.len(),
                self.kinds_str()
            );
            rep.violation(sig, text, || self.replay());
        }
    }

    fn model_push(&mut self, d: &[u8]) {
        self.memo.push(d);
        self.datas.push(d.to_vec());
    }

    fn tree_push(&mut self, rep: &mut Report, d: &[u8]) {
        let res: Result<Result<(), String>, Panicked> = match &mut self.tree {
            Tree::Mem(t) => guarded(|| {
                t.push(d);
                Ok(())
            }),
            Tree::Stor { tree, .. } => guarded(|| tree.push(d).map_err(|e| format!("{e:?}"))),
        };
        match res {
            Ok(Ok(())) => {}
            Ok(Err(e)) => self.violation(rep, "push returned an error", format!("push failed: {e}")),
            Err(p) => self.violation(rep, &format!("push panicked|{}", panic_msg(&p)), format!("push panicked: {}", p.text)),
        }
    }

    /// apply one operation to implementation and model, then compare
    fn step(&mut self, rep: &mut Report, op: Op) {
        self.kinds |= 1 << op.kind();
        self.ops.push(op.clone());
        rep.count(&format!("op:{}", KINDS[op.kind()]));
        match &op {
            Op::New => {
                *self = Run {
                    kinds: self.kinds,
                    ops: std::mem::take(&mut self.ops),
                    seen: std::mem::take(&mut self.seen),
                    old_len: self.len(),
                    ..Run::new(self.name)
                };
            }
            Op::Push(d) => {
                self.tree_push(rep, d);
                self.model_push(d);
            }
            Op::PushMany { salt, m } => {
                for j in 0..*m {
                    let d = many_leaf(*salt, j);
                    self.tree_push(rep, &d);
                    self.model_push(&d);
                }
            }
            Op::Reset => {
                let res = match &mut self.tree {
                    Tree::Mem(t) => guarded(|| t.reset()),
                    Tree::Stor { tree, .. } => guarded(|| tree.reset()),
                };
                self.old_len = self.len();
                self.memo.clear();
                self.datas.clear();
                self.had_reset = true;
                if let Err(p) = res {
                    self.violation(rep, &format!("reset panicked|{}", panic_msg(&p)), format!("reset panicked: {}", p.text));
                }
            }
            Op::Root | Op::LeavesCount => {}
            Op::Prove => self.probe(rep),
            Op::Load(k) => {
                let k = *k;
                if k as usize > self.len() {
                    // a count the tree did not stand at since the last reset: outside the property
                    rep.count("unjudged_load_at_unrecorded_count");
                    self.ops.pop();
                    return;
                }
                let Tree::Stor { storage, .. } = &self.tree else {
                    self.ops.pop();
                    return;
                };
                let st = storage.clone();
                let res = guarded(|| StorTree::load(st, k).map_err(|e| format!("{e:?}")));
                match res {
                    Ok(Ok(t)) => {
                        if let Tree::Stor { tree, .. } = &mut self.tree {
                            *tree = t;
                        }
                        self.old_len = self.len();
                        self.memo.truncate(k as usize);
                        self.datas.truncate(k as usize);
                        self.had_load = true;
                    }
                    Ok(Err(e)) => {
                        self.had_load = true;
                        self.violation(rep, "load at a recorded count failed", format!("load(storage, {k}) returned {e}"));
                    }
                    Err(p) => {
                        self.had_load = true;
                        self.violation(rep, &format!("load panicked|{}", panic_msg(&p)), format!("load(storage, {k}) panicked: {}", p.text));
                    }
                }
            }
        }
        self.compare(rep);
    }

    /// root and leaves_count after every operation
    fn compare(&mut self, rep: &mut Report) {
        rep.eval();
        let n = self.len();
        rep.class(format!("{}|ops={}|len={}|after-op", self.name, self.kinds_str(), bucket(n as u64)));
        let want = self.memo.root(n);
        let got = match &self.tree {
            Tree::Mem(t) => guarded(|| t.root()),
            Tree::Stor { tree, .. } => guarded(|| tree.root()),
        };
        match got {
            Ok(h) if h == want => {}
            Ok(h) => self.violation(rep, "root != model", format!("root() is {} but a fresh tree over the model's {n} leaves has root {}", hx(h), hx(want))),
            Err(p) => self.violation(rep, &format!("root panicked|{}", panic_msg(&p)), format!("root() panicked: {}", p.text)),
        }
        if let Tree::Stor { tree, .. } = &self.tree {
            match guarded(|| tree.leaves_count()) {
                Ok(c) if c == n as u64 => {}
                Ok(c) => self.violation(rep, "leaves_count != model", format!("leaves_count() is {c} but the model holds {n} leaves")),
                Err(p) => self.violation(rep, &format!("leaves_count panicked|{}", panic_msg(&p)), p.text.clone()),
            }
        }
    }

    /// `prove` at {0, len-1, len, old_len-1, old_len, 2*len}
    fn probe(&mut self, rep: &mut Report) {
        let n = self.len() as u64;
        let o = self.old_len as u64;
        let probes: [(&str, Option<u64>); 6] = [
            ("0", Some(0)),
            ("len-1", n.checked_sub(1)),
            ("len", Some(n)),
            ("old_len-1", o.checked_sub(1)),
            ("old_len", Some(o)),
            ("2len", Some(2 * n)),
        ];
        for (pname, idx) in probes {
            let Some(i) = idx else { continue };
            rep.eval();
            let inside = i < n;
            rep.count(if inside { "probes_in_range" } else { "probes_out_of_range" });
            rep.class(format!(
                "{}|ops={}|len={}|probe={pname}:{}",
                self.name,
                self.kinds_str(),
                bucket(n),
                if inside { "in" } else { "out" }
            ));
            let got: Result<Result<(H, Vec<H>), String>, Panicked> = match &self.tree {
                Tree::Mem(t) => guarded(|| t.prove(i).ok_or_else(|| "None".to_string())),
                Tree::Stor { tree, .. } => guarded(|| tree.prove(i).map_err(|e| format!("Err({e:?})"))),
            };
            if !inside {
                match got {
                    Ok(Err(_)) => {}
                    Ok(Ok((_, p))) => self.violation(
                        rep,
                        "prove(i>=len) returned a proof",
                        format!("prove({i}) returned a proof of {} elements although the tree holds {n} leaves", p.len()),
                    ),
                    Err(p) => self.violation(
                        rep,
                        &format!("prove(i>=len) panicked|{}", panic_msg(&p)),
                        format!("prove({i}) with {n} leaves panicked: {}", p.text),
                    ),
                }
                continue;
            }
            match got {
                Err(p) => self.violation(
                    rep,
                    &format!("prove(i<len) panicked|{}", panic_msg(&p)),
                    format!("prove({i}) with {n} leaves panicked: {}", p.text),
                ),
                Ok(Err(e)) => self.violation(rep, "prove(i<len) refused", format!("prove({i}) with {n} leaves returned {e}")),
                Ok(Ok((root, proof))) => {
                    let want_root = self.memo.root(n as usize);
                    let want_path = self.memo.path(i as usize, n as usize);
                    let mut ok = true;
                    if root != want_root {
                        ok = false;
                        self.violation(
                            rep,
                            "prove(i<len) root != model",
                            format!("prove({i}) returned root {} but a fresh tree over the model's {n} leaves has root {}", hx(root), hx(want_root)),
                        );
                    }
                    if proof != want_path {
                        ok = false;
                        self.violation(
                            rep,
                            "proof != reference path",
                            format!(
                                "prove({i}) with {n} leaves returned {} elements, the audit path of a fresh tree has {}{}",
                                proof.len(),
                                want_path.len(),
                                if proof.len() == want_path.len() { " (elements differ)" } else { "" }
                            ),
                        );
                    }
                    if ok {
                        let d = &self.datas[i as usize];
                        let refv = r::verify(&root, d, &proof, i, n);
                        let implv = guarded(|| binary::verify(&root, d, &proof, i, n));
                        if !refv || !matches!(implv, Ok(true)) {
                            self.violation(
                                rep,
                                "returned proof does not verify",
                                format!("prove({i}) with {n} leaves: reference verifier {refv}, binary::verify {:?}", implv.map_err(|p| p.text)),
                            );
                        }
                    }
                }
            }
        }
    }
}

/// next operation for the current state
fn gen_op(rng: &mut Rng, run: &Run, p_push: u64, allow_many: u32) -> Op {
    let stor = run.name == STOR;
    if allow_many > 0 && run.ops.len() < 3 && rng.chance(1, 2) {
        return Op::PushMany { salt: rng.u32(), m: rng.range(1, allow_many as u64) as u32 };
    }
    if rng.below(100) < p_push {
        let d = match rng.below(6) {
            0 => vec![],
            1 => vec![rng.u8()],
            2 => rng.bytes(32),
            3 => {
                let mut v = rng.bytes(65);
                v[0] = 1;
                v
            }
            _ => {
                let n = rng.usize_below(40);
                rng.bytes(n)
            }
        };
        return Op::Push(d);
    }
    {
        match rng.below(if stor { 20 } else { 12 }) {
            0..=3 => Op::Reset,
            4..=5 => Op::Root,
            6..=11 => Op::Prove,
            12..=13 => Op::LeavesCount,
            14 => Op::New,
            _ => {
                // a recorded count: the current one, zero, one below, or any
                let n = run.len() as u64;
                let k = match rng.below(6) {
                    0 => n,
                    1 => 0,
                    2 => n.saturating_sub(1),
                    3 => n / 2,
                    _ => rng.range(0, n),
                };
                Op::Load(k)
            }
        }
    }
}

fn history(rep: &mut Report, cfg: &Cfg, name: &'static str, worker: usize, idx: u64) {
    let global = idx * cfg.threads.max(1) as u64 + worker as u64;
    let mut rng = Rng::derive(cfg.seed, if name == MEM { 0x11_00 } else { 0x11_01 }, global);
    let mut run = Run::new(name);
    let nops = rng.range(1, 60);
    let p_push = *rng.pick(&[35u64, 50, 65, 80]);
    let allow_many = if idx % 16 == 5 { if cfg.thorough { 2000 } else { 300 } } else { 0 };
    for _ in 0..nops {
        let op = gen_op(&mut rng, &run, p_push, allow_many);
        run.step(rep, op);
    }
    // always end with a probe so that every history observes proofs
    run.step(rep, Op::Prove);
    rep.count("histories");
    rep.max("max_len_reached", run.len() as u64);
    if idx < 2 && worker == 0 {
        rep.sample(|| json!({"what":"a generated history (all checks passed unless listed under violations)","history":run.replay(),"final_len":run.len()}));
    }
}

fn replay(rec: &Value) -> Report {
    let mut rep = Report::new();
    let name = match rec.get("impl").and_then(|v| v.as_str()) {
        Some(MEM) => MEM,
        Some(STOR) => STOR,
        _ => {
            rep.inconclusive = Some("unknown C11 replay record".into());
            return rep;
        }
    };
    let ops: Option<Vec<Op>> = rec.get("ops").and_then(|o| o.as_array()).and_then(|a| a.iter().map(Op::from_json).collect());
    let Some(ops) = ops else {
        rep.inconclusive = Some("malformed C11 replay record".into());
        return rep;
    };
    let mut run = Run::new(name);
    for op in ops {
        if name == MEM && matches!(op, Op::New | Op::LeavesCount | Op::Load(_)) {
            continue;
        }
        run.step(&mut rep, op);
    }
    let lc = match &run.tree {
        Tree::Stor { tree, .. } => format!("{}", tree.leaves_count()),
        _ => "n/a".into(),
    };
    rep.note(format!(
        "replayed {} operations on {name}: model holds {} leaves, leaves_count() = {lc}, root matches model: {:?}",
        run.ops.len(),
        run.len(),
        match &run.tree {
            Tree::Mem(t) => guarded(|| t.root()),
            Tree::Stor { tree, .. } => guarded(|| tree.root()),
        }
        .map(|h| h == run.memo.root(run.len()))
        .map_err(|p| p.text)
    ));
    rep
}

pub fn run(cfg: &Cfg) -> Report {
    let rule = "class = (implementation, set of operation kinds used in the history so far, model length bucket, probe class {0,len-1,len,old_len-1,old_len,2len} x {in,out of range} or after-op root/leaves_count comparison)";
    if let Some(rec) = &cfg.replay {
        let mut rep = replay(rec);
        rep.rule = rule.into();
        return rep;
    }
    let total = cfg.budget(40_000, 3_000_000);
    let threads = cfg.threads.max(1) as u64;
    let per_worker = total.div_ceil(threads);
    let mut rep = par(cfg.threads, |w| {
        let mut rep = Report::new();
        for idx in 0..per_worker {
            // one third in-memory, two thirds storage-backed (it has the larger interface)
            let name = if idx % 3 == 0 { MEM } else { STOR };
            history(&mut rep, cfg, name, w, idx);
        }
        rep
    });
    rep.rule = rule.into();
    rep.assume("reference: RFC 6962 MTH / PATH by the recursive definitions (refmodel::rfc6962), sha2 crate trusted");
    rep.assume("model: leaves pushed since the last reset, truncated to k by load(storage, k); load only at counts the tree stood at since the last reset (= 0..=len)");
    rep.note("signature = C11|<implementation>|<phase>|<what>; phase is 'after reset' once the current tree object has been reset, else 'after load' once it has been re-loaded, else 'no reset or load'");
    for k in KINDS {
        rep.gate(&format!("op:{k}"), rep.counter(&format!("op:{k}")), 100);
    }
    rep.gate("probes_in_range", rep.counter("probes_in_range"), 10_000);
    rep.gate("probes_out_of_range", rep.counter("probes_out_of_range"), 10_000);
    rep.gate("classes", rep.classes.len() as u64, 500);
    rep
}
