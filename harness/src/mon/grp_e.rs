//! Shared driver of the interpreter-level monitors (DESIGN section 4, Group E): builds
//! scenarios, runs each transaction once plainly and once on the step bus with the
//! property's step monitors, and only merges the step monitors' verdicts when both runs
//! agree (a disagreement is C32's business and makes the case inconclusive here).

use crate::{
    Cfg,
    Report,
    Rng,
    hx,
    par,
    prog,
    scenario::{
        self,
        Scenario,
        ScenarioOpts,
    },
    stepbus::{
        BusOpts,
        StepMonitor,
        run_stepped,
    },
    world::{
        Outcome,
        run_plain,
    },
};
use serde_json::{
    Value,
    json,
};

pub struct Drive<'a> {
    pub prop: &'a str,
    pub stream: u64,
    pub quick: u64,
    pub thorough: u64,
    pub bus: BusOpts,
    /// scenario options for case `idx` (lets a monitor cycle schedules / weights)
    pub opts: &'a (dyn Fn(u64, &mut Rng) -> ScenarioOpts + Sync),
    /// fresh step monitors for one case
    pub monitors: &'a (dyn Fn(&Scenario) -> Vec<Box<dyn StepMonitor>> + Sync),
    /// optional extra check on the final outcomes (plain, stepped)
    pub after: Option<&'a (dyn Fn(&Scenario, &Outcome, &Outcome, &Value, &mut Report) + Sync)>,
}

pub fn outcomes_equal(a: &Outcome, b: &Outcome) -> Option<String> {
    if a.state != b.state {
        return Some(format!("state {:?} vs {:?}", a.state, b.state));
    }
    if a.receipts != b.receipts {
        return Some(format!("receipts differ ({} vs {})", a.receipts.len(), b.receipts.len()));
    }
    // `Receipt`'s equality ignores the panic receipt's contract id (and the payload
    // copies): compare those through the accessors
    if a.receipts.len() <= 4096 {
        let extra = |o: &Outcome| -> Vec<(Option<fuel_types::ContractId>, Option<Vec<u8>>)> {
            o.receipts
                .iter()
                .map(|r| (if matches!(r, fuel_tx::Receipt::Panic { .. }) { r.contract_id().copied() } else { None }, r.data().map(|d| d.to_vec())))
                .collect()
        };
        if extra(a) != extra(b) {
            return Some("receipts differ in fields their equality ignores (panic contract id / data payload)".into());
        }
    }
    if a.tx != b.tx {
        return Some("output transaction differs".into());
    }
    if a.storage_fp != b.storage_fp {
        return Some("storage differs".into());
    }
    None
}

pub fn replay_record(cfg_seed: u64, stream: u64, worker: u64, idx: u64, sc: &Scenario) -> Value {
    json!({
        "seed": cfg_seed, "stream": stream, "worker": worker, "index": idx,
        "scenario": sc.info,
        "script": hx(&sc.spec.script),
        "script_disasm": prog::disasm(&sc.spec.script, 60),
        "gas_limit": sc.spec.gas_limit,
    })
}

fn one_case(d: &Drive, cfg_seed: u64, worker: u64, idx: u64, rep: &mut Report) {
    let mut rng = Rng::derive(cfg_seed ^ (d.stream << 32), worker, idx);
    let o = (d.opts)(idx, &mut rng);
    let sc = scenario::build(&mut rng, &o);
    let replay = replay_record(cfg_seed, d.stream, worker, idx, &sc);
    let ready = match sc.spec.ready(&sc.world, idx) {
        Ok(r) => r,
        Err(e) => {
            rep.count("generated_tx_rejected_by_checks");
            if rep.counter("generated_tx_rejected_by_checks") <= 3 {
                rep.note(format!("example rejection: {}", &e[..e.len().min(160)]));
            }
            return;
        }
    };
    rep.eval();
    let (plain, _vm) = run_plain(&sc.world, ready.clone());
    let mut mons = (d.monitors)(&sc);
    let mut case_rep = Report::new();
    let bus = {
        let mut refs: Vec<&mut dyn StepMonitor> = mons.iter_mut().map(|m| m.as_mut() as &mut dyn StepMonitor).collect();
        run_stepped(&sc.world, ready, &d.bus, &mut refs, &mut case_rep)
    };
    rep.count_n("steps_monitored", bus.steps);
    if bus.truncated {
        rep.count("runs_truncated_at_step_cap");
        // monitors saw a valid prefix: their per-step verdicts stand
        merge_case(rep, case_rep, &replay);
        return;
    }
    match outcomes_equal(&plain, &bus.outcome) {
        None => {
            merge_case(rep, case_rep, &replay);
            if let Some(f) = d.after {
                f(&sc, &plain, &bus.outcome, &replay, rep);
            }
        }
        Some(diff) => {
            rep.count("stepped_run_differs_from_plain_run");
            rep.note(format!("stepped vs plain run differ ({diff}); step verdicts of that case discarded, see C32"));
            if d.prop == "C32" {
                rep.violation("C32|single-stepping|final result differs from plain run", diff, || replay.clone());
            }
        }
    }
    match &plain.state {
        Ok(s) => {
            let c = state_class(s, &plain);
            rep.count(&format!("end_{c}"));
            rep.class(format!("end={c}"))
        }
        Err(e) => rep.class(format!("end=error:{}", &e[..e.len().min(40)])),
    }
    if idx < 2 && worker == 0 {
        rep.sample(|| json!({"case": replay, "end_state": format!("{:?}", plain.state), "receipts": plain.receipts.len(), "steps": bus.steps}));
    }
}

pub fn state_class(s: &fuel_vm::state::ProgramState, out: &Outcome) -> String {
    use fuel_vm::state::ProgramState::*;
    let panic = out.receipts.iter().find_map(|r| match r {
        fuel_tx::Receipt::Panic { reason, .. } => Some(format!("{:?}", reason.reason())),
        _ => None,
    });
    match (s, panic) {
        (_, Some(p)) => format!("panic:{p}"),
        (Return(_), _) => "return".into(),
        (ReturnData(_), _) => "returndata".into(),
        (Revert(_), _) => "revert".into(),
        _ => "debug".into(),
    }
}

fn merge_case(rep: &mut Report, mut case: Report, replay: &Value) {
    // attach the case record to violations that did not carry one
    for v in case.violations.iter_mut() {
        if v.replay.is_null() {
            v.replay = replay.clone();
        } else if v.replay.get("case").is_none() {
            v.replay["case"] = replay.clone();
        }
    }
    rep.merge(case);
}

pub fn drive(cfg: &Cfg, d: &Drive) -> Report {
    if let Some(r) = &cfg.replay {
        let c = r.get("case").unwrap_or(r);
        let mut rep = Report::new();
        let seed = c["seed"].as_u64().unwrap_or(0);
        let worker = c["worker"].as_u64().unwrap_or(0);
        let idx = c["index"].as_u64().unwrap_or(0);
        one_case(d, seed, worker, idx, &mut rep);
        rep.note(format!("replayed case seed={seed} worker={worker} index={idx}"));
        return rep;
    }
    let total = cfg.budget(d.quick, d.thorough);
    let per = (total / cfg.threads as u64).max(1);
    let from: u64 = cfg.opt("drive-from").and_then(|s| s.parse().ok()).unwrap_or(0);
    let mut rep = par(cfg.threads, |w| {
        let mut rep = Report::new();
        for idx in from..per {
            crate::progress(0, idx);
            one_case(d, cfg.seed, w as u64, idx, &mut rep);
        }
        rep
    });
    rep.assume("program generator: grammar-based scripts and contracts (src/prog.rs) over a MemoryStorage world (src/scenario.rs); transactions built with the repository's TransactionBuilder");
    rep.assume("observation at instruction boundaries through the debugger's single-stepping; every stepped run is paired with a plain run and discarded if they differ (C32)");
    rep.gate("steps_monitored", rep.counter("steps_monitored"), 1000);
    rep
}
