//! C35 Bytecode upload, blob, deployment and upgrade state evolve as specified.
//!
//! Histories of Create / Blob / Upload / Upgrade transactions are executed through
//! `Transactor::{deploy, blob, upload, upgrade}` (a `Checked` transaction) or
//! `Interpreter::{deploy, blob, upload, upgrade}` (a `Ready` transaction, reached through
//! the transactor's `*_ready_*` pass-through) over ONE `MemoryStorage` that lives across
//! the history. These entry points neither commit nor revert; the storage is used exactly
//! as they leave it. Block progress is emulated between transactions with the test-helper
//! setters of the two current versions. After every transaction the result (Ok / Err) and
//! ALL tables are compared with `refmodel::tables`; additionally, after a failed
//! transaction the tables are compared with a snapshot taken just before it.
//!
//! Signatures:
//! * `C35|<tx kind>|failed <reason class>|<table> changed` — a table changed although
//!   the transaction failed (reason class = panic reason, `Overriding*` for the two
//!   overriding reasons);
//! * `C35|<tx kind>|ok (<situation>)|<table> != model` — accepted, but the tables differ
//!   from the model;
//! * `C35|<tx kind>|accepted|model rejects: <reason> (<situation>)`;
//! * `C35|<tx kind>|rejected <reason class>|model accepts (<situation>)`;
//! * `C35|<tx kind>|internal Bug|<variant>`, `C35|<tx kind>|panicked|<message>`,
//!   `C35|<tx kind>|unexpected error kind|<variant>`.
use crate::{
    Cfg,
    Panicked,
    Report,
    Rng,
    guarded,
    hx,
    par,
    refmodel::{
        rfc6962,
        sha256,
        tables::{
            self,
            Reject,
            Tables,
            UploadEntry,
        },
    },
    unhx,
    world::secret,
};
use fuel_asm::op;
use fuel_storage::StorageInspect;
use fuel_tx::{
    BlobBody,
    ConsensusParameters,
    Finalizable,
    Input,
    Output,
    Script,
    policies::Policies,
    StorageSlot,
    Transaction,
    TransactionBuilder,
    TxPointer,
    UpgradePurpose,
    UploadBody,
    UploadSubsection,
    UtxoId,
};
use fuel_types::{
    Address,
    BlobId,
    BlockHeight,
    Bytes32,
    ChainId,
    ContractId,
    Salt,
};
use fuel_vm::{
    checked_transaction::{
        CheckError,
        Checked,
        IntoChecked,
    },
    error::InterpreterError,
    interpreter::{
        InterpreterParams,
        MemoryInstance,
    },
    transactor::Transactor,
    storage::{
        BlobData,
        ContractsRawCode,
        InterpreterStorage,
        MemoryStorage,
        UploadedBytecode,
        UploadedBytecodes,
    },
};
use serde_json::{
    Value,
    json,
};
use std::{
    cell::Cell,
    collections::{
        BTreeMap,
        BTreeSet,
    },
    convert::Infallible,
};

type H = [u8; 32];
type Model = Tables<ConsensusParameters>;
type Tr = Transactor<MemoryInstance, MemoryStorage, Script>;
type IErr = InterpreterError<Infallible>;

const KINDS: [&str; 5] = ["Create", "Blob", "Upload", "Upgrade(ConsensusParameters)", "Upgrade(StateTransition)"];
const AMOUNT: u64 = 1000;

// ---------------------------------------------------------------------------------------
// operations of a history
// ---------------------------------------------------------------------------------------

/// How the transaction is authorised and which entry point executes it.
#[derive(Clone, Copy, Debug, PartialEq)]
struct How {
    /// fee input: signed coin (full `into_checked`) or predicate coin (`into_checked_basic`)
    signed: bool,
    /// `Interpreter::x(Ready)` instead of `Transactor::x(Checked)`
    ready: bool,
}

/// Consensus-parameter value = the standard parameters with these fields replaced.
#[derive(Clone, Debug, PartialEq)]
struct Tweak {
    chain_id: u64,
    block_gas_limit: u64,
    privileged: H,
}

impl Tweak {
    fn value(&self) -> ConsensusParameters {
        let mut p = ConsensusParameters::standard();
        p.set_chain_id(ChainId::new(self.chain_id));
        p.set_block_gas_limit(self.block_gas_limit);
        p.set_privileged_address(Address::new(self.privileged));
        p
    }
}

#[derive(Clone, Debug)]
enum Op {
    Create { salt: H, code: Vec<u8>, slots: Vec<(H, H)>, how: How },
    Blob { data: Vec<u8>, bad_id: bool, how: How },
    Upload { root: H, index: u16, number: u16, proof: Vec<H>, part: Vec<u8>, how: How },
    UpgradeCp { tweak: Tweak, bad_checksum: bool, privileged: bool, how: How },
    UpgradeSt { root: H, privileged: bool, how: How },
    /// block progress: the test-helper setters
    SetCpVersion(u32),
    SetStVersion(u32),
}

fn how_json(h: &How) -> Value {
    json!({"fee_input": if h.signed {"signed coin"} else {"predicate coin"}, "via": if h.ready {"Interpreter(Ready)"} else {"Transactor(Checked)"}})
}

fn how_from(v: &Value) -> Option<How> {
    Some(How {
        signed: v.get("fee_input")?.as_str()? == "signed coin",
        ready: v.get("via")?.as_str()? == "Interpreter(Ready)",
    })
}

fn h32(v: &Value) -> Option<H> {
    unhx(v.as_str()?).try_into().ok()
}

impl Op {
    fn kind(&self) -> Option<usize> {
        Some(match self {
            Op::Create { .. } => 0,
            Op::Blob { .. } => 1,
            Op::Upload { .. } => 2,
            Op::UpgradeCp { .. } => 3,
            Op::UpgradeSt { .. } => 4,
            _ => return None,
        })
    }

    fn how(&self) -> Option<&How> {
        match self {
            Op::Create { how, .. } | Op::Blob { how, .. } | Op::Upload { how, .. } | Op::UpgradeCp { how, .. } | Op::UpgradeSt { how, .. } => Some(how),
            _ => None,
        }
    }

    fn to_json(&self) -> Value {
        match self {
            Op::Create { salt, code, slots, how } => json!({
                "op":"create","salt":hx(salt),"code":hx(code),
                "slots":slots.iter().map(|(k,v)| json!([hx(k),hx(v)])).collect::<Vec<_>>(),
                "how":how_json(how)}),
            Op::Blob { data, bad_id, how } => json!({"op":"blob","data":hx(data),"bad_id":bad_id,"how":how_json(how)}),
            Op::Upload { root, index, number, proof, part, how } => json!({
                "op":"upload","root":hx(root),"subsection_index":index,"subsections_number":number,
                "proof_set":proof.iter().map(hx).collect::<Vec<_>>(),"subsection":hx(part),"how":how_json(how)}),
            Op::UpgradeCp { tweak, bad_checksum, privileged, how } => json!({
                "op":"upgrade_consensus_parameters",
                "value":{"base":"ConsensusParameters::standard()","chain_id":tweak.chain_id,"block_gas_limit":tweak.block_gas_limit,"privileged_address":hx(tweak.privileged)},
                "bad_checksum":bad_checksum,"privileged_input":privileged,"how":how_json(how)}),
            Op::UpgradeSt { root, privileged, how } => json!({"op":"upgrade_state_transition","root":hx(root),"privileged_input":privileged,"how":how_json(how)}),
            Op::SetCpVersion(v) => json!({"op":"set_consensus_parameters_version","to":v}),
            Op::SetStVersion(v) => json!({"op":"set_state_transition_version","to":v}),
        }
    }

    fn from_json(v: &Value) -> Option<Op> {
        let how = || v.get("how").and_then(how_from);
        Some(match v.get("op")?.as_str()? {
            "create" => Op::Create {
                salt: h32(v.get("salt")?)?,
                code: unhx(v.get("code")?.as_str()?),
                slots: v
                    .get("slots")?
                    .as_array()?
                    .iter()
                    .map(|p| Some((h32(p.get(0)?)?, h32(p.get(1)?)?)))
                    .collect::<Option<Vec<_>>>()?,
                how: how()?,
            },
            "blob" => Op::Blob { data: unhx(v.get("data")?.as_str()?), bad_id: v.get("bad_id")?.as_bool()?, how: how()? },
            "upload" => Op::Upload {
                root: h32(v.get("root")?)?,
                index: v.get("subsection_index")?.as_u64()? as u16,
                number: v.get("subsections_number")?.as_u64()? as u16,
                proof: v.get("proof_set")?.as_array()?.iter().map(h32).collect::<Option<Vec<_>>>()?,
                part: unhx(v.get("subsection")?.as_str()?),
                how: how()?,
            },
            "upgrade_consensus_parameters" => {
                let val = v.get("value")?;
                Op::UpgradeCp {
                    tweak: Tweak {
                        chain_id: val.get("chain_id")?.as_u64()?,
                        block_gas_limit: val.get("block_gas_limit")?.as_u64()?,
                        privileged: h32(val.get("privileged_address")?)?,
                    },
                    bad_checksum: v.get("bad_checksum")?.as_bool()?,
                    privileged: v.get("privileged_input")?.as_bool()?,
                    how: how()?,
                }
            }
            "upgrade_state_transition" => Op::UpgradeSt { root: h32(v.get("root")?)?, privileged: v.get("privileged_input")?.as_bool()?, how: how()? },
            "set_consensus_parameters_version" => Op::SetCpVersion(v.get("to")?.as_u64()? as u32),
            "set_state_transition_version" => Op::SetStVersion(v.get("to")?.as_u64()? as u32),
            _ => return None,
        })
    }
}

// ---------------------------------------------------------------------------------------
// building valid transactions (gas price 0, one base-asset coin, one change output)
// ---------------------------------------------------------------------------------------

struct Env {
    /// privileged address = owner of the predicate coin
    params_pred: ConsensusParameters,
    /// privileged address = owner of the signed coin
    params_key: ConsensusParameters,
    /// privileged address = nobody's
    params_none: ConsensusParameters,
    predicate: Vec<u8>,
    predicate_owner: Address,
    height: BlockHeight,
}

impl Env {
    fn new() -> Self {
        let predicate: Vec<u8> = vec![op::ret(1)].into_iter().collect();
        let predicate_owner = Input::predicate_owner(&predicate);
        let key_owner = Input::owner(&secret(0).public_key());
        let with = |a: Address| {
            let mut p = ConsensusParameters::standard();
            p.set_privileged_address(a);
            p
        };
        Env {
            params_pred: with(predicate_owner),
            params_key: with(key_owner),
            params_none: with(Address::new([0x77; 32])),
            predicate,
            predicate_owner,
            height: 1u32.into(),
        }
    }

    fn params(&self, how: &How, privileged: bool) -> &ConsensusParameters {
        if !privileged {
            &self.params_none
        } else if how.signed {
            &self.params_key
        } else {
            &self.params_pred
        }
    }

    /// add the fee input and change output, finalize and check
    fn finish<Tx>(&self, b: &mut TransactionBuilder<Tx>, how: &How, params: &ConsensusParameters, n: u64, phase: &Cell<u8>) -> Result<Checked<Tx>, CheckError>
    where
        Tx: fuel_tx::Buildable + fuel_tx::field::Outputs + IntoChecked,
        Checked<Tx>: fuel_vm::checked_transaction::CheckPredicates,
    {
        let base = *params.base_asset_id();
        let utxo = UtxoId::new(Bytes32::new(sha256(&[b"c35-utxo", &n.to_be_bytes()])), 0);
        b.with_params(params.clone());
        b.max_fee_limit(0);
        if how.signed {
            b.add_unsigned_coin_input(secret(0), utxo, AMOUNT, base, TxPointer::default());
            b.add_output(Output::change(Input::owner(&secret(0).public_key()), 0, base));
            let tx = b.finalize();
            phase.set(PHASE_CHECK);
            tx.into_checked(self.height, params)
        } else {
            b.add_input(Input::coin_predicate(utxo, self.predicate_owner, AMOUNT, base, TxPointer::default(), 0, self.predicate.clone(), vec![]));
            b.add_output(Output::change(self.predicate_owner, 0, base));
            let tx = b.finalize();
            phase.set(PHASE_CHECK);
            tx.into_checked_basic(self.height, params)
        }
    }
}

/// Outcome of handing a transaction to the code under test.
enum Res {
    /// the validity layer refused it (before any table access)
    CheckRejected(String),
    Executed(Result<(), IErr>),
}

fn check_err_name(e: &CheckError) -> String {
    let s = format!("{e:?}");
    // variant names only (no concrete values)
    let s = s.replace("Validity(", "Validity:");
    s.split(|c: char| c == '(' || c == '{' || c == ' ' || c == ')').next().unwrap_or("").to_string()
}

const PHASE_BUILD: u8 = 0;
const PHASE_CHECK: u8 = 1;
const PHASE_EXEC: u8 = 2;

fn run_op(env: &Env, tr: &mut Tr, op: &Op, n: u64, phase: &Cell<u8>) -> Res {
    phase.set(PHASE_BUILD);
    let gc = env.params_pred.gas_costs().clone();
    let fp = *env.params_pred.fee_params();
    macro_rules! exec {
        ($checked:expr, $how:expr, $via_checked:ident, $via_ready:ident) => {{
            let checked = match $checked {
                Ok(c) => c,
                Err(e) => return Res::CheckRejected(check_err_name(&e)),
            };
            if $how.ready {
                match checked.into_ready(0, &gc, &fp, None) {
                    Ok(r) => {
                        phase.set(PHASE_EXEC);
                        Res::Executed(tr.$via_ready(r).map(|_| ()))
                    }
                    Err(e) => Res::CheckRejected(check_err_name(&e)),
                }
            } else {
                phase.set(PHASE_EXEC);
                Res::Executed(tr.$via_checked(checked).map(|_| ()))
            }
        }};
    }
    match op {
        Op::Create { salt, code, slots, how } => {
            let params = env.params(how, true);
            let id = tables::contract_id(salt, code, slots);
            let sr = tables::state_root(slots);
            let sl: Vec<StorageSlot> = slots.iter().map(|(k, v)| StorageSlot::new(Bytes32::new(*k), Bytes32::new(*v))).collect();
            let mut b = TransactionBuilder::create(code.clone().into(), Salt::new(*salt), sl);
            b.add_output(Output::contract_created(ContractId::new(id), Bytes32::new(sr)));
            exec!(env.finish(&mut b, how, params, n, phase), how, deploy, deploy_ready_tx)
        }
        Op::Blob { data, bad_id, how } => {
            let params = env.params(how, true);
            let mut id = tables::blob_id(data);
            if *bad_id {
                id[31] ^= 1;
            }
            let mut b = TransactionBuilder::blob(BlobBody { id: BlobId::new(id), witness_index: 0 });
            b.add_witness(data.clone().into());
            exec!(env.finish(&mut b, how, params, n, phase), how, blob, execute_ready_blob_tx)
        }
        Op::Upload { root, index, number, proof, part, how } => {
            let params = env.params(how, true);
            let mut b = TransactionBuilder::upload(UploadBody {
                root: Bytes32::new(*root),
                witness_index: 0,
                subsection_index: *index,
                subsections_number: *number,
                proof_set: proof.iter().map(|p| Bytes32::new(*p)).collect(),
            });
            b.add_witness(part.clone().into());
            exec!(env.finish(&mut b, how, params, n, phase), how, upload, execute_ready_upload_tx)
        }
        Op::UpgradeCp { tweak, bad_checksum, privileged, how } => {
            let params = env.params(how, *privileged);
            let bytes = postcard::to_allocvec(&tweak.value()).expect("serialize consensus parameters");
            let mut checksum = sha256(&[&bytes]);
            if *bad_checksum {
                checksum[0] ^= 0x80;
            }
            let purpose = UpgradePurpose::ConsensusParameters { witness_index: 0, checksum: Bytes32::new(checksum) };
            if *bad_checksum {
                // the builder's finalize insists on computable metadata: plain constructor
                let base = *params.base_asset_id();
                let utxo = UtxoId::new(Bytes32::new(sha256(&[b"c35-utxo", &n.to_be_bytes()])), 0);
                let tx = Transaction::upgrade(
                    purpose,
                    Policies::new().with_max_fee(0),
                    vec![Input::coin_predicate(utxo, env.predicate_owner, AMOUNT, base, TxPointer::default(), 0, env.predicate.clone(), vec![])],
                    vec![Output::change(env.predicate_owner, 0, base)],
                    vec![bytes.into()],
                );
                phase.set(PHASE_CHECK);
                let how = &How { signed: false, ready: how.ready };
                return exec!(tx.into_checked_basic(env.height, params), how, upgrade, execute_ready_upgrade_tx);
            }
            let mut b = TransactionBuilder::upgrade(purpose);
            b.add_witness(bytes.into());
            exec!(env.finish(&mut b, how, params, n, phase), how, upgrade, execute_ready_upgrade_tx)
        }
        Op::UpgradeSt { root, privileged, how } => {
            let params = env.params(how, *privileged);
            let mut b = TransactionBuilder::upgrade(UpgradePurpose::StateTransition { root: Bytes32::new(*root) });
            exec!(env.finish(&mut b, how, params, n, phase), how, upgrade, execute_ready_upgrade_tx)
        }
        Op::SetCpVersion(_) | Op::SetStVersion(_) => unreachable!("not a transaction"),
    }
}

// ---------------------------------------------------------------------------------------
// observing the implementation's tables
// ---------------------------------------------------------------------------------------

/// Keys probed in the tables that cannot be enumerated (contracts, blobs).
#[derive(Default, Clone)]
struct Universe {
    contracts: BTreeSet<H>,
    blobs: BTreeSet<H>,
    roots: BTreeSet<H>,
}

/// Read all tables of the storage into the model's shape. Contracts and blobs are read
/// through the storage traits at every id of the universe, the upload table through the
/// trait at every known root *and* completely through the test-helper accessor (the two
/// views must agree), contract state and the version maps completely.
fn observe(st: &mut MemoryStorage, uni: &Universe, incoherent: &mut Vec<String>) -> Model {
    let mut t = Model::new(
        st.consensus_parameters_version().expect("infallible"),
        st.state_transition_version().expect("infallible"),
    );
    let s: &MemoryStorage = &*st;
    for id in uni.contracts.iter() {
        let key = ContractId::new(*id);
        let got = <MemoryStorage as StorageInspect<ContractsRawCode>>::get(s, &key).expect("infallible");
        let has = <MemoryStorage as StorageInspect<ContractsRawCode>>::contains_key(s, &key).expect("infallible");
        if has != got.is_some() {
            incoherent.push(format!("contracts: contains_key({}) = {has} but get is_some = {}", hx(id), got.is_some()));
        }
        if let Some(c) = got {
            let bytes: &[u8] = c.as_ref().as_ref();
            t.contracts.insert(*id, bytes.to_vec());
        }
    }
    for (k, v) in s.all_contract_state() {
        let kb: &[u8] = k.as_ref();
        let c: H = kb[..32].try_into().expect("32");
        let s: H = kb[32..].try_into().expect("32");
        let vb: &[u8] = v.as_ref();
        t.contract_state.insert((c, s), vb.to_vec());
    }
    for id in uni.blobs.iter() {
        let key = BlobId::new(*id);
        let got = <MemoryStorage as StorageInspect<BlobData>>::get(s, &key).expect("infallible");
        let has = <MemoryStorage as StorageInspect<BlobData>>::contains_key(s, &key).expect("infallible");
        if has != got.is_some() {
            incoherent.push(format!("blobs: contains_key({}) = {has} but get is_some = {}", hx(id), got.is_some()));
        }
        if let Some(b) = got {
            let bytes: &[u8] = b.as_ref().as_ref();
            t.blobs.insert(*id, bytes.to_vec());
        }
    }
    let conv = |u: &UploadedBytecode| match u {
        UploadedBytecode::Uncompleted { bytecode, uploaded_subsections_number } => UploadEntry::Uncompleted { bytes: bytecode.clone(), next: *uploaded_subsections_number },
        UploadedBytecode::Completed(b) => UploadEntry::Completed(b.clone()),
    };
    for (k, v) in st.state_transition_bytecodes_mut().iter() {
        t.uploads.insert(**k, conv(v));
    }
    for r in uni.roots.iter() {
        let got = <MemoryStorage as StorageInspect<UploadedBytecodes>>::get(&*st, &Bytes32::new(*r)).expect("infallible").map(|c| conv(c.as_ref()));
        if got.as_ref() != t.uploads.get(r) {
            incoherent.push(format!("uploads: StorageInspect::get({}) disagrees with state_transition_bytecodes_mut()", hx(r)));
        }
    }
    for (k, v) in st.consensus_parameters_versions_mut().iter() {
        t.consensus_parameters_versions.insert(*k, v.clone());
    }
    for (k, v) in st.state_transition_bytecodes_versions_mut().iter() {
        t.state_transition_versions.insert(*k, **v);
    }
    t
}

fn short(b: &[u8]) -> String {
    if b.len() <= 12 { hx(b) } else { format!("{}..({} B)", hx(&b[..8]), b.len()) }
}

fn upload_str(e: Option<&UploadEntry>) -> String {
    match e {
        None => "absent".into(),
        Some(UploadEntry::Uncompleted { bytes, next }) => format!("Uncompleted{{{} bytes, next index {next}}}", bytes.len()),
        Some(UploadEntry::Completed(b)) => format!("Completed({} bytes)", b.len()),
    }
}

/// Human description of the difference in one table (`a` = before / expected, `b` = after / observed).
fn describe(table: &str, a: &Model, b: &Model) -> String {
    fn keys<K: Ord + Clone, V: PartialEq>(a: &std::collections::BTreeMap<K, V>, b: &std::collections::BTreeMap<K, V>) -> Vec<K> {
        let mut ks: BTreeSet<K> = BTreeSet::new();
        for (k, v) in a.iter() {
            if b.get(k) != Some(v) {
                ks.insert(k.clone());
            }
        }
        for (k, v) in b.iter() {
            if a.get(k) != Some(v) {
                ks.insert(k.clone());
            }
        }
        ks.into_iter().take(3).collect()
    }
    let opt = |v: Option<&Vec<u8>>| v.map(|x| short(x)).unwrap_or("absent".into());
    match table {
        "contracts" => keys(&a.contracts, &b.contracts).iter().map(|k| format!("contract {}: {} -> {}", short(k), opt(a.contracts.get(k)), opt(b.contracts.get(k)))).collect::<Vec<_>>().join("; "),
        "contract_state" => keys(&a.contract_state, &b.contract_state).iter().map(|k| format!("contract {} slot {}: {} -> {}", short(&k.0), short(&k.1), opt(a.contract_state.get(k)), opt(b.contract_state.get(k)))).collect::<Vec<_>>().join("; "),
        "blobs" => keys(&a.blobs, &b.blobs).iter().map(|k| format!("blob {}: {} -> {}", short(k), opt(a.blobs.get(k)), opt(b.blobs.get(k)))).collect::<Vec<_>>().join("; "),
        "uploads" => keys(&a.uploads, &b.uploads).iter().map(|k| format!("root {}: {} -> {}", short(k), upload_str(a.uploads.get(k)), upload_str(b.uploads.get(k)))).collect::<Vec<_>>().join("; "),
        "consensus_parameters_versions" => keys(&a.consensus_parameters_versions, &b.consensus_parameters_versions)
            .iter()
            .map(|k| {
                let f = |p: Option<&ConsensusParameters>| p.map(|p| format!("parameters{{chain_id {}, block_gas_limit {}}}", u64::from(p.chain_id()), p.block_gas_limit())).unwrap_or("absent".into());
                format!("version {k}: {} -> {}", f(a.consensus_parameters_versions.get(k)), f(b.consensus_parameters_versions.get(k)))
            })
            .collect::<Vec<_>>()
            .join("; "),
        "state_transition_versions" => keys(&a.state_transition_versions, &b.state_transition_versions)
            .iter()
            .map(|k| {
                let f = |p: Option<&H>| p.map(|p| format!("root {}", short(p))).unwrap_or("absent".into());
                format!("version {k}: {} -> {}", f(a.state_transition_versions.get(k)), f(b.state_transition_versions.get(k)))
            })
            .collect::<Vec<_>>()
            .join("; "),
        _ => format!(
            "current versions ({}, {}) -> ({}, {})",
            a.consensus_parameters_version, a.state_transition_version, b.consensus_parameters_version, b.state_transition_version
        ),
    }
}

// ---------------------------------------------------------------------------------------
// one history under observation
// ---------------------------------------------------------------------------------------

struct Init {
    cp_version: u32,
    st_version: u32,
}

struct Run<'e> {
    env: &'e Env,
    tr: Tr,
    model: Model,
    uni: Universe,
    init: Init,
    ops: Vec<Op>,
    txs: u64,
    /// (signature, description) found in this history, each signature once
    found: Vec<(String, String)>,
    /// implementation and model diverged in a table the harness cannot put back
    dead: bool,
    /// last successfully installed versions (for the generator's block progress)
    last_cp_installed: Option<u32>,
    last_st_installed: Option<u32>,
    /// subsections the implementation accepted so far, per root (in acceptance order)
    accepted_parts: BTreeMap<H, Vec<Vec<u8>>>,
}

fn reason_class(e: &IErr) -> String {
    match e {
        InterpreterError::Panic(r) => {
            let s = format!("{r:?}");
            if s.starts_with("Overriding") { "Overriding*".into() } else { s }
        }
        InterpreterError::PanicInstruction(p) => format!("{:?}", p.reason()),
        InterpreterError::CheckError(_) => "CheckError".into(),
        InterpreterError::Bug(_) => "Bug".into(),
        other => format!("{other:?}").split(|c: char| !c.is_alphanumeric()).next().unwrap_or("").to_string(),
    }
}

fn reject_str(r: Reject) -> &'static str {
    match r {
        Reject::ContractExists => "contract id exists",
        Reject::BlobExists => "blob id exists",
        Reject::NotConsecutive => "subsection not consecutive",
        Reject::AlreadyCompleted => "bytecode already completed",
        Reject::IndexBeyondCount => "subsection index >= subsections number",
        Reject::VersionTaken => "next version taken",
        Reject::RootNotCompleted => "bytecode root not completely uploaded",
    }
}

impl<'e> Run<'e> {
    fn new(env: &'e Env, init: Init) -> Self {
        let storage = MemoryStorage::new_with_versions(env.height, ContractId::new([0xcb; 32]), init.cp_version, init.st_version);
        let tr = Tr::new(MemoryInstance::new(), storage, InterpreterParams::new(0, &env.params_pred));
        Run {
            env,
            tr,
            model: Model::new(init.cp_version, init.st_version),
            uni: Universe::default(),
            init,
            ops: vec![],
            txs: 0,
            found: vec![],
            dead: false,
            last_cp_installed: None,
            last_st_installed: None,
            accepted_parts: BTreeMap::new(),
        }
    }

    fn record(&self) -> Value {
        record(&self.init, &self.ops)
    }

    fn flag(&mut self, sig: String, what: String) {
        if !self.found.iter().any(|(s, _)| *s == sig) {
            self.found.push((sig, what));
        }
    }

    /// Put the enumerable tables of the implementation back to the model's content so
    /// that the rest of the history is judged on its own; other divergences end it.
    fn resync(&mut self, after: &Model) {
        let d = self.model.diff(after);
        if d.is_empty() {
            return;
        }
        for t in d {
            match t {
                "uploads" => {
                    let m = self.tr.as_mut().state_transition_bytecodes_mut();
                    m.clear();
                    for (k, v) in self.model.uploads.iter() {
                        let e = match v {
                            UploadEntry::Uncompleted { bytes, next } => UploadedBytecode::Uncompleted { bytecode: bytes.clone(), uploaded_subsections_number: *next },
                            UploadEntry::Completed(b) => UploadedBytecode::Completed(b.clone()),
                        };
                        m.insert(Bytes32::new(*k), e);
                    }
                }
                "consensus_parameters_versions" => {
                    *self.tr.as_mut().consensus_parameters_versions_mut() = self.model.consensus_parameters_versions.clone();
                }
                "state_transition_versions" => {
                    *self.tr.as_mut().state_transition_bytecodes_versions_mut() =
                        self.model.state_transition_versions.iter().map(|(k, v)| (*k, Bytes32::new(*v))).collect();
                }
                "current_versions" => {
                    let (c, s) = (self.model.consensus_parameters_version, self.model.state_transition_version);
                    self.tr.as_mut().set_consensus_parameters_version(c);
                    self.tr.as_mut().set_state_transition_version(s);
                }
                _ => self.dead = true,
            }
        }
    }

    fn step(&mut self, rep: &mut Report, op: Op) {
        if self.dead {
            return;
        }
        self.ops.push(op.clone());
        let Some(kind) = op.kind() else {
            match op {
                Op::SetCpVersion(v) => {
                    self.tr.as_mut().set_consensus_parameters_version(v);
                    self.model.set_consensus_parameters_version(v);
                    rep.count("block_progress:consensus_parameters_version");
                }
                Op::SetStVersion(v) => {
                    self.tr.as_mut().set_state_transition_version(v);
                    self.model.set_state_transition_version(v);
                    rep.count("block_progress:state_transition_version");
                }
                _ => {}
            }
            return;
        };
        let kname = KINDS[kind];
        self.txs += 1;
        let n = self.txs;

        // keys to probe + table situation + the model's verdict
        let mut next = self.model.clone();
        let (situation, verdict): (&'static str, Option<Result<(), Reject>>) = match &op {
            Op::Create { salt, code, slots, .. } => {
                self.uni.contracts.insert(tables::contract_id(salt, code, slots));
                (self.model.create_situation(salt, code, slots), Some(next.create(salt, code, slots).map(|_| ())))
            }
            Op::Blob { data, bad_id, .. } => {
                let mut id = tables::blob_id(data);
                self.uni.blobs.insert(id);
                if *bad_id {
                    id[31] ^= 1;
                    self.uni.blobs.insert(id);
                }
                (self.model.blob_situation(data), Some(next.blob(data).map(|_| ())))
            }
            Op::Upload { root, index, number, part, .. } => {
                self.uni.roots.insert(*root);
                (self.model.upload_situation(root, *index, *number), Some(next.upload(root, *index, *number, part)))
            }
            Op::UpgradeCp { tweak, .. } => {
                let v = tweak.value();
                (self.model.upgrade_consensus_parameters_situation(&v), next.upgrade_consensus_parameters(&v).map(|r| r.map(|_| ())))
            }
            Op::UpgradeSt { root, .. } => {
                self.uni.roots.insert(*root);
                (self.model.upgrade_state_transition_situation(root), next.upgrade_state_transition(root).map(|r| r.map(|_| ())))
            }
            _ => unreachable!(),
        };

        // the subsection's Merkle proof according to the RFC 6962 reference (counted only)
        let ref_proof = match &op {
            Op::Upload { root, index, number, proof, part, .. } => Some(rfc6962::verify(root, part, proof, *index as u64, *number as u64)),
            _ => None,
        };
        let mut incoherent = vec![];
        let before = observe(self.tr.as_mut(), &self.uni, &mut incoherent);
        let env = self.env;
        let phase = Cell::new(PHASE_BUILD);
        let res = {
            let tr = &mut self.tr;
            guarded(|| run_op(env, tr, &op, n, &phase))
        };
        let after = observe(self.tr.as_mut(), &self.uni, &mut incoherent);
        for i in incoherent {
            self.flag(format!("C35|{kname}|storage views disagree"), i);
        }

        let res: Result<(), IErr> = match res {
            Err(Panicked { text }) => {
                let msg = text.rsplit_once(" @ ").map(|(m, _)| m).unwrap_or(&text).to_string();
                self.dead = true;
                match phase.get() {
                    PHASE_BUILD => {
                        // the harness could not even build the transaction: not a verdict
                        rep.count("harness_builder_panicked");
                        rep.note(format!("building a {kname} transaction panicked: {text}"));
                    }
                    PHASE_CHECK => {
                        rep.eval();
                        self.flag(format!("C35|{kname}|panicked while checking|{msg}"), format!("checking transaction #{n} ({kname}, {situation}) panicked: {text}"));
                    }
                    _ => {
                        rep.eval();
                        self.flag(format!("C35|{kname}|panicked|{msg}"), format!("transaction #{n} ({kname}, {situation}) panicked: {text}"));
                    }
                }
                return;
            }
            Ok(Res::CheckRejected(name)) => {
                // the validity layer's decision is counted, not judged (C19); it must not touch the tables
                rep.count(&format!("check_rejected|{kname}|{name}"));
                rep.count("check_rejected");
                if ref_proof == Some(true) {
                    rep.count("unjudged_upload_refused_although_reference_verifier_accepts_proof");
                }
                if !before.diff(&after).is_empty() {
                    rep.eval();
                    for t in before.diff(&after) {
                        self.flag(format!("C35|{kname}|failed at checking|{t} changed"), format!("transaction #{n} was refused by checking ({name}) but {}", describe(t, &before, &after)));
                    }
                    self.resync(&after);
                }
                self.txs -= 1;
                return;
            }
            Ok(Res::Executed(r)) => r,
        };
        match ref_proof {
            Some(true) => rep.count("upload_executed_with_reference_valid_proof"),
            Some(false) => rep.count("unjudged_upload_executed_although_reference_verifier_refuses_proof"),
            None => {}
        }

        rep.eval();
        let Some(verdict) = verdict else {
            // current version is u32::MAX: "one higher" does not exist
            rep.count("unspecified_version_overflow");
            self.dead = true;
            return;
        };
        // "complete exactly when the last subsection arrives, holding the concatenation of all
        // parts": a completed entry must be the bytecode whose Merkle root it is stored under
        if let (Ok(()), Op::Upload { root, part, .. }) = (&res, &op) {
            let parts = self.accepted_parts.entry(*root).or_default();
            parts.push(part.clone());
            if matches!(after.uploads.get(root), Some(UploadEntry::Completed(_))) {
                rep.count("completed_entries_checked_against_their_root");
                let refs: Vec<&[u8]> = parts.iter().map(|p| p.as_slice()).collect();
                if tables::bytecode_root(&refs) != *root {
                    let got = parts.len();
                    self.flag(
                        format!("C35|Upload|completed entry is not the bytecode of its root (accepted with an aliased subsections_number)"),
                        format!("transaction #{n} completed root {} after {got} accepted subsections, but the Merkle root over the accepted subsections differs from the root: a later subsection was accepted under another (index, subsections_number) reading of its audit path ({situation})", hx(root)),
                    );
                }
            }
        }
        let verdict_s = if verdict.is_ok() { "accept" } else { "reject" };
        let target = match &op {
            Op::Upload { root, .. } => Some(*root),
            _ => None,
        };
        let progress = self.model.uploads.iter().filter(|(k, e)| Some(**k) != target && matches!(e, UploadEntry::Uncompleted { .. })).count().min(2);
        if kind == 2 {
            rep.class(format!("{kname}|{verdict_s}|{situation}|other roots in progress: {}", ["0", "1", "2+"][progress]));
        } else {
            rep.class(format!("{kname}|{verdict_s}|{situation}"));
        }
        rep.count(&format!("tx:{kname}:{}", if res.is_ok() { "Ok" } else { "Err" }));
        if let Some(h) = op.how() {
            rep.count(if h.ready { "via:Interpreter(Ready)" } else { "via:Transactor(Checked)" });
            rep.count(if h.signed { "fee_input:signed coin" } else { "fee_input:predicate coin" });
        }

        match &res {
            Err(InterpreterError::Bug(b)) => {
                let v = format!("{b:?}");
                let variant = v.split("variant: ").nth(1).and_then(|s| s.split(|c: char| !c.is_alphanumeric()).next()).unwrap_or("?").to_string();
                self.flag(format!("C35|{kname}|internal Bug|{variant}"), format!("transaction #{n} ({kname}, {situation}) returned an internal Bug error: {b}"));
            }
            Err(InterpreterError::CheckError(e)) => {
                // final (gas-price dependent) checks inside Transactor::x: outside the model
                rep.count(&format!("unjudged_check_error_at_ready|{kname}|{}", check_err_name(e)));
            }
            Err(InterpreterError::Panic(r)) => rep.count(&format!("reason:{kname}:{r:?}")),
            Err(other) => {
                let c = reason_class(other);
                self.flag(format!("C35|{kname}|unexpected error kind|{c}"), format!("transaction #{n} ({kname}, {situation}) failed with {other:?}"));
            }
            Ok(()) => {}
        }

        match (&res, &verdict) {
            (Err(e), _) => {
                // the key check: a failed transaction leaves the tables as they were
                for t in before.diff(&after) {
                    self.flag(
                        format!("C35|{kname}|failed {}|{t} changed", reason_class(e)),
                        format!("transaction #{n} ({kname}, {situation}) failed with {e:?} but the table changed: {}", describe(t, &before, &after)),
                    );
                }
                if verdict.is_ok() && !matches!(e, InterpreterError::CheckError(_)) {
                    self.flag(
                        format!("C35|{kname}|rejected {}|model accepts ({situation})", reason_class(e)),
                        format!("transaction #{n} ({kname}) failed with {e:?} although the tables allow it: {situation}"),
                    );
                }
                // model: unchanged
            }
            (Ok(()), Err(r)) => {
                self.flag(
                    format!("C35|{kname}|accepted|model rejects: {} ({situation})", reject_str(*r)),
                    format!("transaction #{n} ({kname}) was executed successfully although it must fail: {} ({situation}); tables changed: {:?}", reject_str(*r), before.diff(&after)),
                );
            }
            (Ok(()), Ok(())) => {
                for t in next.diff(&after) {
                    self.flag(
                        format!("C35|{kname}|ok ({situation})|{t} != model"),
                        format!("transaction #{n} ({kname}, {situation}) succeeded but the table is not what the specification says (expected -> observed): {}", describe(t, &next, &after)),
                    );
                }
                self.model = next;
                match &op {
                    Op::Upload { root, .. } => {
                        if matches!(self.model.uploads.get(root), Some(UploadEntry::Completed(_))) {
                            rep.count("uploads_completed");
                        }
                    }
                    Op::UpgradeCp { .. } => {
                        self.last_cp_installed = self.model.consensus_parameters_version.checked_add(1);
                        rep.count("installed:consensus_parameters");
                    }
                    Op::UpgradeSt { .. } => {
                        self.last_st_installed = self.model.state_transition_version.checked_add(1);
                        rep.count("installed:state_transition");
                    }
                    _ => {}
                }
            }
        }
        self.resync(&after);
    }
}

fn record(init: &Init, ops: &[Op]) -> Value {
    json!({
        "kind":"history",
        "initial_consensus_parameters_version": init.cp_version,
        "initial_state_transition_version": init.st_version,
        "ops": ops.iter().map(|o| o.to_json()).collect::<Vec<_>>(),
    })
}

/// Execute an operation list from scratch; returns what was found.
fn execute(env: &Env, init: &Init, ops: &[Op], rep: &mut Report) -> Vec<(String, String)> {
    let mut run = Run::new(env, Init { cp_version: init.cp_version, st_version: init.st_version });
    for op in ops {
        run.step(rep, op.clone());
    }
    run.found
}

/// Greedy one-at-a-time removal while the signature still reproduces.
fn shrink(env: &Env, init: &Init, ops: &[Op], sig: &str) -> (Vec<Op>, Option<String>) {
    let mut cur: Vec<Op> = ops.to_vec();
    let mut what = None;
    let mut progress = true;
    while progress {
        progress = false;
        let mut i = cur.len();
        while i > 0 {
            i -= 1;
            let mut cand = cur.clone();
            cand.remove(i);
            let mut scratch = Report::new();
            let found = execute(env, init, &cand, &mut scratch);
            if let Some((_, w)) = found.into_iter().find(|(s, _)| s == sig) {
                cur = cand;
                what = Some(w);
                progress = true;
            }
        }
    }
    (cur, what)
}

// ---------------------------------------------------------------------------------------
// generator
// ---------------------------------------------------------------------------------------

struct Bytecode {
    root: H,
    parts: Vec<UploadSubsection>,
}

struct Pools {
    bytecodes: Vec<Bytecode>,
    codes: Vec<Vec<u8>>,
    slot_sets: Vec<Vec<(H, H)>>,
    salts: Vec<H>,
    blobs: Vec<Vec<u8>>,
    tweaks: Vec<Tweak>,
}

fn small_bytes(rng: &mut Rng, max: usize, allow_empty: bool) -> Vec<u8> {
    let n = match rng.below(6) {
        0 if allow_empty => 0,
        1 => 1,
        2 => 8,
        _ => rng.range(1, max as u64) as usize,
    };
    match rng.below(4) {
        0 => vec![rng.u8(); n],
        _ => rng.bytes(n),
    }
}

fn pools(rng: &mut Rng, rep: &mut Report) -> Pools {
    let mut bytecodes = vec![];
    let nb = rng.range(1, 3);
    let mut last: Option<Vec<u8>> = None;
    for _ in 0..nb {
        // sometimes the same bytecode split differently (another root, same content)
        let code = match &last {
            Some(c) if rng.chance(1, 5) => c.clone(),
            _ => small_bytes(rng, 96, false),
        };
        let k = rng.range(1, 6) as usize;
        let size = code.len().div_ceil(k).max(1);
        let parts = UploadSubsection::split_bytecode(&code, size).expect("split");
        let chunks: Vec<&[u8]> = code.chunks(size).collect();
        // the root the transactions name is the RFC 6962 root over the subsections
        if tables::bytecode_root(&chunks) == *parts[0].root {
            rep.count("bytecode_root_matches_reference");
        } else {
            rep.count("unjudged_bytecode_root_differs_from_reference");
        }
        rep.count(&format!("bytecode_subsections:{}", parts.len()));
        bytecodes.push(Bytecode { root: *parts[0].root, parts });
        last = Some(code);
    }
    let codes = (0..rng.range(1, 2)).map(|_| small_bytes(rng, 64, true)).collect();
    let slot_sets = (0..rng.range(1, 2))
        .map(|_| {
            let n = rng.below(4);
            let mut keys: BTreeSet<H> = BTreeSet::new();
            while (keys.len() as u64) < n {
                keys.insert(rng.id32(6));
            }
            keys.into_iter().map(|k| (k, if rng.chance(1, 4) { [0u8; 32] } else { rng.arr() })).collect()
        })
        .collect();
    let salts = (0..rng.range(1, 3)).map(|_| rng.arr()).collect();
    let blobs = (0..rng.range(1, 3)).map(|_| small_bytes(rng, 64, true)).collect();
    let tweaks = (0..rng.range(2, 3))
        .map(|_| Tweak { chain_id: rng.below(1000), block_gas_limit: rng.range(1_000_000, 2_000_000), privileged: rng.arr() })
        .collect();
    Pools { bytecodes, codes, slot_sets, salts, blobs, tweaks }
}

fn gen_how(rng: &mut Rng) -> How {
    How { signed: rng.chance(1, 8), ready: rng.chance(1, 3) }
}

fn gen_upload(rng: &mut Rng, run: &Run, p: &Pools) -> Op {
    let bi = rng.usize_below(p.bytecodes.len());
    let bc = &p.bytecodes[bi];
    let number = bc.parts.len() as u64;
    let next = match run.model.uploads.get(&bc.root) {
        Some(UploadEntry::Uncompleted { next, .. }) => Some(*next as u64),
        None => Some(0),
        Some(UploadEntry::Completed(_)) => None,
    };
    let index = match next {
        None => rng.below(number),
        Some(nx) => match rng.below(20) {
            0..=12 => nx.min(number - 1),
            13..=14 => nx.saturating_sub(1),
            15..=16 => (nx + 1).min(number - 1),
            17 => number - 1,
            _ => rng.below(number),
        },
    };
    // aliasing: a later subsection whose audit path also verifies as (next, next+k) of a
    // smaller tree (e.g. the last of 3 or 5 subsections read as index 1 of 2)
    if let Some(nx) = next {
        if rng.chance(1, 6) {
            let mut cands = vec![];
            for l in (nx + 1)..number {
                let s = &bc.parts[l as usize];
                let proof: Vec<H> = s.proof_set.iter().map(|b| **b).collect();
                for num2 in (nx + 1)..number {
                    if rfc6962::verify(&bc.root, &s.subsection, &proof, nx, num2) {
                        cands.push((l, num2));
                    }
                }
            }
            if !cands.is_empty() {
                let (l, num2) = *rng.pick(&cands);
                let s = &bc.parts[l as usize];
                return Op::Upload { root: bc.root, index: nx as u16, number: num2 as u16, proof: s.proof_set.iter().map(|b| **b).collect(), part: s.subsection.clone(), how: gen_how(rng) };
            }
        }
    }
    let s = &bc.parts[index as usize];
    let mut op_root = *s.root;
    let mut op_index = s.subsection_index;
    let mut op_number = s.subsections_number;
    let mut proof: Vec<H> = s.proof_set.iter().map(|b| **b).collect();
    let mut part = s.subsection.clone();
    // some broken proofs: the validity layer must refuse them (counted, not judged here)
    if rng.chance(1, 12) {
        match rng.below(5) {
            0 if !proof.is_empty() => {
                let i = rng.usize_below(proof.len());
                proof[i][rng.usize_below(32)] ^= 1 << rng.below(8);
            }
            0 | 1 => {
                let i = rng.usize_below(part.len());
                part[i] ^= 1 << rng.below(8);
            }
            2 => op_index = if rng.bool() { op_index.wrapping_add(1) } else { op_index.wrapping_sub(1) },
            3 => op_number = op_number.wrapping_add(1),
            _ => op_root = p.bytecodes[(bi + 1) % p.bytecodes.len()].root,
        }
    }
    Op::Upload { root: op_root, index: op_index, number: op_number, proof, part, how: gen_how(rng) }
}

fn gen_tx(rng: &mut Rng, run: &Run, p: &Pools) -> Op {
    match rng.below(100) {
        0..=44 => gen_upload(rng, run, p),
        45..=59 => {
            // state-transition upgrade: completed root, any pool root, or an unknown root
            let completed: Vec<H> = p.bytecodes.iter().map(|b| b.root).filter(|r| matches!(run.model.uploads.get(r), Some(UploadEntry::Completed(_)))).collect();
            let root = match rng.below(10) {
                0 => rng.arr(),
                1..=5 if !completed.is_empty() => *rng.pick(&completed),
                _ => rng.pick(&p.bytecodes).root,
            };
            Op::UpgradeSt { root, privileged: !rng.chance(1, 25), how: gen_how(rng) }
        }
        60..=73 => Op::UpgradeCp { tweak: rng.pick(&p.tweaks).clone(), bad_checksum: rng.chance(1, 25), privileged: !rng.chance(1, 25), how: gen_how(rng) },
        74..=87 => Op::Create { salt: *rng.pick(&p.salts), code: rng.pick(&p.codes).clone(), slots: rng.pick(&p.slot_sets).clone(), how: gen_how(rng) },
        _ => Op::Blob { data: rng.pick(&p.blobs).clone(), bad_id: rng.chance(1, 25), how: gen_how(rng) },
    }
}

const INITIAL_VERSIONS: &[u32] = &[0, 0, 1, 123, 0x7fff_ffff, 0xffff_fefe];

fn history(rep: &mut Report, cfg: &Cfg, env: &Env, worker: usize, idx: u64) {
    let global = idx * cfg.threads.max(1) as u64 + worker as u64;
    let mut rng = Rng::derive(cfg.seed, 0x35_00, global);
    let p = pools(&mut rng, rep);
    let init = Init { cp_version: *rng.pick(INITIAL_VERSIONS), st_version: *rng.pick(INITIAL_VERSIONS) };
    let mut run = Run::new(env, init);
    let ntx = rng.range(1, 40);
    // how often block progress follows an installed upgrade
    let p_advance = *rng.pick(&[30u64, 60, 90]);
    let mut guard = 0;
    while run.txs < ntx && !run.dead && guard < 200 {
        guard += 1;
        let op = gen_tx(&mut rng, &run, &p);
        let (cp0, st0) = (run.last_cp_installed, run.last_st_installed);
        run.step(rep, op);
        // block progress: the newly installed version becomes the current one (or not: stale)
        if run.last_cp_installed != cp0 {
            if let Some(v) = run.last_cp_installed.filter(|_| rng.below(100) < p_advance) {
                run.step(rep, Op::SetCpVersion(v));
            } else {
                rep.count("stale:consensus_parameters_version_not_advanced");
            }
        }
        if run.last_st_installed != st0 {
            if let Some(v) = run.last_st_installed.filter(|_| rng.below(100) < p_advance) {
                run.step(rep, Op::SetStVersion(v));
            } else {
                rep.count("stale:state_transition_version_not_advanced");
            }
        }
        // occasional jumps of the current versions (back to an old one or ahead over a gap)
        if rng.chance(1, 25) {
            let cur = if rng.bool() { run.model.consensus_parameters_version } else { run.model.state_transition_version };
            let to = if rng.bool() { cur.saturating_sub(rng.range(1, 2) as u32) } else { cur.saturating_add(rng.range(1, 2) as u32).min(u32::MAX - 2) };
            let op = if rng.bool() { Op::SetCpVersion(to) } else { Op::SetStVersion(to) };
            run.step(rep, op);
        }
    }
    rep.count("histories");
    rep.max("max_transactions_in_history", run.txs);
    if idx < 2 && worker == 0 {
        rep.sample(|| json!({"what":"a generated history (all checks passed unless listed under violations)","history":run.record(),
            "final_model":{"contracts":run.model.contracts.len(),"blobs":run.model.blobs.len(),
                "uploads":run.model.uploads.iter().map(|(k,v)| json!([hx(k), upload_str(Some(v))])).collect::<Vec<_>>(),
                "consensus_parameters_versions":run.model.consensus_parameters_versions.keys().collect::<Vec<_>>(),
                "state_transition_versions":run.model.state_transition_versions.iter().map(|(k,v)| json!([k,hx(v)])).collect::<Vec<_>>()}}));
    }
    let found = std::mem::take(&mut run.found);
    for (sig, what) in found {
        let kept = rep.violation_counts.get(&sig).copied().unwrap_or(0) < crate::MAX_VIOLATIONS_PER_SIG;
        if kept {
            // written-out cases carry a minimised history
            let (ops, w) = shrink(env, &run.init, &run.ops, &sig);
            let text = format!("{} [history minimised from {} to {} operations; seed {} history {global}]", w.unwrap_or(what), run.ops.len(), ops.len(), cfg.seed);
            let rec = record(&run.init, &ops);
            rep.violation(sig, text, || rec);
        } else {
            rep.violation(sig, what, || Value::Null);
        }
    }
}

fn replay(rec: &Value, env: &Env) -> Report {
    let mut rep = Report::new();
    let ops: Option<Vec<Op>> = rec.get("ops").and_then(|o| o.as_array()).and_then(|a| a.iter().map(Op::from_json).collect());
    let init = (|| {
        Some(Init {
            cp_version: rec.get("initial_consensus_parameters_version")?.as_u64()? as u32,
            st_version: rec.get("initial_state_transition_version")?.as_u64()? as u32,
        })
    })();
    let (Some(ops), Some(init)) = (ops, init) else {
        rep.inconclusive = Some("malformed C35 replay record".into());
        return rep;
    };
    let found = execute(env, &init, &ops, &mut rep);
    rep.note(format!("replayed {} operations; {} violation signature(s)", ops.len(), found.len()));
    for (sig, what) in found {
        let r = record(&init, &ops);
        rep.violation(sig, what, || r);
    }
    rep
}

pub fn run(cfg: &Cfg) -> Report {
    let rule = "class = (transaction kind, model verdict, table situation before the transaction {fresh, duplicate, in order, completing, out-of-order, after-complete, version-taken, root-incomplete, root-unknown, ...}; for uploads also the number of other roots in progress)";
    let env = Env::new();
    if let Some(rec) = &cfg.replay {
        let mut rep = replay(rec, &env);
        rep.rule = rule.into();
        return rep;
    }
    let total = cfg.budget(60_000, 2_500_000);
    let threads = cfg.threads.max(1) as u64;
    let per_worker = total.div_ceil(threads);
    let mut rep = par(cfg.threads, |w| {
        let env = Env::new();
        let mut rep = Report::new();
        for idx in 0..per_worker {
            history(&mut rep, cfg, &env, w, idx);
        }
        rep
    });
    rep.rule = rule.into();
    rep.assume("model: refmodel::tables (accept/reject rule of the four transaction kinds from the property statement; contract id, blob id and bytecode root from the protocol identifiers over refmodel::{rfc6962, smt}; sha2 crate trusted)");
    rep.assume("contracts and blobs tables cannot be enumerated through MemoryStorage: they are read at every id that any transaction of the history names (plus a mutated id for bad-id blobs); contract state, upload table and both version maps are read completely");
    rep.assume("whether a transaction is well formed (Merkle proof of the subsection, blob id, checksum, privileged input) is the validity layer's decision: refused transactions are counted (check_rejected|...) and only required not to touch the tables");
    rep.assume("block progress is emulated with MemoryStorage::set_consensus_parameters_version / set_state_transition_version; histories never bring a current version to u32::MAX");
    rep.note("signature = C35|<tx kind>|failed <reason class>|<table> changed  (reason class: panic reason, the two Overriding* reasons collapsed); other shapes are listed in the module header");
    rep.note("after a reported divergence in the upload table or a version map the harness writes the model's content back through the test-helper accessors and continues; a divergence in contracts, contract state or blobs ends the history");
    let hist = rep.counter("histories");
    let need = (hist / 20).clamp(1, 200);
    for k in KINDS {
        rep.gate(&format!("{k} executed Ok"), rep.counter(&format!("tx:{k}:Ok")), need);
        rep.gate(&format!("{k} executed Err"), rep.counter(&format!("tx:{k}:Err")), need);
    }
    rep.gate("uploads completed", rep.counter("uploads_completed"), need);
    rep.gate("consensus parameters installed", rep.counter("installed:consensus_parameters"), need);
    rep.gate("state transition installed", rep.counter("installed:state_transition"), need);
    rep.gate("transactions refused by checking (mutated)", rep.counter("check_rejected"), need);
    rep.gate("classes", rep.classes.len() as u64, 30.min(need));
    rep
}
