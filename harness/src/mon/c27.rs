//! C27 Assets are conserved by every script execution.
//!
//! Three oracles over generated money-moving scripts and contracts:
//!  (a) per step: every Transfer / TransferOut / Call / Mint / Burn / MessageOut receipt is
//!      matched by a movement of exactly that amount in the script's free balances (hook
//!      H2) and in the contracts' balances in storage (shadow map advanced from the
//!      receipts, compared with the storage after the step), and completed steps without
//!      such a receipt move no free balance;
//!  (b) per step boundary: the balance table in VM memory equals the internal free balances;
//!  (c) per execution: the per-asset ledger equation of the property statement, exact in
//!      u128, with the inputs taken from the transaction specification.
use super::{
    grp_e::{
        Drive,
        drive,
    },
    ledger::{
        Sums,
        TxMoney,
        fee_charged,
        gas_used_of,
        sub_asset,
    },
};
use crate::{
    Cfg,
    Report,
    Rng,
    prog::Weights,
    recstore::RecStorage,
    scenario::{
        Scenario,
        ScenarioOpts,
    },
    stepbus::{
        BusOpts,
        Snap,
        Step,
        StepEnd,
        StepMonitor,
    },
    world::{
        Outcome,
        Vm,
        World,
    },
};
use fuel_asm::{
    Instruction,
    RegId,
};
use fuel_tx::{
    Output,
    Receipt,
    Script,
    field::Outputs,
};
use fuel_types::{
    AssetId,
    ContractId,
};
use fuel_vm::{
    state::ProgramState,
    storage::{
        ContractsAssetsStorage,
        MemoryStorage,
    },
};
use serde_json::json;
use std::collections::{
    BTreeMap,
    BTreeSet,
};

fn stored(s: &MemoryStorage, c: &ContractId, a: &AssetId) -> u128 {
    s.contract_asset_id_balance(c, a).expect("infallible").unwrap_or(0) as u128
}

/// executing context at a boundary: `Some(None)` script, `Some(Some(id))` contract,
/// `None` when the frame cannot be read (memory not captured)
fn context(s: &Snap) -> Option<Option<ContractId>> {
    if s.fp() == 0 {
        return Some(None);
    }
    let b = s.bytes(s.fp(), 32)?;
    Some(Some(ContractId::new(b.try_into().ok()?)))
}

#[derive(Clone, Copy, PartialEq, Eq, PartialOrd, Ord, Debug)]
enum Acct {
    Free(AssetId),
    Contract(ContractId, AssetId),
}

struct AssetMon {
    money: TxMoney,
    /// contract balances as implied by the world before + the receipts so far
    shadow: BTreeMap<(ContractId, AssetId), u128>,
    prev_outputs: Vec<Output>,
    /// (opcode, in a contract?) of every money receipt, for the coverage classes
    moves: Vec<(&'static str, bool)>,
    minted: Sums,
    burned: Sums,
    message_out: u128,
    assets: BTreeSet<AssetId>,
    contracts: BTreeSet<ContractId>,
    /// the last step raised a panic inside the instruction (partial effects possible)
    partial_last_step: bool,
    started: bool,
    /// number of entries of the balance table in VM memory (the chain's max_inputs)
    table_slots: u64,
}

impl AssetMon {
    fn new(sc: &Scenario) -> Self {
        let money = TxMoney::of(&sc.spec, &sc.world);
        let mut assets: BTreeSet<AssetId> = sc.world.assets.iter().cloned().collect();
        assets.extend(money.spendable.keys().cloned());
        Self {
            money,
            shadow: BTreeMap::new(),
            prev_outputs: vec![],
            moves: vec![],
            minted: Sums::new(),
            burned: Sums::new(),
            message_out: 0,
            assets,
            contracts: sc.world.contracts.iter().map(|c| c.id).collect(),
            partial_last_step: false,
            started: false,
            table_slots: sc.world.params.tx_params().max_inputs() as u64,
        }
    }

    fn shadow_of(&mut self, w: &World, c: &ContractId, a: &AssetId) -> u128 {
        *self.shadow.entry((*c, *a)).or_insert_with(|| stored(&w.storage, c, a))
    }

    /// (b): the table in memory equals the hook values
    fn check_table(&self, s: &Snap, at: &str, rep: &mut Report) {
        if !s.mem_captured {
            return;
        }
        for (asset, value, off) in s.balances.iter() {
            rep.count("table_entries_checked");
            let id = s.bytes(*off as u64, 32);
            let val = s.word_at(*off as u64 + 32);
            if id.as_deref() != Some(asset.as_ref()) {
                rep.violation("C27|balance table|asset id in memory differs from the internal balance entry", format!("{at}: offset {off} holds {:?}, internal entry {asset}", id.map(crate::hx)), || json!(null));
            }
            if val != Some(*value) {
                rep.violation("C27|balance table|amount in memory differs from the internal free balance", format!("{at}: asset {asset} offset {off}: memory {val:?}, internal {value}"), || json!(null));
            }
        }
        // the layout a program relies on (it is not told any offsets): after the 32-byte
        // transaction id and the 32-byte base asset id, one 40-byte entry per asset in
        // ascending order of the asset ids, the unused entries zero
        let mut sorted: Vec<&(AssetId, u64, usize)> = s.balances.iter().collect();
        sorted.sort_by_key(|b| b.0);
        for (k, (asset, _, off)) in sorted.iter().enumerate() {
            if *off as u64 != 64 + 40 * k as u64 {
                rep.violation(
                    "C27|balance table|entry is not at its place in the table sorted by asset id",
                    format!("{at}: asset {asset} is entry {k} of {} in ascending order (offset {}), the VM keeps it at offset {off}", sorted.len(), 64 + 40 * k),
                    || json!(null),
                );
                break;
            }
        }
        let used = sorted.len() as u64;
        if used < self.table_slots {
            if let Some(rest) = s.bytes(64 + 40 * used, 40 * (self.table_slots - used)) {
                rep.count("table_unused_entries_checked");
                if rest.iter().any(|b| *b != 0) {
                    rep.violation("C27|balance table|unused entry is not zero", format!("{at}: {used} entries in use of {}", self.table_slots), || json!(null));
                }
            }
        }
    }
}

fn free_of(s: &Snap, a: &AssetId) -> Option<u128> {
    s.balances.iter().find(|b| b.0 == *a).map(|b| b.1 as u128)
}

impl StepMonitor for AssetMon {
    fn on_start(&mut self, _w: &World, first: &Snap, tx: &Script, rep: &mut Report) {
        self.started = true;
        self.prev_outputs = tx.outputs().to_vec();
        self.check_table(first, "start", rep);
        // the ledger's opening balances: inputs - coin outputs - max fee (+ retryable)
        match self.money.initial_free(true) {
            Some(want) => {
                // an asset with a free balance of zero and an asset without an entry are the
                // same thing (the VM keeps no empty base-asset entry since /repo 628b41f)
                let got: Sums = first.balances.iter().map(|b| (b.0, b.1 as u128)).filter(|e| e.1 != 0).collect();
                let want: Sums = want.into_iter().filter(|e| e.1 != 0).collect();
                rep.count("initial_balances_checked");
                if got != want {
                    rep.violation(
                        "C27|ledger|free balances at start differ from inputs - coin outputs - max fee",
                        format!("expected {want:?}, VM holds {got:?}"),
                        || json!(null),
                    );
                }
            }
            None => rep.count("unjudged_spec_does_not_cover_outputs"),
        }
    }

    fn on_step(&mut self, w: &World, s: &Step, rep: &mut Report) {
        self.check_table(s.post, "after step", rep);
        self.partial_last_step = s.own_panic().is_some() || matches!(s.end, StepEnd::Error(_));
        let st: &RecStorage = s.storage;
        let ctx = context(s.pre);
        let name = s.opcode_name();
        // expected movements from the receipts of this step
        let mut delta: BTreeMap<Acct, i128> = BTreeMap::new();
        let mut debit: Vec<(Acct, u128)> = vec![];
        let mut money_receipts = 0;
        let src = |ctx: &Option<Option<ContractId>>, a: &AssetId| -> Option<Acct> {
            match ctx {
                Some(None) => Some(Acct::Free(*a)),
                Some(Some(c)) => Some(Acct::Contract(*c, *a)),
                None => None,
            }
        };
        for r in s.new_receipts.iter() {
            let (op, source, dest, amount): (&'static str, Option<Acct>, Option<Acct>, u128) = match r {
                Receipt::Transfer { id, to, amount, asset_id, .. } => {
                    self.check_receipt_ctx(&ctx, id, "TR", rep);
                    ("TR", src(&ctx, asset_id), Some(Acct::Contract(*to, *asset_id)), *amount as u128)
                }
                Receipt::TransferOut { id, to, amount, asset_id, .. } => {
                    self.check_receipt_ctx(&ctx, id, "TRO", rep);
                    self.check_tro_output(s, to, *amount, asset_id, rep);
                    ("TRO", src(&ctx, asset_id), None, *amount as u128)
                }
                Receipt::Call { id, to, amount, asset_id, .. } => {
                    self.check_receipt_ctx(&ctx, id, "CALL", rep);
                    if matches!(s.end, StepEnd::Continue) {
                        rep.count("call_bal_register_checked");
                        if s.post.r(RegId::BAL) != *amount {
                            rep.violation("C27|CALL|$bal of the callee differs from the forwarded amount", format!("$bal {} receipt amount {amount}", s.post.r(RegId::BAL)), || json!(null));
                        }
                    }
                    self.contracts.insert(*to);
                    if *amount == 0 {
                        continue;
                    }
                    ("CALL", src(&ctx, asset_id), Some(Acct::Contract(*to, *asset_id)), *amount as u128)
                }
                Receipt::Mint { sub_id, contract_id, val, .. } => {
                    self.check_receipt_ctx(&ctx, contract_id, "MINT", rep);
                    let a = sub_asset(contract_id, sub_id);
                    *self.minted.entry(a).or_default() += *val as u128;
                    ("MINT", None, Some(Acct::Contract(*contract_id, a)), *val as u128)
                }
                Receipt::Burn { sub_id, contract_id, val, .. } => {
                    self.check_receipt_ctx(&ctx, contract_id, "BURN", rep);
                    let a = sub_asset(contract_id, sub_id);
                    *self.burned.entry(a).or_default() += *val as u128;
                    ("BURN", Some(Acct::Contract(*contract_id, a)), None, *val as u128)
                }
                Receipt::MessageOut { amount, .. } => {
                    self.message_out += *amount as u128;
                    ("SMO", src(&ctx, &self.money.base), None, *amount as u128)
                }
                _ => continue,
            };
            money_receipts += 1;
            let in_contract = matches!(ctx, Some(Some(_)));
            self.moves.push((op, in_contract));
            rep.count(&format!("receipts_{op}_{}", if in_contract { "contract" } else { "script" }));
            if ctx.is_none() {
                rep.count("unjudged_context_unreadable");
                return;
            }
            if let Some(a) = source {
                *delta.entry(a).or_default() -= amount as i128;
                debit.push((a, amount));
            }
            if let Some(a) = dest {
                *delta.entry(a).or_default() += amount as i128;
            }
        }
        // the debited account must have held the amount (checked before the credit of
        // the same instruction is applied: matters for transfers to oneself)
        for (acct, amount) in debit.iter() {
            let have = match acct {
                Acct::Free(a) => free_of(s.pre, a).unwrap_or(0),
                Acct::Contract(c, a) => self.shadow_of(w, c, a),
            };
            if have < *amount {
                rep.violation(
                    format!("C27|{name}|receipt amount exceeds the balance of the debited {}", if matches!(acct, Acct::Free(_)) { "free balance" } else { "contract" }),
                    format!("{acct:?} held {have}, receipt moves {amount}"),
                    || json!(null),
                );
            }
        }
        // free balances: post - pre must equal the expected delta for every asset
        let completed_plain = money_receipts == 0 && !self.partial_last_step;
        if money_receipts > 0 || completed_plain {
            let assets: BTreeSet<AssetId> = s.pre.balances.iter().chain(s.post.balances.iter()).map(|b| b.0).collect();
            for a in assets.iter() {
                let want = delta.get(&Acct::Free(*a)).copied().unwrap_or(0);
                let got = free_of(s.post, a).map(|v| v as i128).unwrap_or(-1) - free_of(s.pre, a).map(|v| v as i128).unwrap_or(-1);
                if got != want {
                    if money_receipts > 0 {
                        rep.violation(format!("C27|{name}|free balance did not move by the amount in the receipt"), format!("asset {a}: moved {got}, receipts say {want}"), || json!(null));
                    } else {
                        rep.violation(format!("C27|{name}|free balance moved in a completed step without a money receipt"), format!("asset {a}: moved {got}"), || json!(null));
                    }
                }
            }
            // a debit of an asset that has no entry at all
            for (k, v) in delta.iter() {
                if let Acct::Free(a) = k {
                    if *v != 0 && !assets.contains(a) {
                        rep.violation(format!("C27|{name}|receipt debits an asset without a free balance entry"), format!("asset {a} amount {v}"), || json!(null));
                    }
                }
            }
        }
        if money_receipts == 0 {
            return;
        }
        rep.eval();
        rep.count("money_steps_checked");
        // contract balances named by the receipts: storage after the step vs shadow
        for (k, v) in delta.iter() {
            if let Acct::Contract(c, a) = k {
                self.contracts.insert(*c);
                self.assets.insert(*a);
                let before = self.shadow_of(w, c, a) as i128;
                let want = before + *v;
                let got = stored(&st.inner, c, a) as i128;
                rep.count("contract_balance_movements_checked");
                if got != want {
                    rep.violation(
                        format!("C27|{name}|contract balance did not move by the amount in the receipt"),
                        format!("contract {c} asset {a}: tracked {before}, receipts move {v}, storage now holds {got}"),
                        || json!(null),
                    );
                }
                // follow the storage so that one defect is reported once
                self.shadow.insert((*c, *a), got.max(0) as u128);
            } else if let Acct::Free(a) = k {
                self.assets.insert(*a);
            }
        }
        self.prev_outputs = s.tx.outputs().to_vec();
    }

    fn on_finish(&mut self, w: &World, out: &Outcome, vm: &Vm, rep: &mut Report) {
        if !self.started {
            rep.count("unjudged_never_started");
            return;
        }
        let st: &RecStorage = vm.as_ref();
        let after_store = &st.inner;
        let panicked = out.receipts.iter().any(|r| matches!(r, Receipt::Panic { .. }));
        let end = match (&out.state, panicked) {
            (Ok(ProgramState::Return(_)), false) => "return",
            (Ok(ProgramState::ReturnData(_)), false) => "returndata",
            (Ok(ProgramState::Revert(_)), false) => "revert",
            (Ok(ProgramState::Revert(_)), true) => "panic",
            _ => {
                rep.count("unjudged_execution_did_not_complete");
                return;
            }
        };
        let committed = matches!(end, "return" | "returndata");
        for (op, in_contract) in self.moves.iter() {
            rep.class(format!("{op}|{}|{end}", if *in_contract { "contract" } else { "script" }));
        }
        if self.moves.is_empty() {
            rep.class(format!("none|script|{end}"));
        }
        // every contract balance equals world-before + receipts (no movement without a
        // receipt); after a panic the failing instruction may have acted partially
        if !self.partial_last_step {
            let contracts: Vec<ContractId> = self.contracts.iter().cloned().collect();
            let assets: Vec<AssetId> = self.assets.iter().cloned().collect();
            for c in contracts.iter() {
                for a in assets.iter() {
                    let want = self.shadow_of(w, c, a);
                    let got = stored(after_store, c, a);
                    rep.count("final_contract_balances_checked");
                    if want != got {
                        rep.violation("C27|final|contract balance differs from prior balance plus receipts", format!("contract {c} asset {a}: receipts imply {want}, storage holds {got} (end {end})"), || json!(null));
                    }
                }
            }
        }
        let Some(init_nr) = self.money.initial_free(false) else {
            return;
        };
        let Some(gas_used) = gas_used_of(&out.receipts) else {
            rep.count("unjudged_no_script_result");
            return;
        };
        let gas_limit = *fuel_tx::field::ScriptGasLimit::script_gas_limit(&out.tx);
        let ggas = out.registers[RegId::GGAS.to_u8() as usize];
        if gas_limit.checked_sub(ggas) != Some(gas_used) {
            rep.count("observation_script_result_gas_used_differs_from_limit_minus_ggas");
        }
        let fee = fee_charged(&out.tx, w, self.money.tip, gas_used);
        if fee > self.money.max_fee {
            rep.count("unjudged_fee_above_max_fee");
            return;
        }
        let refund = self.money.max_fee - fee;
        // final outputs
        let mut coin = Sums::new();
        let mut change = Sums::new();
        let mut change_present: BTreeSet<AssetId> = BTreeSet::new();
        let mut variable = Sums::new();
        for o in out.tx.outputs().iter() {
            match o {
                Output::Coin { amount, asset_id, .. } => *coin.entry(*asset_id).or_default() += *amount as u128,
                Output::Change { amount, asset_id, .. } => {
                    change_present.insert(*asset_id);
                    *change.entry(*asset_id).or_default() += *amount as u128
                }
                Output::Variable { amount, asset_id, .. } => {
                    if *amount != 0 {
                        *variable.entry(*asset_id).or_default() += *amount as u128
                    }
                }
                _ => {}
            }
        }
        let final_free: Sums = vm.verif_balances().into_iter().map(|b| (b.0, b.1 as u128)).collect();
        let mut assets = self.assets.clone();
        assets.extend(coin.keys().chain(change.keys()).chain(variable.keys()).chain(final_free.keys()).cloned());
        assets.extend(self.minted.keys().chain(self.burned.keys()).cloned());
        let base = self.money.base;
        let get = |m: &Sums, a: &AssetId| m.get(a).copied().unwrap_or(0);
        for a in assets.iter() {
            let is_base = *a == base;
            let before: u128 = self.contracts.iter().map(|c| stored(&w.storage, c, a)).sum();
            let after: u128 = if committed { self.contracts.iter().map(|c| stored(after_store, c, a)).sum() } else { before };
            let lhs = get(&self.money.spendable, a)
                + if is_base && committed { self.money.retryable } else { 0 }
                + before
                + if committed { get(&self.minted, a) } else { 0 };
            // what is left to the owner: goes to the change output if there is one
            let left = if committed { get(&final_free, a) } else { get(&init_nr, a) } + if is_base { refund } else { 0 };
            let has_change = change_present.contains(a);
            let rhs = get(&coin, a)
                + get(&change, a)
                + get(&variable, a)
                + after
                + if committed { get(&self.burned, a) } else { 0 }
                + if has_change { 0 } else { left }
                + if is_base { fee + if committed { self.message_out } else { 0 } } else { 0 };
            rep.eval();
            rep.count("ledgers_checked");
            if has_change {
                rep.count(if is_base { "ledgers_with_change_base" } else { "ledgers_with_change_other" });
            }
            if lhs != rhs {
                rep.violation(
                    format!("C27|ledger|{} asset does not balance|end={}|change output={}", if is_base { "base" } else { "non-base" }, if committed { "success" } else { end }, has_change),
                    format!(
                        "asset {a}: inputs {} retryable {} contracts before {before} minted {} != coin {} change {} variable {} contracts after {after} burned {} left-without-change {} fee {} message-out {} (lhs {lhs} rhs {rhs}; gas used {gas_used}, gas price {}, max fee {}, refund {refund}, free balance at end {})",
                        get(&self.money.spendable, a),
                        if is_base && committed { self.money.retryable } else { 0 },
                        if committed { get(&self.minted, a) } else { 0 },
                        get(&coin, a),
                        get(&change, a),
                        get(&variable, a),
                        if committed { get(&self.burned, a) } else { 0 },
                        if has_change { 0 } else { left },
                        if is_base { fee } else { 0 },
                        if is_base && committed { self.message_out } else { 0 },
                        w.gas_price,
                        self.money.max_fee,
                        get(&final_free, a),
                    ),
                    || json!(null),
                );
            }
        }
        if self.money.retryable > 0 {
            rep.count(if committed { "ledgers_with_retryable_message_success" } else { "ledgers_with_retryable_message_reverted" });
        }
        if w.gas_price > 0 {
            rep.count("ledgers_with_gas_price");
            if fee > self.money.tip + 1 {
                rep.count("ledgers_with_gas_fee_above_one");
            }
        }
        if rep.samples.len() < 2 && !self.moves.is_empty() {
            let moves = self.moves.clone();
            rep.sample(|| json!({"end": end, "money_receipts": moves.iter().map(|m| format!("{}@{}", m.0, if m.1 {"contract"} else {"script"})).collect::<Vec<_>>(), "fee": fee.to_string(), "refund": refund.to_string(), "gas_price": w.gas_price, "assets_in_ledger": assets.len(), "receipts": out.receipts.len()}));
        }
    }
}

impl AssetMon {
    /// the `id` of a money receipt is the executing contract (zero in a script)
    fn check_receipt_ctx(&self, ctx: &Option<Option<ContractId>>, id: &ContractId, op: &str, rep: &mut Report) {
        let want = match ctx {
            Some(None) => ContractId::zeroed(),
            Some(Some(c)) => *c,
            None => return,
        };
        if want != *id {
            rep.violation(format!("C27|{op}|receipt names a source other than the executing context"), format!("receipt id {id}, executing {want}"), || json!(null));
        }
    }

    /// TRO wrote `(to, amount, asset)` into the variable output selected by `$rB`, which
    /// was unset, and touched no other output
    fn check_tro_output(&self, s: &Step, to: &fuel_types::Address, amount: u64, asset: &AssetId, rep: &mut Report) {
        if !matches!(s.end, StepEnd::Continue) {
            return; // the epilogue has already finalised the outputs
        }
        let Some(Instruction::TRO(o)) = &s.instr else {
            return;
        };
        let (_, rb, _, _) = o.unpack();
        let idx = s.pre.r(rb) as usize;
        let outs = s.tx.outputs();
        rep.count("tro_outputs_checked");
        let want = Output::Variable { to: *to, amount, asset_id: *asset };
        if outs.get(idx) != Some(&want) {
            rep.violation("C27|TRO|variable output does not hold the transferred coins", format!("output {idx}: {:?}, receipt ({to}, {amount}, {asset})", outs.get(idx)), || json!(null));
        }
        match self.prev_outputs.get(idx) {
            Some(Output::Variable { amount: 0, .. }) => {}
            other => rep.violation("C27|TRO|overwrote an output that was not an unset variable output", format!("output {idx} was {other:?}"), || json!(null)),
        }
        for (i, (a, b)) in self.prev_outputs.iter().zip(outs.iter()).enumerate() {
            if i != idx && a != b {
                rep.violation("C27|TRO|changed an output other than the selected one", format!("output {i}: {a:?} -> {b:?}"), || json!(null));
            }
        }
    }
}

pub fn opts(idx: u64, rng: &mut Rng) -> ScenarioOpts {
    let mut w = Weights::default();
    w.money = 34;
    w.call = 16;
    w.log = 2;
    w.storage = 3;
    w.crypto = 1;
    w.wide = 1;
    w.hostile = if idx % 5 == 0 { 60 } else { 12 };
    w.garbage = 1;
    w.self_transfer = 150;
    let gas_price = if idx % 2 == 0 {
        0
    } else {
        match rng.below(6) {
            0 => 1,
            1 => 2 + rng.below(2),
            2 => 1_000,
            3 => 1_000_000,
            4 => 2_500_000,
            _ => 1 + rng.below(3_000_000),
        }
    };
    ScenarioOpts {
        weights: w.clone(),
        contract_weights: w,
        // (the unit schedule relies on the EPAR allocation fix, /repo ca34e88: before it one
        // EPAR with a large element count reached through raw words aborted the process)
        schedule: if idx % 7 == 3 { 1 } else { 0 },
        gas_price,
        tight_gas: 60,
        script_snippets: 16,
        contract_snippets: 9,
        // every third scenario under non-standard parameters (non-zero base asset id:
        // fees, refunds and SMO must use the configured base asset, not AssetId::BASE)
        vary_params: if idx % 3 == 1 { 1000 } else { 0 },
        no_base_input: if idx % 8 == 2 { 1000 } else { 0 },
        ..Default::default()
    }
}

pub fn run(cfg: &Cfg) -> Report {
    let mons = |sc: &Scenario| -> Vec<Box<dyn StepMonitor>> { vec![Box::new(AssetMon::new(sc))] };
    let d = Drive { prop: "C27", stream: 27, quick: 30_000, thorough: 3_500_000, bus: BusOpts { capture_mem: true, max_steps: 20_000 }, opts: &opts, monitors: &mons, after: None };
    let mut rep = drive(cfg, &d);
    rep.rule = "generated scripts+contracts (TR incl. to oneself, TRO, CALL with coins, MINT, BURN, SMO, reverts/panics at arbitrary points; gas price 0 in half of the cases, 1..3e6 in the other half; every third scenario with a random non-zero base asset id, chain id and max_inputs). (a) per single-stepped instruction: money receipts vs movement of the free balances (hook) and of the named contract balances in storage (shadow map = world before + receipts), debited account held the amount, $bal of a callee = forwarded amount, TRO wrote exactly the selected unset variable output, no free balance moves without a receipt; (b) at every boundary the balance table in memory = internal free balances, laid out as 40-byte entries in ascending asset-id order from offset 64 with the unused entries zero; (c) at the end the per-asset ledger of the statement in u128 (inputs from the tx specification; reverted/panicked executions judged with contract balances := before, no mint/burn/message; refund = max fee - ceil((min_gas+gas_used)*price/factor) - tip), plus every (contract, asset) balance = before + receipts. class = (money opcode, context, end state)".into();
    rep.assume("Chargeable::min_gas of the repository is used for the intrinsic gas in the fee (fee arithmetic itself is C18's subject); gas used is the ScriptResult receipt's value");
    rep.assume("free balances are observed through hook H2 (verif_balances); contract balances are read from the MemoryStorage under the VM, which holds the uncommitted state");
    rep.note("for the base asset without a change output the refund is part of the balance left without a change output (nobody receives it), so that ledger does not constrain the fee");
    if cfg.replay.is_none() {
        let f = cfg.scale.min(1.0);
        let req = |n: u64| ((n as f64 * f) as u64).max(1);
        rep.gate("money_steps_checked", rep.counter("money_steps_checked"), req(2000));
        rep.gate("ledgers_checked", rep.counter("ledgers_checked"), req(5000));
        rep.gate("table_entries_checked", rep.counter("table_entries_checked"), req(50_000));
        rep.gate("ledgers_with_change_base", rep.counter("ledgers_with_change_base"), req(500));
        rep.gate("ledgers_with_gas_fee_above_one", rep.counter("ledgers_with_gas_fee_above_one"), req(200));
        rep.gate("contract_balance_movements_checked", rep.counter("contract_balance_movements_checked"), req(1000));
    }
    rep
}
