//! C08 Instruction encoding is a bijection on valid 32-bit words.
//!
//! Oracle: the hand-written table below (opcode byte -> mnemonic, argument shape). The
//! table is a literal of this file; nothing in it is computed from `fuel-asm` at run time.
//! The per-row identifiers are additionally used to generate the `match`es that call the
//! typed public API of every opcode (`op::X::new`, `op::x`, `unpack`, `from_raw_args`).
use crate::{
    Cfg,
    Panicked,
    Report,
    Rng,
    guarded,
    par,
};
use fuel_asm::{
    Imm06,
    Imm12,
    Imm18,
    Imm24,
    Instruction,
    InvalidOpcode,
    Opcode,
    RegId,
    op,
};
use serde_json::{
    Value,
    json,
};

// ------------------------------------------------------------------------------------------
// reference table
// ------------------------------------------------------------------------------------------

/// One argument field. Fields are packed MSB-first from bit 23 downward.
#[derive(Clone, Copy, PartialEq, Eq, Debug)]
enum Fld {
    /// 6-bit register id
    R,
    /// 6-bit immediate
    I06,
    /// 12-bit immediate
    I12,
    /// 18-bit immediate
    I18,
    /// 24-bit immediate
    I24,
}

impl Fld {
    const fn width(self) -> u32 {
        match self {
            Fld::R | Fld::I06 => 6,
            Fld::I12 => 12,
            Fld::I18 => 18,
            Fld::I24 => 24,
        }
    }
}

struct Row {
    byte: u8,
    mnemonic: &'static str,
    shape: &'static [Fld],
}

/// (number of fields, field values MSB-first, unused entries zero)
type Fields = (u8, [u32; 4]);

/// What the two public constructors of one opcode produced for an argument tuple.
struct Built {
    /// `op::x(args...)`
    short: Instruction,
    /// `op::X::new(args...)` converted with `Instruction::from`
    new: Instruction,
    /// `u32::from(op::X)`
    new_u32: u32,
    /// `<[u8; 4]>::from(op::X)`
    new_b4: [u8; 4],
    /// `<[u8; 3]>::from(op::X)`
    new_b3: [u8; 3],
}

macro_rules! sh_unpack {
    ($o:expr;) => {{ (0u8, [0u32; 4]) }};
    ($o:expr; R) => {{
        let a = $o.unpack();
        (1u8, [a.to_u8() as u32, 0, 0, 0])
    }};
    ($o:expr; R R) => {{
        let (a, b) = $o.unpack();
        (2u8, [a.to_u8() as u32, b.to_u8() as u32, 0, 0])
    }};
    ($o:expr; R R R) => {{
        let (a, b, c) = $o.unpack();
        (3u8, [a.to_u8() as u32, b.to_u8() as u32, c.to_u8() as u32, 0])
    }};
    ($o:expr; R R R R) => {{
        let (a, b, c, d) = $o.unpack();
        (4u8, [a.to_u8() as u32, b.to_u8() as u32, c.to_u8() as u32, d.to_u8() as u32])
    }};
    ($o:expr; R R R I06) => {{
        let (a, b, c, d) = $o.unpack();
        (4u8, [a.to_u8() as u32, b.to_u8() as u32, c.to_u8() as u32, d.to_u8() as u32])
    }};
    ($o:expr; R R I12) => {{
        let (a, b, c) = $o.unpack();
        (3u8, [a.to_u8() as u32, b.to_u8() as u32, c.to_u16() as u32, 0])
    }};
    ($o:expr; R I18) => {{
        let (a, b) = $o.unpack();
        (2u8, [a.to_u8() as u32, b.to_u32(), 0, 0])
    }};
    ($o:expr; I24) => {{
        let a = $o.unpack();
        (1u8, [a.to_u32(), 0, 0, 0])
    }};
}

/// the per-field accessors `ra() rb() rc() rd() imm06() imm12() imm18() imm24()`
macro_rules! sh_acc {
    ($o:expr;) => {{ (0u8, [0u32; 4]) }};
    ($o:expr; R) => {{ (1u8, [$o.ra().to_u8() as u32, 0, 0, 0]) }};
    ($o:expr; R R) => {{ (2u8, [$o.ra().to_u8() as u32, $o.rb().to_u8() as u32, 0, 0]) }};
    ($o:expr; R R R) => {{
        (3u8, [$o.ra().to_u8() as u32, $o.rb().to_u8() as u32, $o.rc().to_u8() as u32, 0])
    }};
    ($o:expr; R R R R) => {{
        (
            4u8,
            [
                $o.ra().to_u8() as u32,
                $o.rb().to_u8() as u32,
                $o.rc().to_u8() as u32,
                $o.rd().to_u8() as u32,
            ],
        )
    }};
    ($o:expr; R R R I06) => {{
        (
            4u8,
            [
                $o.ra().to_u8() as u32,
                $o.rb().to_u8() as u32,
                $o.rc().to_u8() as u32,
                $o.imm06().to_u8() as u32,
            ],
        )
    }};
    ($o:expr; R R I12) => {{
        (3u8, [$o.ra().to_u8() as u32, $o.rb().to_u8() as u32, $o.imm12().to_u16() as u32, 0])
    }};
    ($o:expr; R I18) => {{ (2u8, [$o.ra().to_u8() as u32, $o.imm18().to_u32(), 0, 0]) }};
    ($o:expr; I24) => {{ (1u8, [$o.imm24().to_u32(), 0, 0, 0]) }};
}

/// `op::X::new(...)` with typed arguments built by the masking `new` constructors
/// (arguments are in range, so nothing is masked away)
macro_rules! sh_new {
    ($Op:ident; $a:ident;) => {
        op::$Op::new()
    };
    ($Op:ident; $a:ident; R) => {
        op::$Op::new(RegId::new($a[0] as u8))
    };
    ($Op:ident; $a:ident; R R) => {
        op::$Op::new(RegId::new($a[0] as u8), RegId::new($a[1] as u8))
    };
    ($Op:ident; $a:ident; R R R) => {
        op::$Op::new(RegId::new($a[0] as u8), RegId::new($a[1] as u8), RegId::new($a[2] as u8))
    };
    ($Op:ident; $a:ident; R R R R) => {
        op::$Op::new(
            RegId::new($a[0] as u8),
            RegId::new($a[1] as u8),
            RegId::new($a[2] as u8),
            RegId::new($a[3] as u8),
        )
    };
    ($Op:ident; $a:ident; R R R I06) => {
        op::$Op::new(
            RegId::new($a[0] as u8),
            RegId::new($a[1] as u8),
            RegId::new($a[2] as u8),
            Imm06::new($a[3] as u8),
        )
    };
    ($Op:ident; $a:ident; R R I12) => {
        op::$Op::new(RegId::new($a[0] as u8), RegId::new($a[1] as u8), Imm12::new($a[2] as u16))
    };
    ($Op:ident; $a:ident; R I18) => {
        op::$Op::new(RegId::new($a[0] as u8), Imm18::new($a[1]))
    };
    ($Op:ident; $a:ident; I24) => {
        op::$Op::new(Imm24::new($a[0]))
    };
}

/// the shorthand constructor `op::x(...)` taking plain integers (checked, panics when out
/// of range)
macro_rules! sh_short {
    ($op:ident; $a:ident;) => {
        op::$op()
    };
    ($op:ident; $a:ident; R) => {
        op::$op($a[0] as u8)
    };
    ($op:ident; $a:ident; R R) => {
        op::$op($a[0] as u8, $a[1] as u8)
    };
    ($op:ident; $a:ident; R R R) => {
        op::$op($a[0] as u8, $a[1] as u8, $a[2] as u8)
    };
    ($op:ident; $a:ident; R R R R) => {
        op::$op($a[0] as u8, $a[1] as u8, $a[2] as u8, $a[3] as u8)
    };
    ($op:ident; $a:ident; R R R I06) => {
        op::$op($a[0] as u8, $a[1] as u8, $a[2] as u8, $a[3] as u8)
    };
    ($op:ident; $a:ident; R R I12) => {
        op::$op($a[0] as u8, $a[1] as u8, $a[2] as u16)
    };
    ($op:ident; $a:ident; R I18) => {
        op::$op($a[0] as u8, $a[1])
    };
    ($op:ident; $a:ident; I24) => {
        op::$op($a[0])
    };
}

macro_rules! instruction_table {
    ($( $byte:literal $Op:ident $op:ident [$($f:ident)*] )*) => {
        /// The reference table: opcode byte, mnemonic, argument shape.
        const TABLE: &[Row] = &[
            $( Row { byte: $byte, mnemonic: stringify!($Op), shape: &[$(Fld::$f),*] }, )*
        ];

        /// Public constructors of every opcode, parallel to `TABLE`.
        #[allow(unused_variables)]
        const CTORS: &[fn(&[u32; 4]) -> Built] = &[
            $( |a: &[u32; 4]| -> Built {
                let n = sh_new!($Op; a; $($f)*);
                Built {
                    short: sh_short!($op; a; $($f)*),
                    new: Instruction::from(n),
                    new_u32: u32::from(n),
                    new_b4: <[u8; 4]>::from(n),
                    new_b3: <[u8; 3]>::from(n),
                }
            }, )*
        ];

        /// (table byte of the variant's mnemonic, `unpack()` fields, accessor fields)
        #[allow(unused_variables)]
        #[inline]
        fn unpack_instr(i: &Instruction) -> Option<(u8, Fields, Fields)> {
            #[allow(unreachable_patterns)]
            match i {
                $( Instruction::$Op(o) => {
                    Some(($byte, sh_unpack!((*o); $($f)*), sh_acc!((*o); $($f)*)))
                } )*
                _ => None,
            }
        }

        /// What the interpreter does after `Opcode::try_from(raw[0])`:
        /// `fuel_asm::op::X::from_raw_args(raw_args)` selected by the `Opcode` variant.
        /// Returns (table byte of the variant's mnemonic, result with the parsed fields).
        #[allow(unused_variables)]
        #[inline]
        fn raw_dispatch(
            opc: Opcode,
            args: [u8; 3],
        ) -> Option<(u8, Result<(Instruction, Fields), InvalidOpcode>)> {
            #[allow(unreachable_patterns)]
            match opc {
                $( Opcode::$Op => Some((
                    $byte,
                    op::$Op::from_raw_args(args)
                        .map(|o| (Instruction::from(o), sh_unpack!(o; $($f)*))),
                )), )*
                _ => None,
            }
        }
    };
}

// The FuelVM instruction set (fuel-specs `instruction-set.md`), written by hand and
// cross-read against the `impl_instructions!` invocation in fuel-asm/src/lib.rs.
instruction_table! {
    // ---- ALU, three registers --------------------------------------------------------
    0x10 ADD  add   [R R R]
    0x11 AND  and   [R R R]
    0x12 DIV  div   [R R R]
    0x13 EQ   eq    [R R R]
    0x14 EXP  exp   [R R R]
    0x15 GT   gt    [R R R]
    0x16 LT   lt    [R R R]
    0x17 MLOG mlog  [R R R]
    0x18 MROO mroo  [R R R]
    0x19 MOD  mod_  [R R R]
    0x1a MOVE move_ [R R]
    0x1b MUL  mul   [R R R]
    0x1c NOT  not   [R R]
    0x1d OR   or    [R R R]
    0x1e SLL  sll   [R R R]
    0x1f SRL  srl   [R R R]
    0x20 SUB  sub   [R R R]
    0x21 XOR  xor   [R R R]
    0x22 MLDV mldv  [R R R R]
    0x23 NIOP niop  [R R R I06]
    // ---- control flow / memory / contract ---------------------------------------------
    0x24 RET  ret   [R]
    0x25 RETD retd  [R R]
    0x26 ALOC aloc  [R]
    0x27 MCL  mcl   [R R]
    0x28 MCP  mcp   [R R R]
    0x29 MEQ  meq   [R R R R]
    0x2a BHSH bhsh  [R R]
    0x2b BHEI bhei  [R]
    0x2c BURN burn  [R R]
    0x2d CALL call  [R R R R]
    0x2e CCP  ccp   [R R R R]
    0x2f CROO croo  [R R]
    0x30 CSIZ csiz  [R R]
    0x31 CB   cb    [R]
    0x32 LDC  ldc   [R R R I06]
    0x33 LOG  log   [R R R R]
    0x34 LOGD logd  [R R R R]
    0x35 MINT mint  [R R]
    0x36 RVRT rvrt  [R]
    0x37 SCWQ scwq  [R R R]
    0x38 SRW  srw   [R R R I06]
    0x39 SRWQ srwq  [R R R R]
    0x3a SWW  sww   [R R R]
    0x3b SWWQ swwq  [R R R R]
    0x3c TR   tr    [R R R]
    0x3d TRO  tro   [R R R R]
    0x3e ECK1 eck1  [R R R]
    0x3f ECR1 ecr1  [R R R]
    0x40 ED19 ed19  [R R R R]
    0x41 K256 k256  [R R R]
    0x42 S256 s256  [R R R]
    0x43 TIME time  [R R]
    // 0x44..=0x46 undefined
    0x47 NOOP noop  []
    0x48 FLAG flag  [R]
    0x49 BAL  bal   [R R R]
    0x4a JMP  jmp   [R]
    0x4b JNE  jne   [R R R]
    0x4c SMO  smo   [R R R R]
    // ---- two registers + imm12 ---------------------------------------------------------
    0x50 ADDI addi  [R R I12]
    0x51 ANDI andi  [R R I12]
    0x52 DIVI divi  [R R I12]
    0x53 EXPI expi  [R R I12]
    0x54 MODI modi  [R R I12]
    0x55 MULI muli  [R R I12]
    0x56 ORI  ori   [R R I12]
    0x57 SLLI slli  [R R I12]
    0x58 SRLI srli  [R R I12]
    0x59 SUBI subi  [R R I12]
    0x5a XORI xori  [R R I12]
    0x5b JNEI jnei  [R R I12]
    0x5c LB   lb    [R R I12]
    0x5d LW   lw    [R R I12]
    0x5e SB   sb    [R R I12]
    0x5f SW   sw    [R R I12]
    0x60 MCPI mcpi  [R R I12]
    0x61 GTF  gtf   [R R I12]
    0x62 LQW  lqw   [R R I12]
    0x63 LHW  lhw   [R R I12]
    0x64 SQW  sqw   [R R I12]
    0x65 SHW  shw   [R R I12]
    // ---- one register + imm18, relative jumps ------------------------------------------
    0x70 MCLI mcli  [R I18]
    0x71 GM   gm    [R I18]
    0x72 MOVI movi  [R I18]
    0x73 JNZI jnzi  [R I18]
    0x74 JMPF jmpf  [R I18]
    0x75 JMPB jmpb  [R I18]
    0x76 JNZF jnzf  [R R I12]
    0x77 JNZB jnzb  [R R I12]
    0x78 JNEF jnef  [R R R I06]
    0x79 JNEB jneb  [R R R I06]
    // ---- imm24, stack ---------------------------------------------------------------------
    0x90 JI   ji    [I24]
    0x91 CFEI cfei  [I24]
    0x92 CFSI cfsi  [I24]
    0x93 CFE  cfe   [R]
    0x94 CFS  cfs   [R]
    0x95 PSHL pshl  [I24]
    0x96 PSHH pshh  [I24]
    0x97 POPL popl  [I24]
    0x98 POPH poph  [I24]
    0x99 JAL  jal   [R R I12]
    // ---- wide integer ----------------------------------------------------------------------
    0xa0 WDCM wdcm  [R R R I06]
    0xa1 WQCM wqcm  [R R R I06]
    0xa2 WDOP wdop  [R R R I06]
    0xa3 WQOP wqop  [R R R I06]
    0xa4 WDML wdml  [R R R I06]
    0xa5 WQML wqml  [R R R I06]
    0xa6 WDDV wddv  [R R R I06]
    0xa7 WQDV wqdv  [R R R I06]
    0xa8 WDMD wdmd  [R R R R]
    0xa9 WQMD wqmd  [R R R R]
    0xaa WDAM wdam  [R R R R]
    0xab WQAM wqam  [R R R R]
    0xac WDMM wdmm  [R R R R]
    0xad WQMM wqmm  [R R R R]
    // ---- ecal, blobs, curves ---------------------------------------------------------------
    0xb0 ECAL ecal  [R R R R]
    0xba BSIZ bsiz  [R R]
    0xbb BLDD bldd  [R R R R]
    0xbc ECOP ecop  [R R R R]
    // 0xbd undefined
    0xbe EPAR epar  [R R R R]
    // ---- dynamic storage -------------------------------------------------------------------
    0xc0 SCLR sclr  [R R]
    0xc1 SRDD srdd  [R R R R]
    0xc2 SRDI srdi  [R R R I06]
    0xc3 SWRD swrd  [R R R]
    0xc4 SWRI swri  [R R I12]
    0xc5 SUPD supd  [R R R R]
    0xc6 SUPI supi  [R R R I06]
    0xc7 SPLD spld  [R R]
}

// ------------------------------------------------------------------------------------------
// everything derived from the table
// ------------------------------------------------------------------------------------------

#[derive(Clone, Copy)]
struct Info {
    /// index into TABLE, or usize::MAX for an undefined opcode byte
    row: usize,
    /// bits of the word that carry information (top byte + argument fields)
    mask: u32,
    n: u8,
    nregs: u8,
    shift: [u32; 4],
    fmask: [u32; 4],
}

impl Info {
    fn defined(&self) -> bool {
        self.row != usize::MAX
    }

    #[inline]
    fn fields(&self, w: u32) -> Fields {
        let mut f = [0u32; 4];
        for k in 0..self.n as usize {
            f[k] = (w >> self.shift[k]) & self.fmask[k];
        }
        (self.n, f)
    }
}

/// None when the table itself is malformed (a harness bug, never a finding).
fn build_info() -> Result<Box<[Info; 256]>, String> {
    let undef = Info { row: usize::MAX, mask: 0, n: 0, nregs: 0, shift: [0; 4], fmask: [0; 4] };
    let mut t = Box::new([undef; 256]);
    for (ix, r) in TABLE.iter().enumerate() {
        if t[r.byte as usize].defined() {
            return Err(format!("table: byte {:#04x} listed twice", r.byte));
        }
        if TABLE.iter().filter(|o| o.mnemonic == r.mnemonic).count() != 1 {
            return Err(format!("table: mnemonic {} listed twice", r.mnemonic));
        }
        if r.shape.len() > 4 {
            return Err(format!("table: {} has more than 4 fields", r.mnemonic));
        }
        let mut i = Info { row: ix, mask: 0xff00_0000, n: r.shape.len() as u8, ..undef };
        let mut pos = 24u32;
        let mut regs_done = false;
        for (k, f) in r.shape.iter().enumerate() {
            if f.width() > pos {
                return Err(format!("table: {} uses more than 24 argument bits", r.mnemonic));
            }
            pos -= f.width();
            i.shift[k] = pos;
            i.fmask[k] = (1u32 << f.width()) - 1;
            i.mask |= i.fmask[k] << pos;
            if *f == Fld::R {
                if regs_done {
                    return Err(format!("table: {} register after immediate", r.mnemonic));
                }
                i.nregs += 1;
            } else {
                regs_done = true;
            }
        }
        t[r.byte as usize] = i;
    }
    Ok(t)
}

fn pack_ref(byte: u8, inf: &Info, a: &[u32; 4]) -> u32 {
    let mut w = (byte as u32) << 24;
    for k in 0..inf.n as usize {
        w |= a[k] << inf.shift[k];
    }
    w
}

// violation kinds ------------------------------------------------------------------------

const K_ACC_UNDEF: usize = 0;
const K_ACC_RESERVED: usize = 1;
const K_REJ_VALID: usize = 2;
const K_REENCODE: usize = 3;
const K_OPCODE_FN: usize = 4;
const K_VARIANT: usize = 5;
const K_UNPACK: usize = 6;
const K_ACCESSOR: usize = 7;
const K_REGIDS: usize = 8;
const K_U32: usize = 9;
const K_OPCODE_TRY: usize = 10;
const K_RAW_ACC: usize = 11;
const K_RAW_REJ: usize = 12;
const K_RAW_FIELDS: usize = 13;
const K_RAW_INSTR: usize = 14;
const K_CT_SHORT: usize = 15;
const K_CT_NEW: usize = 16;
const K_CT_DECODE: usize = 17;
const K_CT_UNPACK: usize = 18;
const K_CT_PANIC: usize = 19;
const K_DEC_PANIC: usize = 20;
const K_ARGTYPE: usize = 21;
const NK: usize = 22;

const KIND: [&str; NK] = [
    "try_from accepts undefined opcode byte",
    "try_from accepts reserved bits",
    "try_from rejects valid word",
    "re-encoded word != word",
    "opcode() != top byte",
    "decodes to wrong variant",
    "unpack fields != bit fields",
    "accessor fields != bit fields",
    "reg_ids != register bit fields",
    "try_from(u32) != try_from([u8;4])",
    "Opcode::try_from disagrees with table",
    "from_raw_args accepts reserved bits",
    "from_raw_args rejects valid args",
    "from_raw_args fields != bit fields",
    "from_raw_args instruction != decoder instruction",
    "op::x() encoding != reference packing",
    "X::new() encoding != reference packing",
    "constructed instruction does not decode back",
    "constructed instruction unpack != arguments",
    "constructor panicked on in-range arguments",
    "decoder panicked on valid word",
    "argument type constructor wrong for in-range value",
];

const OK: usize = 0;
const UNDEF: usize = 1;
const RESERVED: usize = 2;
const OUTCOME: [&str; 3] = ["ok", "undefined opcode", "reserved bits set"];

fn label(b: u8, info: &[Info; 256]) -> String {
    let i = &info[b as usize];
    if i.defined() { TABLE[i.row].mnemonic.to_string() } else { format!("{b:#04x}") }
}

/// per-worker state
struct St<'a> {
    info: &'a [Info; 256],
    rep: Report,
    /// judged words per (opcode byte, oracle outcome)
    seen: Box<[[u64; 3]; 256]>,
    /// words per opcode byte on which decoder and oracle agreed on "ok"
    ok_agree: Box<[u64; 256]>,
    /// constructor tuples per table row
    built: Vec<u64>,
    vio: Box<[[u64; NK]; 256]>,
    sample_quota: [u32; 3],
    last_sample_byte: Option<u8>,
    words: u64,
    raw_calls: u64,
}

impl<'a> St<'a> {
    fn new(info: &'a [Info; 256], samples: bool) -> Self {
        St {
            info,
            rep: Report::new(),
            seen: Box::new([[0; 3]; 256]),
            ok_agree: Box::new([0; 256]),
            built: vec![0; TABLE.len()],
            vio: Box::new([[0; NK]; 256]),
            sample_quota: if samples { [2, 1, 2] } else { [0; 3] },
            last_sample_byte: None,
            words: 0,
            raw_calls: 0,
        }
    }

    /// `b` names the opcode (mnemonic or undefined byte) the violation is filed under.
    #[cold]
    #[inline(never)]
    fn viol(&mut self, b: u8, kind: usize, dir: &str, w: u32, what: impl FnOnce() -> String) {
        let c = &mut self.vio[b as usize][kind];
        *c += 1;
        if *c <= crate::MAX_VIOLATIONS_PER_SIG {
            let sig = format!("C08|{}|{}", label(b, self.info), KIND[kind]);
            let what = format!("word {w:#010x}: {}", what());
            let dir = dir.to_string();
            self.rep.violation(sig, what, || json!({"dir": dir, "word": format!("{w:#010x}")}));
            // `Report::violation` has counted it; the overflow is added in `finish`
        }
    }

    fn finish(mut self) -> Report {
        for b in 0..256usize {
            for k in 0..NK {
                let c = self.vio[b][k];
                if c > crate::MAX_VIOLATIONS_PER_SIG {
                    let sig = format!("C08|{}|{}", label(b as u8, self.info), KIND[k]);
                    *self.rep.violation_counts.entry(sig).or_insert(0) +=
                        c - crate::MAX_VIOLATIONS_PER_SIG;
                }
            }
            for o in 0..3 {
                if self.seen[b][o] > 0 {
                    self.rep.class(format!("{}|{}", label(b as u8, self.info), OUTCOME[o]));
                    self.rep.count_n(&format!("words_{}", OUTCOME[o].replace(' ', "_")), self.seen[b][o]);
                }
            }
            if self.ok_agree[b] > 0 {
                // merged by summing; the gate counts the non-zero ones
                self.rep.count_n(&format!("okdec_{b:02x}"), self.ok_agree[b]);
            }
        }
        for (ix, n) in self.built.iter().enumerate() {
            if *n > 0 {
                self.rep.class(format!("{}|constructed", TABLE[ix].mnemonic));
                self.rep.count_n(&format!("ctor_{:02x}", TABLE[ix].byte), *n);
                self.rep.count_n("ctor_tuples", *n);
            }
        }
        self.rep.count_n("words", self.words);
        self.rep.count_n("from_raw_args_calls", self.raw_calls);
        self.rep.evaluations += self.words;
        self.rep
    }

    /// Decode direction for one word. `opc` = `Opcode::try_from(top byte)` of the
    /// implementation (what the interpreter dispatches on).
    #[inline]
    fn check_word(&mut self, w: u32, opc: Option<Opcode>, seen: &mut [u64; 3], okc: &mut u64) {
        let b = (w >> 24) as u8;
        let inf = self.info[b as usize];
        let bytes = w.to_be_bytes();
        let cat = if !inf.defined() {
            UNDEF
        } else if w & !inf.mask != 0 {
            RESERVED
        } else {
            OK
        };
        seen[cat] += 1;

        let d = Instruction::try_from(bytes);
        match (&d, cat) {
            (Ok(i), UNDEF) => self.viol(b, K_ACC_UNDEF, "decode", w, || format!("decoded to {i:?}")),
            (Ok(i), RESERVED) => self.viol(b, K_ACC_RESERVED, "decode", w, || {
                format!("decoded to {i:?} although reserved bits {:#08x} are set", w & !inf.mask)
            }),
            (Err(_), OK) => self.viol(b, K_REJ_VALID, "decode", w, || {
                "Instruction::try_from returned InvalidOpcode for a defined opcode with zero reserved bits".into()
            }),
            _ => {}
        }
        if Instruction::try_from(w) != d {
            self.viol(b, K_U32, "decode", w, || "the two decoders disagree".into());
        }
        if let Ok(i) = &d {
            let re = u32::from(*i);
            let rb = i.to_bytes();
            if re != w || rb != bytes {
                self.viol(b, K_REENCODE, "decode", w, || {
                    format!("{i:?} re-encodes to {re:#010x} / to_bytes {rb:02x?}")
                });
            }
            let ob = i.opcode() as u8;
            if ob != b {
                self.viol(b, K_OPCODE_FN, "decode", w, || format!("{i:?}.opcode() as u8 = {ob:#04x}"));
            }
            if cat == OK {
                *okc += 1;
                let want = inf.fields(w);
                match unpack_instr(i) {
                    Some((tb, _, _)) if tb != b => self.viol(b, K_VARIANT, "decode", w, || {
                        format!("decoded to variant {i:?} which the table lists at byte {tb:#04x}")
                    }),
                    None => self.viol(b, K_VARIANT, "decode", w, || {
                        format!("decoded to variant {i:?} which the table does not list")
                    }),
                    Some((_, un, acc)) => {
                        if un != want {
                            self.viol(b, K_UNPACK, "decode", w, || {
                                format!("unpack() = {:?}, bit fields = {:?}", &un.1[..un.0 as usize], &want.1[..want.0 as usize])
                            });
                        }
                        if acc != want {
                            self.viol(b, K_ACCESSOR, "decode", w, || {
                                format!("accessors = {:?}, bit fields = {:?}", &acc.1[..acc.0 as usize], &want.1[..want.0 as usize])
                            });
                        }
                        let ids = i.reg_ids();
                        let mut good = true;
                        for k in 0..4usize {
                            let e = if k < inf.nregs as usize { Some(want.1[k]) } else { None };
                            good &= ids[k].map(|r| r.to_u8() as u32) == e;
                        }
                        if !good {
                            self.viol(b, K_REGIDS, "decode", w, || {
                                format!("reg_ids() = {ids:?}, register bit fields = {:?}", &want.1[..inf.nregs as usize])
                            });
                        }
                    }
                }
            }
        }

        // the interpreter's parser
        if let Some(opc) = opc {
            if let Some((tb, r)) = raw_dispatch(opc, [bytes[1], bytes[2], bytes[3]]) {
                self.raw_calls += 1;
                // judged with the shape of the op struct that was actually called
                let ti = self.info[tb as usize];
                let tw = (w & 0x00ff_ffff) | ((tb as u32) << 24);
                let reserved = tw & !ti.mask;
                match &r {
                    Ok((ri, rf)) => {
                        if reserved != 0 {
                            self.viol(tb, K_RAW_ACC, "decode", w, || {
                                format!("op::{}::from_raw_args({:02x?}) = Ok({ri:?}) although reserved bits {reserved:#08x} are set", TABLE[ti.row].mnemonic, &bytes[1..])
                            });
                        } else {
                            let want = ti.fields(tw);
                            if *rf != want {
                                self.viol(tb, K_RAW_FIELDS, "decode", w, || {
                                    format!("from_raw_args(..).unpack() = {:?}, bit fields = {:?}", &rf.1[..rf.0 as usize], &want.1[..want.0 as usize])
                                });
                            }
                            if tb == b {
                                if let Ok(i) = &d {
                                    if ri != i {
                                        self.viol(tb, K_RAW_INSTR, "decode", w, || {
                                            format!("from_raw_args gives {ri:?}, Instruction::try_from gives {i:?}")
                                        });
                                    }
                                }
                            }
                        }
                    }
                    Err(_) => {
                        if reserved == 0 {
                            self.viol(tb, K_RAW_REJ, "decode", w, || {
                                format!("op::{}::from_raw_args({:02x?}) = Err(InvalidOpcode)", TABLE[ti.row].mnemonic, &bytes[1..])
                            });
                        }
                    }
                }
            }
        }

        if self.sample_quota[cat] > 0 && w & 0x00ff_ffff != 0 && self.last_sample_byte != Some(b) {
            self.sample_quota[cat] -= 1;
            self.last_sample_byte = Some(b);
            let lab = label(b, self.info);
            self.rep.sample(|| {
                json!({
                    "dir": "decode", "word": format!("{w:#010x}"), "opcode": lab,
                    "oracle": OUTCOME[cat],
                    "oracle_fields": if cat == OK { json!(inf.fields(w).1[..inf.n as usize]) } else { Value::Null },
                    "try_from": format!("{d:?}"),
                })
            });
        }
    }

    /// A run of words with the same top byte, guarded as a whole; word by word only if the
    /// run panicked.
    fn check_words<I: Iterator<Item = u32> + Clone>(&mut self, b: u8, words: I) {
        let opc = Opcode::try_from(b).ok();
        let mut seen = [0u64; 3];
        let mut okc = 0u64;
        let it = words.clone();
        let r = guarded(|| {
            for w in it {
                self.check_word(w, opc, &mut seen, &mut okc);
            }
        });
        if r.is_err() {
            self.rep.count("runs_repeated_word_by_word_after_panic");
            seen = [0; 3];
            okc = 0;
            for w in words {
                let mut s1 = [0u64; 3];
                let mut o1 = 0u64;
                match guarded(|| self.check_word(w, opc, &mut s1, &mut o1)) {
                    Ok(()) => {
                        for k in 0..3 {
                            seen[k] += s1[k];
                        }
                        okc += o1;
                    }
                    Err(p) => self.decoder_panic(w, p),
                }
            }
        }
        for k in 0..3 {
            self.seen[b as usize][k] += seen[k];
            self.words += seen[k];
        }
        self.ok_agree[b as usize] += okc;
    }

    fn decoder_panic(&mut self, w: u32, p: Panicked) {
        let b = (w >> 24) as u8;
        let inf = self.info[b as usize];
        if inf.defined() && w & !inf.mask == 0 {
            self.words += 1;
            self.seen[b as usize][OK] += 1;
            self.viol(b, K_DEC_PANIC, "decode", w, || format!("panic {}", p.text));
        } else {
            // the property only says such a word is not decoded; described, not judged
            self.rep.count("unspecified_panic_on_invalid_word");
            self.rep.note(format!("decoding invalid word {w:#010x} panicked: {}", p.text));
        }
    }

    /// Constructor direction for one in-range argument tuple of table row `ix`.
    #[inline]
    fn check_ctor(&mut self, ix: usize, a: &[u32; 4]) {
        let row = &TABLE[ix];
        let b = row.byte;
        let inf = self.info[b as usize];
        let exp = pack_ref(b, &inf, a);
        let built = (CTORS[ix])(a);
        let want: Fields = (inf.n, *a);

        let es = u32::from(built.short);
        if es != exp || built.short.to_bytes() != exp.to_be_bytes() {
            self.viol(b, K_CT_SHORT, "ctor", exp, || {
                format!("op::{}{:?} encodes to {es:#010x}, reference packing {exp:#010x}", row.mnemonic.to_lowercase(), &a[..inf.n as usize])
            });
        }
        let en = u32::from(built.new);
        let eb = exp.to_be_bytes();
        if en != exp
            || built.new_u32 != exp
            || built.new_b4 != eb
            || built.new_b3 != [eb[1], eb[2], eb[3]]
            || built.new.to_bytes() != eb
        {
            self.viol(b, K_CT_NEW, "ctor", exp, || {
                format!("op::{}::new{:?} encodes to {en:#010x} (u32::from(op) {:#010x}, bytes {:02x?}), reference packing {exp:#010x}", row.mnemonic, &a[..inf.n as usize], built.new_u32, built.new_b4)
            });
        }
        for (name, i, e) in [("op::x", built.short, es), ("X::new", built.new, en)] {
            // the constructed instruction's own view of its opcode and arguments
            let own = unpack_instr(&i);
            let own_ok = matches!(own, Some((tb, un, acc)) if tb == b && un == want && acc == want)
                && i.opcode() as u8 == b;
            if !own_ok {
                self.viol(b, K_CT_UNPACK, "ctor", exp, || {
                    format!("{name}{:?} = {i:?}: opcode() {:#04x}, unpack {:?}", &a[..inf.n as usize], i.opcode() as u8, own.map(|o| (o.0, o.1.1, o.2.1)))
                });
            }
            // and it decodes (from its own encoding) to the same opcode and arguments
            let d = Instruction::try_from(e.to_be_bytes());
            let dec_ok = match &d {
                Ok(di) => {
                    *di == i
                        && matches!(unpack_instr(di), Some((tb, un, _)) if tb == b && un == want)
                }
                Err(_) => false,
            };
            if !dec_ok {
                self.viol(b, K_CT_DECODE, "ctor", exp, || {
                    format!("{name}{:?} = {i:?} encodes to {e:#010x} which decodes to {d:?}", &a[..inf.n as usize])
                });
            }
        }
        self.built[ix] += 1;
        self.rep.evaluations += 1;
    }

    /// guarded run of constructor tuples
    fn check_ctors<I: Iterator<Item = [u32; 4]> + Clone>(&mut self, ix: usize, tuples: I) {
        let it = tuples.clone();
        let r = guarded(|| {
            for a in it {
                self.check_ctor(ix, &a);
            }
        });
        if r.is_err() {
            // find the panicking tuples; tuples before the panic are judged twice (harmless)
            self.rep.count("runs_repeated_tuple_by_tuple_after_panic");
            for a in tuples {
                if let Err(p) = guarded(|| self.check_ctor(ix, &a)) {
                    let b = TABLE[ix].byte;
                    let inf = self.info[b as usize];
                    let exp = pack_ref(b, &inf, &a);
                    self.rep.evaluations += 1;
                    self.viol(b, K_CT_PANIC, "ctor", exp, || {
                        format!("{}{:?}: panic {}", TABLE[ix].mnemonic, &a[..inf.n as usize], p.text)
                    });
                }
            }
        }
    }

    /// `Opcode::try_from(u8)` against `defined()`, numbering and naming
    fn check_opcode_byte(&mut self, b: u8) {
        let inf = self.info[b as usize];
        let r = Opcode::try_from(b);
        self.rep.evaluations += 1;
        self.rep.count("opcode_try_from_calls");
        let good = match (&r, inf.defined()) {
            (Err(_), false) => true,
            (Ok(o), true) => {
                *o as u8 == b && u8::from(*o) == b && format!("{o:?}") == TABLE[inf.row].mnemonic
            }
            _ => false,
        };
        if !good {
            let w = (b as u32) << 24;
            self.viol(b, K_OPCODE_TRY, "decode", w, || {
                format!(
                    "Opcode::try_from({b:#04x}) = {r:?}{}, table says {}",
                    r.as_ref().map(|o| format!(" (as u8 = {:#04x})", *o as u8)).unwrap_or_default(),
                    if inf.defined() { TABLE[inf.row].mnemonic } else { "undefined" }
                )
            });
        }
    }
}

// ------------------------------------------------------------------------------------------
// workloads
// ------------------------------------------------------------------------------------------

const SIX: [u32; 6] = [0, 1, 0x0f, 0x10, 0x3e, 0x3f];

/// low-24-bit patterns shared by all opcode bytes in the quick tier
fn structured_lows() -> Vec<u32> {
    let mut v = vec![];
    for a in SIX {
        for b in SIX {
            for c in SIX {
                for d in SIX {
                    v.push(a << 18 | b << 12 | c << 6 | d);
                }
            }
        }
    }
    for i in 0..24 {
        v.push(1 << i);
        v.push(0x00ff_ffff ^ (1 << i));
        v.push((1u32 << i) - 1);
        v.push(0x00ff_ffff & !((1u32 << i) - 1));
        for j in 0..i {
            v.push(1 << i | 1 << j);
        }
    }
    // every field-aligned prefix with exactly one lower bit set (reserved-bit probes for
    // every shape) and with all fields at their maximum
    for keep in [6u32, 12, 18] {
        let top = 0x00ff_ffff & !((1u32 << (24 - keep)) - 1);
        for i in 0..(24 - keep) {
            v.push(top | 1 << i);
            v.push(1 << i);
        }
        v.push(top);
    }
    v.push(0x00ff_ffff);
    v
}

fn random_low(rng: &mut Rng, i: u64) -> u32 {
    let r = rng.u32() & 0x00ff_ffff;
    match i % 8 {
        0 => r,
        1 => r & 0x00ff_ffc0,
        2 => r & 0x00ff_f000,
        3 => r & 0x00fc_0000,
        4 => (r & 0x00ff_ffc0) | 1 << rng.below(6),
        5 => (r & 0x00ff_f000) | 1 << rng.below(12),
        6 => (r & 0x00fc_0000) | 1 << rng.below(18),
        _ => 1 << rng.below(24) | 1 << rng.below(24),
    }
}

/// tuple number `v` of row `ix` (fields are the bit fields of `v`, i.e. all in range)
#[inline]
fn tuple_of(inf: &Info, v: u32) -> [u32; 4] {
    // v enumerates the used argument bits compactly: shift out the reserved low bits
    let low = inf.shift[(inf.n as usize).saturating_sub(1)];
    let w = if inf.n == 0 { 0 } else { v << low };
    inf.fields(w).1
}

fn arg_bits(inf: &Info) -> u32 {
    (inf.mask & 0x00ff_ffff).count_ones()
}

fn boundary_values(width: u32) -> Vec<u32> {
    let max = (1u32 << width) - 1;
    let mut v = vec![0, 1, 2, max, max - 1, max >> 1, (max >> 1) + 1, 0x0f & max, 0x10, 0x3e, 0x3f];
    if width > 6 {
        v.extend([0x40, 0x555555 & max, 0xaaaaaa & max, 0xff, 0x100]);
        for i in 0..width {
            v.push(1 << i);
            v.push(max ^ (1 << i));
        }
    }
    if width > 12 {
        v.extend([0xfff, 0x1000, 0xffff, 0x1_0000]);
    }
    v.retain(|x| *x <= max);
    v.sort_unstable();
    v.dedup();
    v
}

/// all combinations of per-field boundary values
fn boundary_tuples(shape: &[Fld]) -> Vec<[u32; 4]> {
    let mut out = vec![[0u32; 4]];
    for (k, f) in shape.iter().enumerate() {
        let vals = boundary_values(f.width());
        let mut next = Vec::with_capacity(out.len() * vals.len());
        for t in &out {
            for v in &vals {
                let mut t2 = *t;
                t2[k] = *v;
                next.push(t2);
            }
        }
        out = next;
    }
    out
}

/// The masking / checked constructors of the argument types, judged for in-range values
/// only; the behaviour on out-of-range values is counted, not judged.
fn check_arg_types(st: &mut St) {
    macro_rules! ty {
        ($T:ident, $prim:ty, $width:expr, $get:ident, $range:expr) => {{
            let max: u64 = (1u64 << $width) - 1;
            let (mut inr, mut oor_mask, mut oor_other, mut oor_panic) = (0u64, 0u64, 0u64, 0u64);
            for v in $range {
                let v: $prim = v as $prim;
                let r = guarded(|| {
                    (
                        $T::new(v).$get(),
                        $T::new_checked(v).map(|x| x.$get()),
                        <$prim>::from($T::from(v)),
                    )
                });
                if (v as u64) <= max {
                    inr += 1;
                    let good = matches!(&r, Ok((a, Some(b), c)) if *a == v && *b == v && *c == v);
                    if !good {
                        let sig = format!("C08|{}|{}", stringify!($T), KIND[K_ARGTYPE]);
                        st.rep.violation(
                            sig,
                            format!(
                                "{}: (new, new_checked, from)({v}) = {:?}",
                                stringify!($T),
                                r.as_ref().map_err(|p| p.text.clone())
                            ),
                            || json!({"dir": "argtype"}),
                        );
                    }
                } else {
                    match &r {
                        Ok((a, None, _)) if (*a as u64) == (v as u64 & max) => oor_mask += 1,
                        Ok(_) => oor_other += 1,
                        Err(_) => oor_panic += 1,
                    }
                }
            }
            st.rep.evaluations += inr;
            st.rep.count_n(concat!("argtype_", stringify!($T), "_in_range"), inr);
            st.rep.count_n(concat!("oor_", stringify!($T), "_new_masks_new_checked_none"), oor_mask);
            if oor_other > 0 {
                st.rep.count_n(concat!("oor_", stringify!($T), "_other_behaviour"), oor_other);
            }
            if oor_panic > 0 {
                st.rep.count_n(concat!("oor_", stringify!($T), "_panics"), oor_panic);
            }
        }};
    }
    ty!(RegId, u8, 6, to_u8, 0..=255u32);
    ty!(Imm06, u8, 6, to_u8, 0..=255u32);
    ty!(Imm12, u16, 12, to_u16, 0..=65535u32);
    ty!(Imm18, u32, 18, to_u32, (0..(1u32 << 18)).chain(boundary_values(24).into_iter().map(|x| x | 1 << 18)).chain([u32::MAX, 1 << 31, 1 << 18]));
    ty!(Imm24, u32, 24, to_u32, (0..(1u32 << 24)).chain([u32::MAX, 1 << 31, 1 << 24, 0x0100_0001]));
}

fn parse_word(v: &Value) -> Option<u32> {
    let s = v.as_str()?;
    u32::from_str_radix(s.trim_start_matches("0x"), 16).ok()
}

fn replay(cfg: &Cfg, info: &[Info; 256], rec: &Value) -> Report {
    let mut st = St::new(info, true);
    let dir = rec.get("dir").and_then(|d| d.as_str()).unwrap_or("decode").to_string();
    if dir == "argtype" {
        check_arg_types(&mut st);
    } else {
        let Some(w) = rec.get("word").and_then(parse_word) else {
            let mut r = Report::new();
            r.inconclusive = Some("replay record without a `word`".into());
            return r;
        };
        let b = (w >> 24) as u8;
        if dir == "ctor" {
            let inf = info[b as usize];
            if inf.defined() && w & !inf.mask == 0 {
                let a = inf.fields(w).1;
                st.check_ctors(inf.row, std::iter::once(a));
            } else {
                st.rep.inconclusive = Some("ctor replay word is not a reference packing".into());
            }
        } else {
            st.check_opcode_byte(b);
            st.check_words(b, std::iter::once(w));
        }
    }
    let mut rep = st.finish();
    rep.rule = format!("replay of one {dir} case");
    let _ = cfg;
    rep
}

/// The executing interpreter against the decoder: a word with a defined opcode byte and a
/// reserved bit set (rejected by `Instruction::try_from`) is placed first in a script and
/// executed; the VM must panic with `InvalidInstruction` at that word - it has its own
/// per-opcode argument parsers, and an arm that skips them would run such a word.
fn vm_agreement(cfg: &Cfg, info: &[Info; 256]) -> Report {
    use crate::world::{
        ScriptSpec,
        World,
        run_plain,
    };
    let mut rep = Report::new();
    let world = World::new(fuel_tx::ConsensusParameters::standard(), 0);
    let mut rng = Rng::derive(cfg.seed, 0x08e0, 0);
    for b in 0..=255u32 {
        let inf = &info[b as usize];
        if inf.row == usize::MAX {
            continue;
        }
        let reserved = !inf.mask & 0x00ff_ffff;
        if reserved == 0 {
            continue;
        }
        // lowest, highest and one random reserved bit; once alone, once with random operands
        let bits: Vec<u32> = (0..24).filter(|k| reserved >> k & 1 == 1).collect();
        let picks = [bits[0], bits[bits.len() - 1], bits[rng.usize_below(bits.len())]];
        for (n, k) in picks.iter().enumerate() {
            let operands = if n == 2 { rng.u32() & inf.mask & 0x00ff_ffff } else { 0 };
            let word = (b << 24) | operands | (1 << k);
            if fuel_asm::Instruction::try_from(word.to_be_bytes()).is_ok() {
                continue; // the decoder's verdict on such words is judged above
            }
            let mut script = word.to_be_bytes().to_vec();
            script.extend_from_slice(&fuel_asm::op::ret(fuel_asm::RegId::ONE).to_bytes());
            let spec = ScriptSpec { script, data: vec![], gas_limit: 100_000, max_fee: 0, coins: vec![(0, 0, 1000)], ..Default::default() };
            let Ok(ready) = spec.ready(&world, b as u64 * 4 + n as u64) else {
                rep.count("vm_agreement_script_rejected");
                continue;
            };
            let (out, _) = run_plain(&world, ready);
            rep.eval();
            rep.count("vm_executed_words_with_reserved_bits");
            let panic = out.receipts.iter().find_map(|r| match r {
                fuel_tx::Receipt::Panic { reason, pc, is, .. } => Some((*reason.reason(), *pc == *is)),
                _ => None,
            });
            let mn = TABLE.get(inf.row).map(|r| r.mnemonic).unwrap_or("?");
            rep.class(format!("vm|{mn}|reserved bit|{:?}", panic.map(|p| p.0)));
            if panic != Some((fuel_asm::PanicReason::InvalidInstruction, true)) {
                let info_j = json!({"kind": "vm", "word": format!("{word:#010x}")});
                rep.violation(
                    format!("C08|interpreter executes a word the decoder rejects|{mn}"),
                    format!("word {word:#010x} (reserved bit {k} set): Instruction::try_from rejects it, executed first in a script the VM ended with {:?} / {:?}", out.state, panic),
                    || info_j.clone(),
                );
            }
        }
    }
    rep
}

pub fn run(cfg: &Cfg) -> Report {
    let info = match build_info() {
        Ok(i) => i,
        Err(e) => {
            let mut r = Report::new();
            r.inconclusive = Some(format!("harness reference table malformed: {e}"));
            return r;
        }
    };
    let info: &[Info; 256] = &info;
    if let Some(rec) = &cfg.replay {
        return replay(cfg, info, rec);
    }
    let threads = cfg.threads.max(1);
    let thorough = cfg.thorough;
    let lows = structured_lows();
    // quick: 2^18 words per opcode byte (structured + random), 2^26 in total
    let per_byte: u64 = cfg.budget(1 << 18, 1 << 18).max(lows.len() as u64);
    let rand_tuples: u64 = cfg.budget(1 << 16, 1 << 16);

    let mut rep = par(threads, |worker| {
        let mut st = St::new(info, worker == 0);

        // ---- decode direction ----------------------------------------------------------
        if thorough {
            // all 2^32 words: run c covers words c<<16 .. (c+1)<<16
            for c in (worker as u32..65536).step_by(threads) {
                let start = c << 16;
                st.check_words((c >> 8) as u8, (0..65536u32).map(move |lo| start | lo));
            }
        } else {
            for b in (worker..256).step_by(threads) {
                let top = (b as u32) << 24;
                for chunk in lows.chunks(4096) {
                    st.check_words(b as u8, chunk.iter().map(move |lo| top | lo));
                }
                let nrand = per_byte - lows.len() as u64;
                let mut done = 0u64;
                while done < nrand {
                    let n = (nrand - done).min(4096);
                    let base = done;
                    let rng0 = Rng::derive(cfg.seed, 0x0800 + b as u64, done);
                    st.check_words(
                        b as u8,
                        RandLows { rng: rng0, i: base, end: base + n, top },
                    );
                    done += n;
                }
            }
        }
        if worker == 0 {
            for b in 0..=255u8 {
                st.check_opcode_byte(b);
            }
        }
        if worker == 1 % threads {
            check_arg_types(&mut st);
        }

        // ---- constructor direction -------------------------------------------------------
        // unit of work: 4096 consecutive tuples of one opcode
        let mut unit = 0usize;
        for (ix, row) in TABLE.iter().enumerate() {
            let inf = info[row.byte as usize];
            let bits = arg_bits(&inf);
            if thorough || bits <= 18 {
                let total = 1u64 << bits;
                let mut v0 = 0u64;
                while v0 < total {
                    let n = (total - v0).min(4096);
                    if unit % threads == worker {
                        let lo = v0 as u32;
                        st.check_ctors(ix, (lo..lo + n as u32).map(move |v| tuple_of(&inf, v)));
                    }
                    unit += 1;
                    v0 += n;
                }
            } else {
                if unit % threads == worker {
                    let bt = boundary_tuples(row.shape);
                    st.rep.count_n("ctor_boundary_tuples", bt.len() as u64);
                    for chunk in bt.chunks(4096) {
                        st.check_ctors(ix, chunk.iter().copied());
                    }
                    let mut rng = Rng::derive(cfg.seed, 0x08c0, ix as u64);
                    let rt: Vec<[u32; 4]> =
                        (0..rand_tuples).map(|_| tuple_of(&inf, rng.u32() & 0x00ff_ffff)).collect();
                    st.rep.count_n("ctor_random_tuples", rt.len() as u64);
                    for chunk in rt.chunks(4096) {
                        st.check_ctors(ix, chunk.iter().copied());
                    }
                }
                unit += 1;
            }
        }
        if worker == 0 {
            let ix = TABLE.iter().position(|r| r.mnemonic == "ADDI").unwrap_or(0);
            let a = [0x10, 0x3f, 0xabc, 0];
            let inf = info[TABLE[ix].byte as usize];
            let built = guarded(|| (CTORS[ix])(&a));
            st.rep.sample(|| {
                json!({"dir": "ctor", "opcode": TABLE[ix].mnemonic, "args": a[..inf.n as usize],
                    "reference_packing": format!("{:#010x}", pack_ref(TABLE[ix].byte, &inf, &a)),
                    "op::x": built.as_ref().map(|b| format!("{:#010x}", u32::from(b.short))).unwrap_or_default(),
                    "X::new": built.as_ref().map(|b| format!("{:#010x}", b.new_u32)).unwrap_or_default()})
            });
        }
        st.finish()
    });

    // ---- coverage ---------------------------------------------------------------------------
    let ok_ops = (0..256usize)
        .filter(|b| info[*b].defined() && rep.counter(&format!("okdec_{b:02x}")) > 0)
        .count() as u64;
    let built_ops =
        TABLE.iter().filter(|r| rep.counter(&format!("ctor_{:02x}", r.byte)) > 0).count() as u64;
    let undefined_seen = rep.classes.iter().filter(|c| c.ends_with("|undefined opcode")).count() as u64;
    // per-opcode counters were only needed for the gates
    rep.counters.retain(|k, _| !(k.starts_with("okdec_") || k.starts_with("ctor_") && k.len() == 7));
    rep.count_n("table_rows", TABLE.len() as u64);
    rep.gate("defined_opcodes_decoded_ok", ok_ops, TABLE.len() as u64);
    rep.gate("opcodes_constructed", built_ops, TABLE.len() as u64);
    rep.gate("undefined_opcode_bytes_probed", undefined_seen, 256 - TABLE.len() as u64);
    rep.gate("opcode_try_from_calls", rep.counter("opcode_try_from_calls"), 256);
    rep.merge(vm_agreement(cfg, info));
    rep.gate("vm_executed_words_with_reserved_bits", rep.counter("vm_executed_words_with_reserved_bits"), 100);
    if thorough {
        rep.gate("words", rep.counter("words"), 1 << 32);
        rep.exhaustive = rep.counter("words") == 1 << 32;
        // both sides of the bijection were enumerated completely: their sizes must agree
        // (a property of the table alone; a mismatch would be a harness bug)
        if rep.counter("words_ok") != rep.counter("ctor_tuples") {
            rep.inconclusive = Some(format!(
                "harness: {} valid words but {} in-range argument tuples",
                rep.counter("words_ok"),
                rep.counter("ctor_tuples")
            ));
        }
        rep.rule = "decode: ALL 2^32 words (Instruction::try_from([u8;4]) and (u32), re-encode, opcode(), unpack(), field accessors, reg_ids(), op::X::from_raw_args selected through Opcode::try_from as the interpreter does); constructors: every opcode x every in-range argument tuple of its shape (exhaustive, up to 2^24 per opcode) through op::x(..) and op::X::new(..). vm: per defined opcode three words with a reserved bit set executed as the first instruction of a script: the VM must panic with InvalidInstruction at that word. class = (opcode, decode outcome) and (opcode, constructed)".into();
    } else {
        rep.rule = "decode: 2^26 words = every opcode byte (256) x 2^18 low-bit patterns (all combinations of the four 6-bit fields over {0,1,0x0f,0x10,0x3e,0x3f}, single/double bit walks, field-aligned prefixes with one reserved bit, random); constructors: exhaustive for shapes <= 18 argument bits, per-field boundary cross product + 2^16 random tuples for 24-bit shapes. vm: per defined opcode three words with a reserved bit set executed as the first instruction of a script: the VM must panic with InvalidInstruction at that word. class = (opcode, decode outcome) and (opcode, constructed)".into();
    }
    rep.assume("reference: hand-written table opcode byte -> (mnemonic, field shape) in c08.rs (FuelVM instruction set, cross-read once against fuel-asm/src/lib.rs of the tree at authoring time); fields are packed MSB-first from bit 23, remaining low bits reserved");
    rep.assume("the harness reaches the typed per-opcode API (op::X, Instruction::X) through the same table, so an opcode added to or removed from fuel-asm without updating the table shows up as an accepted undefined byte / a build error, not silently");
    rep.note("out-of-range arguments are outside the property: RegId/ImmNN::new mask, new_checked returns None, op::x(..) panics; observed behaviour is counted under oor_*");
    rep
}

#[derive(Clone)]
struct RandLows {
    rng: Rng,
    i: u64,
    end: u64,
    top: u32,
}

impl Iterator for RandLows {
    type Item = u32;

    fn next(&mut self) -> Option<u32> {
        if self.i >= self.end {
            return None;
        }
        let lo = random_low(&mut self.rng, self.i);
        self.i += 1;
        Some(self.top | lo)
    }
}
