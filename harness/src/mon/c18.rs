//! C18 Fee and refund arithmetic is monotone and bounded by the fee limit.
//!
//! The monitor executes `Chargeable::{min_gas, max_gas, min_fee, max_fee, refund_fee}` and
//! `TransactionFee::checked_from_tx` on free-form transactions of the five chargeable kinds
//! and writes what it observed to an event log (all numbers as decimal strings). The
//! statement itself is evaluated offline with Python integers by `tools/oracles/fees.py`.
//! Panics and the `Checked::into_ready` verdict (needs a valid checked transaction) are
//! judged here.
//!
//! Event log (`{work_dir}/C18.<seed>.<worker>.jsonl`):
//! * `{"k":"tx","id":N,"kind":..,"hex":..}` canonical bytes of the transaction the following
//!   case lines refer to (the policy *values* tip / witness limit / max fee are overwritten
//!   per case with the values of the case line; the set of present policies is fixed),
//! * `{"k":"c","tx":N,"kind":..,"sched":..,"gc":..,"price","factor","gpb","tip","wl",
//!   "limit","min_gas","max_gas","min_fee","max_fee","refunds":[[used,refund|null]..],
//!   "checked":null|[min_fee,max_fee,min_gas,max_gas]}` one line per case.
//!
//! Replay record: `{"mode":"arith","tx":<tx line>,"case":<case line>}` or
//! `{"mode":"ready",...}` (same plus the `into_ready` arguments).
use crate::{
    Cfg,
    Report,
    Rng,
    gen_tx::{
        self as g,
        FreeOpts,
    },
    guarded,
    hx,
    par,
    unhx,
};
use fuel_tx::{
    BlobBody,
    BlobIdExt,
    Chargeable,
    ConsensusParameters,
    CreateMetadata,
    DependentCost,
    FeeParameters,
    GasCosts,
    Input,
    Output,
    StorageSlot,
    Transaction,
    TransactionFee,
    TxParameters,
    UpgradePurpose,
    UploadBody,
    UploadSubsection,
    UtxoId,
    Witness,
    consensus_parameters::gas::GasCostsValuesV7,
    field::{
        Inputs,
        Outputs,
        Witnesses,
    },
    policies::{
        Policies,
        PolicyType,
    },
};
use fuel_types::{
    Address,
    AssetId,
    BlobId,
    BlockHeight,
    Bytes32,
    Nonce,
    Salt,
    canonical::{
        Deserialize,
        Serialize,
    },
};
use fuel_vm::checked_transaction::{
    CheckError,
    IntoChecked,
};
use serde_json::{
    Value,
    json,
};
use std::{
    fmt::Write as _,
    io::Write as _,
};

const M: u128 = u64::MAX as u128;
/// chargeable kinds as `gen_tx::free_tx` kind indices
const KINDS: [(usize, &str); 5] = [(0, "Script"), (1, "Create"), (3, "Upgrade"), (4, "Upload"), (5, "Blob")];

macro_rules! dispatch {
    ($tx:expr, $t:ident => $body:expr) => {
        match $tx {
            Transaction::Script($t) => $body,
            Transaction::Create($t) => $body,
            Transaction::Upgrade($t) => $body,
            Transaction::Upload($t) => $body,
            Transaction::Blob($t) => $body,
            Transaction::Mint(_) => unreachable!("mint is not chargeable"),
        }
    };
}

// ---------------------------------------------------------------------------------------
// gas schedules
// ---------------------------------------------------------------------------------------

#[derive(Clone, Copy, Debug)]
struct Dep {
    heavy: bool,
    base: u64,
    x: u64,
}

impl Dep {
    fn cost(&self) -> DependentCost {
        if self.heavy {
            DependentCost::HeavyOperation { base: self.base, gas_per_unit: self.x }
        } else {
            DependentCost::LightOperation { base: self.base, units_per_gas: self.x.max(1) }
        }
    }
}

/// the six schedule entries the fee code reads
#[derive(Clone, Copy, Debug)]
struct Raw {
    eck1: u64,
    nspb: u64,
    /// vm_initialization, contract_root, s256, state_root
    deps: [Dep; 4],
}

#[derive(Clone)]
struct Sched {
    kind: &'static str,
    costs: GasCosts,
    raw: Option<Raw>,
}

impl Sched {
    fn random(raw: Raw) -> Self {
        let mut v = GasCostsValuesV7::unit();
        v.eck1 = raw.eck1;
        v.new_storage_per_byte = raw.nspb;
        v.vm_initialization = raw.deps[0].cost();
        v.contract_root = raw.deps[1].cost();
        v.s256 = raw.deps[2].cost();
        v.state_root = raw.deps[3].cost();
        Sched { kind: "random", costs: GasCosts::new(v.into()), raw: Some(raw) }
    }

    fn gc_json(&self) -> String {
        match &self.raw {
            None => "null".into(),
            Some(r) => {
                let mut s = format!("[\"{}\",\"{}\"", r.eck1, r.nspb);
                for d in &r.deps {
                    let _ = write!(s, ",\"{}:{}:{}\"", if d.heavy { "H" } else { "L" }, d.base, d.x);
                }
                s.push(']');
                s
            }
        }
    }

    fn from_json(kind: &str, gc: &Value) -> Option<Sched> {
        Some(match kind {
            "default" => Sched { kind: "default", costs: GasCosts::default(), raw: None },
            "unit" => Sched { kind: "unit", costs: GasCosts::unit(), raw: None },
            "free" => Sched { kind: "free", costs: GasCosts::free(), raw: None },
            "random" => {
                let a = gc.as_array()?;
                let n = |i: usize| a.get(i)?.as_str()?.parse::<u64>().ok();
                let d = |i: usize| {
                    let s = a.get(i)?.as_str()?;
                    let mut it = s.split(':');
                    let heavy = it.next()? == "H";
                    Some(Dep { heavy, base: it.next()?.parse().ok()?, x: it.next()?.parse().ok()? })
                };
                Sched::random(Raw { eck1: n(0)?, nspb: n(1)?, deps: [d(2)?, d(3)?, d(4)?, d(5)?] })
            }
            _ => return None,
        })
    }
}

fn sched_word(rng: &mut Rng, moderate: bool) -> u64 {
    if moderate {
        match rng.below(4) {
            0 => rng.below(4),
            1 => rng.below(1 << 10),
            _ => rng.below(1 << 20),
        }
    } else {
        rng.word()
    }
}

fn random_raw(rng: &mut Rng) -> Raw {
    // half of the schedules keep every entry small so that gas does not saturate
    let moderate = rng.bool();
    let dep = |rng: &mut Rng| {
        let heavy = rng.bool();
        let x = if heavy { sched_word(rng, moderate) } else { rng.word().max(1) };
        Dep { heavy, base: sched_word(rng, moderate), x }
    };
    Raw {
        eck1: sched_word(rng, moderate),
        nspb: sched_word(rng, moderate),
        deps: [dep(rng), dep(rng), dep(rng), dep(rng)],
    }
}

struct Scheds {
    fixed: [Sched; 3],
    pool: Vec<Sched>,
}

impl Scheds {
    fn new(rng: &mut Rng) -> Self {
        Scheds {
            fixed: [
                Sched { kind: "default", costs: GasCosts::default(), raw: None },
                Sched { kind: "unit", costs: GasCosts::unit(), raw: None },
                Sched { kind: "free", costs: GasCosts::free(), raw: None },
            ],
            pool: (0..48).map(|_| Sched::random(random_raw(rng))).collect(),
        }
    }

    fn pick(&self, rng: &mut Rng) -> Sched {
        match rng.below(4) {
            k @ 0..=2 => self.fixed[k as usize].clone(),
            _ => {
                if rng.chance(1, 8) {
                    Sched::random(random_raw(rng))
                } else {
                    rng.pick(&self.pool).clone()
                }
            }
        }
    }
}

// ---------------------------------------------------------------------------------------
// one case
// ---------------------------------------------------------------------------------------

#[derive(Clone, Debug)]
struct Params {
    price: u64,
    factor: u64,
    gpb: u64,
    tip: Option<u64>,
    wl: Option<u64>,
    limit: Option<u64>,
    used: Vec<u64>,
}

impl Params {
    fn fee_params(&self) -> FeeParameters {
        FeeParameters::DEFAULT
            .with_gas_price_factor(self.factor)
            .with_gas_per_byte(self.gpb)
    }
}

struct Obs {
    min_gas: u64,
    max_gas: u64,
    min_fee: u128,
    max_fee: u128,
    refunds: Vec<(u64, Option<u64>)>,
    checked: Option<[u64; 4]>,
}

fn opt_s(v: Option<u64>) -> String {
    match v {
        Some(x) => format!("\"{x}\""),
        None => "null".into(),
    }
}

/// the case line (without trailing newline); `o == None`: inputs only (replay record of a
/// panic)
fn case_line(out: &mut String, txid: u64, kind: &str, sched: &Sched, p: &Params, o: Option<&Obs>) {
    let _ = write!(
        out,
        "{{\"k\":\"c\",\"tx\":{txid},\"kind\":\"{kind}\",\"sched\":\"{}\",\"gc\":{},\"price\":\"{}\",\"factor\":\"{}\",\"gpb\":\"{}\",\"tip\":{},\"wl\":{},\"limit\":{}",
        sched.kind,
        sched.gc_json(),
        p.price,
        p.factor,
        p.gpb,
        opt_s(p.tip),
        opt_s(p.wl),
        opt_s(p.limit)
    );
    match o {
        Some(o) => {
            let _ = write!(
                out,
                ",\"min_gas\":\"{}\",\"max_gas\":\"{}\",\"min_fee\":\"{}\",\"max_fee\":\"{}\",\"refunds\":[",
                o.min_gas, o.max_gas, o.min_fee, o.max_fee
            );
            for (i, (u, r)) in o.refunds.iter().enumerate() {
                let _ = write!(out, "{}[\"{u}\",{}]", if i > 0 { "," } else { "" }, opt_s(*r));
            }
            out.push_str("],\"checked\":");
            match o.checked {
                Some(c) => {
                    let _ = write!(out, "[\"{}\",\"{}\",\"{}\",\"{}\"]", c[0], c[1], c[2], c[3]);
                }
                None => out.push_str("null"),
            }
        }
        None => {
            out.push_str(",\"refunds\":[");
            for (i, u) in p.used.iter().enumerate() {
                let _ = write!(out, "{}[\"{u}\",null]", if i > 0 { "," } else { "" });
            }
            out.push(']');
        }
    }
    out.push('}');
}

fn replay_record<T: Serialize>(mode: &str, tx: &T, kind: &str, sched: &Sched, p: &Params) -> Value {
    let mut s = String::new();
    case_line(&mut s, 0, kind, sched, p, None);
    json!({
        "mode": mode,
        "tx": {"k": "tx", "id": 0, "kind": kind, "hex": hx(tx.to_bytes())},
        "case": serde_json::from_str::<Value>(&s).expect("case line is json"),
    })
}

fn apply_policies<T: Chargeable>(tx: &mut T, p: &Params) {
    let pol = fuel_tx::field::Policies::policies_mut(tx);
    pol.set(PolicyType::Tip, p.tip);
    pol.set(PolicyType::WitnessLimit, p.wl);
    pol.set(PolicyType::MaxFee, p.limit);
}

fn ceil_fee(gas: u64, price: u64, factor: u64, tip: u64) -> u128 {
    // generator-side arithmetic only (input targeting and the *measured* coverage class);
    // verdicts come from tools/oracles/fees.py
    let n = gas as u128 * price as u128;
    let f = factor.max(1) as u128;
    n / f + u128::from(n % f != 0) + tip as u128
}

/// measured overflow regime of one refund evaluation
fn regime(min_gas: u64, used: u64, p: &Params) -> &'static str {
    let sum = min_gas as u128 + used as u128;
    let sat = sum > M;
    let fee = ceil_fee(sum.min(M) as u64, p.price, p.factor, p.tip.unwrap_or(0));
    let lim = p.limit.unwrap_or(0) as u128;
    match (sat, fee > M, fee > lim) {
        (false, true, _) => "feeovf",
        (false, false, true) => "underflow",
        (false, false, false) => "none",
        (true, true, _) => "satgas+feeovf",
        (true, false, true) => "satgas+underflow",
        (true, false, false) => "satgas",
    }
}

/// Execute the observed functions; a panic is a violation (returns `None`).
fn observe<T: Chargeable>(
    rep: &mut Report,
    tx: &T,
    kind: &str,
    sched: &Sched,
    p: &Params,
    replay: &dyn Fn() -> Value,
) -> Option<Obs> {
    let fp = p.fee_params();
    let gc = &sched.costs;
    macro_rules! call {
        ($name:literal, $e:expr) => {
            match guarded(|| $e) {
                Ok(v) => v,
                Err(pn) => {
                    rep.violation(
                        format!("C18|panic|{}|{}|kind={kind}", $name, pn.site()),
                        format!(
                            "{}: panic `{}` (kind {kind}, schedule {}, price {}, factor {}, gas_per_byte {}, tip {:?}, witness limit {:?}, fee limit {:?}, used {:?})",
                            $name, pn.text, sched.kind, p.price, p.factor, p.gpb, p.tip, p.wl, p.limit, p.used
                        ),
                        || replay(),
                    );
                    return None;
                }
            }
        };
    }
    let min_gas = call!("min_gas", tx.min_gas(gc, &fp));
    let max_gas = call!("max_gas", tx.max_gas(gc, &fp));
    let min_fee = call!("min_fee", tx.min_fee(gc, &fp, p.price));
    let max_fee = call!("max_fee", tx.max_fee(gc, &fp, p.price));
    let mut refunds = Vec::with_capacity(p.used.len());
    for &u in &p.used {
        let r = call!("refund_fee", tx.refund_fee(gc, &fp, u, p.price));
        refunds.push((u, r));
    }
    let checked = call!("checked_from_tx", TransactionFee::checked_from_tx(gc, &fp, tx, p.price))
        .map(|f| [f.min_fee(), f.max_fee(), f.min_gas(), f.max_gas()]);
    Some(Obs { min_gas, max_gas, min_fee, max_fee, refunds, checked })
}

struct Log {
    w: std::io::BufWriter<std::fs::File>,
    next_tx: u64,
    line: String,
}

impl Log {
    fn create(path: &str) -> Log {
        if let Some(dir) = std::path::Path::new(path).parent() {
            let _ = std::fs::create_dir_all(dir);
        }
        let f = std::fs::File::create(path).unwrap_or_else(|e| panic!("event log {path}: {e}"));
        Log { w: std::io::BufWriter::with_capacity(1 << 20, f), next_tx: 0, line: String::with_capacity(2048) }
    }

    fn tx_line(&mut self, kind: &str, bytes: &[u8]) -> u64 {
        let id = self.next_tx;
        self.next_tx += 1;
        writeln!(self.w, "{{\"k\":\"tx\",\"id\":{id},\"kind\":\"{kind}\",\"hex\":\"{}\"}}", hx(bytes)).expect("event log write");
        id
    }

    fn case(&mut self, txid: u64, kind: &str, sched: &Sched, p: &Params, o: &Obs) {
        self.line.clear();
        case_line(&mut self.line, txid, kind, sched, p, Some(o));
        self.line.push('\n');
        self.w.write_all(self.line.as_bytes()).expect("event log write");
    }

    fn finish(mut self) {
        self.w.flush().expect("event log flush");
    }
}

/// bookkeeping common to both workloads after a successful observation
fn account(rep: &mut Report, log: &mut Log, txid: u64, kind: &str, sched: &Sched, p: &Params, o: &Obs) {
    rep.eval();
    log.case(txid, kind, sched, p, o);
    for (u, r) in &o.refunds {
        let rg = regime(o.min_gas, *u, p);
        rep.class(format!("{kind}|{rg}|{}", sched.kind));
        rep.count("refund_evaluations");
        if r.is_some() {
            rep.count("refund_some");
        }
    }
    if o.checked.is_none() {
        rep.count("checked_from_tx_none");
    }
    if p.limit.is_none() {
        rep.count("cases_fee_limit_policy_unset");
    }
    if o.max_gas == u64::MAX {
        rep.count("cases_max_gas_saturated");
    }
    // one written-out case per transaction kind
    if rep.samples.len() < 5 && !rep.samples.iter().any(|s| s["kind"] == kind) {
        rep.sample(|| {
            let mut s = String::new();
            case_line(&mut s, txid, kind, sched, p, Some(o));
            serde_json::from_str::<Value>(&s).unwrap_or(Value::Null)
        });
    }
}

// ---------------------------------------------------------------------------------------
// workload 1: pure arithmetic on free-form transactions
// ---------------------------------------------------------------------------------------

fn gen_factor(rng: &mut Rng) -> u64 {
    match rng.below(8) {
        0 | 1 => 1,
        2 => rng.range(2, 10),
        3 => 1_000_000_000,
        4 => 1u64 << rng.below(64),
        5 => u64::MAX - rng.below(3),
        _ => rng.word().max(1),
    }
}

fn gen_gpb(rng: &mut Rng) -> u64 {
    match rng.below(8) {
        0 => 0,
        1 => 1,
        2 => 4,
        3 => 63,
        4 => rng.below(1 << 16),
        _ => rng.word(),
    }
}

fn gen_price(rng: &mut Rng) -> u64 {
    match rng.below(8) {
        0 => 0,
        1 => 1,
        2 => rng.below(1000),
        3 => u64::MAX - rng.below(3),
        _ => rng.word(),
    }
}

fn gen_tip(rng: &mut Rng) -> u64 {
    match rng.below(4) {
        0 => 0,
        1 => rng.below(1000),
        _ => rng.word(),
    }
}

fn near(rng: &mut Rng, v: u128) -> u64 {
    let d = rng.below(5) as i128 - 2;
    (v as i128 + d).clamp(0, M as i128) as u64
}

/// 2-4 strictly increasing used-gas values, some aimed at the saturation boundary
fn gen_used(rng: &mut Rng, min_gas: u64) -> Vec<u64> {
    let n = rng.range(2, 4) as usize;
    let mut v: Vec<u64> = (0..n)
        .map(|_| match rng.below(6) {
            0 => rng.below(4),
            1 => rng.below(1 << 20),
            2 => near(rng, (u64::MAX - min_gas) as u128),
            3 => rng.word() >> rng.below(64),
            _ => rng.word(),
        })
        .collect();
    v.sort_unstable();
    v.dedup();
    while v.len() < 2 {
        let last = *v.last().expect("non-empty");
        if last < u64::MAX {
            v.push(last + 1 + rng.below(3).min(u64::MAX - last - 1));
        } else {
            v.insert(0, u64::MAX - 1 - rng.below(1000));
        }
        v.sort_unstable();
        v.dedup();
    }
    v
}

fn arith_group<T: Chargeable + Serialize>(
    rep: &mut Report,
    log: &mut Log,
    rng: &mut Rng,
    scheds: &Scheds,
    tx: &mut T,
    kind: &'static str,
    n: u64,
) {
    // which of the three fee-relevant policies are present is fixed for the group (it
    // changes the transaction size); their values vary per case
    let has_tip = rng.chance(3, 4);
    let has_wl = rng.chance(3, 4);
    let has_limit = rng.chance(7, 8);
    let mut p0 = Params {
        price: 0,
        factor: 1,
        gpb: 0,
        tip: has_tip.then_some(0),
        wl: has_wl.then_some(0),
        limit: has_limit.then_some(0),
        used: vec![],
    };
    apply_policies(tx, &p0);
    let txid = log.tx_line(kind, &tx.to_bytes());
    rep.count(&format!("tx_{kind}"));
    for _ in 0..n {
        let sched = scheds.pick(rng);
        p0.factor = gen_factor(rng);
        p0.gpb = gen_gpb(rng);
        p0.price = gen_price(rng);
        p0.tip = has_tip.then(|| gen_tip(rng));
        p0.wl = has_wl.then(|| rng.word());
        p0.limit = has_limit.then(|| rng.word());
        p0.used.clear();
        apply_policies(tx, &p0);
        // probe (input targeting only; it is a monitored call like the others)
        let fp = p0.fee_params();
        let probe = match guarded(|| tx.min_gas(&sched.costs, &fp)) {
            Ok(v) => v,
            Err(pn) => {
                let rec = replay_record("arith", tx, kind, &sched, &p0);
                rep.violation(
                    format!("C18|panic|min_gas|{}|kind={kind}", pn.site()),
                    format!("min_gas: panic `{}` (kind {kind}, schedule {}, gas_per_byte {})", pn.text, sched.kind, p0.gpb),
                    || rec,
                );
                continue;
            }
        };
        p0.used = gen_used(rng, probe);
        let tip = p0.tip.unwrap_or(0);
        // aim the price at the u64 boundary of the used fee
        if rng.chance(1, 8) {
            let u = *rng.pick(&p0.used);
            let gas = (probe as u128 + u as u128).min(M);
            if gas > 0 {
                let pr = (M + 1).saturating_sub(tip as u128) * p0.factor as u128 / gas;
                p0.price = near(rng, pr.min(M));
            }
        }
        // aim the fee limit at the used fee of one of the used-gas values
        if has_limit && rng.bool() {
            let u = *rng.pick(&p0.used);
            let gas = (probe as u128 + u as u128).min(M) as u64;
            let fee = ceil_fee(gas, p0.price, p0.factor, tip);
            p0.limit = Some(if fee <= M {
                match rng.below(6) {
                    0 => (fee as u64).saturating_sub(1),
                    1 | 2 => fee as u64,
                    3 => (fee as u64).saturating_add(1),
                    4 => (fee as u64).saturating_add(rng.word() >> rng.below(64)),
                    _ => u64::MAX,
                }
            } else {
                u64::MAX - rng.below(2)
            });
        }
        apply_policies(tx, &p0);
        let obs = {
            let txr: &T = tx;
            observe(rep, txr, kind, &sched, &p0, &|| replay_record("arith", txr, kind, &sched, &p0))
        };
        if let Some(o) = obs {
            account(rep, log, txid, kind, &sched, &p0, &o);
        }
    }
}

// ---------------------------------------------------------------------------------------
// workload 2: `Checked::into_ready` on valid transactions
// ---------------------------------------------------------------------------------------

fn utxo(rng: &mut Rng) -> UtxoId {
    UtxoId::new(Bytes32::new(rng.arr()), rng.u64() as u16)
}

/// A transaction that passes `into_checked_basic` under [`ready_params`]; returns it with
/// the owner of its first input (privileged address for upgrades).
fn build_valid(rng: &mut Rng, kind: usize, height: u32) -> (Transaction, Address) {
    let base = AssetId::BASE;
    let pl = 1 + rng.usize_below(48);
    let pred = rng.bytes(pl);
    let owner = Input::predicate_owner(&pred);
    let pd_len = rng.usize_below(24);
    let mut inputs = vec![Input::coin_predicate(
        utxo(rng),
        owner,
        0,
        base,
        Default::default(),
        rng.below(1 << 16),
        pred,
        rng.bytes(pd_len),
    )];
    if rng.chance(1, 3) {
        let pl2 = 1 + rng.usize_below(32);
        let p2 = rng.bytes(pl2);
        let rcpt = Input::predicate_owner(&p2);
        inputs.push(Input::message_coin_predicate(
            Address::new(rng.arr()),
            rcpt,
            0,
            Nonce::new(rng.arr()),
            rng.below(1 << 16),
            p2,
            vec![],
        ));
    }
    let mut outputs = vec![];
    if rng.bool() {
        outputs.push(Output::change(Address::new(rng.arr()), 0, base));
    }
    let mut witnesses: Vec<Witness> = vec![];
    let mut pol = Policies::new().with_max_fee(0);
    if rng.chance(2, 3) {
        pol.set(PolicyType::Tip, Some(0));
    }
    if rng.chance(1, 3) {
        pol.set(PolicyType::Maturity, Some(rng.range(0, height as u64)));
    }
    if rng.chance(1, 3) {
        pol.set(PolicyType::Expiration, Some(rng.range(height as u64, u32::MAX as u64)));
    }
    let has_wl = rng.chance(2, 3);
    if has_wl {
        // placeholder (present so that the size is final); the value is set by the caller
        pol.set(PolicyType::WitnessLimit, Some(u64::MAX));
    }
    let extra_witnesses = |rng: &mut Rng, w: &mut Vec<Witness>| {
        for _ in 0..rng.below(3) {
            let n = rng.usize_below(100);
            w.push(rng.bytes(n).into());
        }
    };
    let signed = |rng: &mut Rng, inputs: &mut Vec<Input>, nw: usize| {
        if nw > 0 && rng.chance(1, 3) {
            inputs.push(Input::coin_signed(
                utxo(rng),
                Address::new(rng.arr()),
                0,
                base,
                Default::default(),
                rng.usize_below(nw) as u16,
            ));
        }
    };
    let tx: Transaction = match kind {
        0 => {
            extra_witnesses(rng, &mut witnesses);
            signed(rng, &mut inputs, witnesses.len());
            let gas_limit = match rng.below(4) {
                0 => 0,
                1 => rng.below(1 << 24),
                _ => rng.word(),
            };
            let (sl, dl) = (rng.usize_below(64), rng.usize_below(64));
            Transaction::script(gas_limit, rng.bytes(sl), rng.bytes(dl), pol, inputs, outputs, witnesses).into()
        }
        1 => {
            let n = rng.usize_below(400);
            witnesses.push(rng.bytes(n).into());
            extra_witnesses(rng, &mut witnesses);
            signed(rng, &mut inputs, witnesses.len());
            let mut slots: Vec<StorageSlot> = (0..rng.below(4))
                .map(|_| StorageSlot::new(Bytes32::new(rng.arr()), Bytes32::new(rng.arr())))
                .collect();
            slots.sort();
            let mut c = Transaction::create(0, pol, Salt::new(rng.arr()), slots, inputs, outputs, witnesses);
            let md = CreateMetadata::compute(&c).expect("create metadata");
            c.outputs_mut().push(Output::contract_created(md.contract_id, md.state_root));
            c.into()
        }
        3 => {
            let purpose = if rng.bool() {
                UpgradePurpose::StateTransition { root: Bytes32::new(rng.arr()) }
            } else {
                let bytes = postcard::to_allocvec(&ConsensusParameters::standard()).expect("postcard");
                let checksum = fuel_crypto::Hasher::hash(&bytes);
                witnesses.push(bytes.into());
                UpgradePurpose::ConsensusParameters { witness_index: 0, checksum }
            };
            extra_witnesses(rng, &mut witnesses);
            signed(rng, &mut inputs, witnesses.len());
            Transaction::upgrade(purpose, pol, inputs, outputs, witnesses).into()
        }
        4 => {
            let n = 1 + rng.usize_below(1500);
            let code = rng.bytes(n);
            let size = 16 + rng.usize_below(300);
            let subs = UploadSubsection::split_bytecode(&code, size).expect("split");
            let s = subs[rng.usize_below(subs.len())].clone();
            witnesses.push(s.subsection.into());
            extra_witnesses(rng, &mut witnesses);
            signed(rng, &mut inputs, witnesses.len());
            let body = UploadBody {
                root: s.root,
                witness_index: 0,
                subsection_index: s.subsection_index,
                subsections_number: s.subsections_number,
                proof_set: s.proof_set,
            };
            Transaction::upload(body, pol, inputs, outputs, witnesses).into()
        }
        _ => {
            let n = 1 + rng.usize_below(400);
            let data = rng.bytes(n);
            let id = BlobId::compute(&data);
            witnesses.push(data.into());
            extra_witnesses(rng, &mut witnesses);
            signed(rng, &mut inputs, witnesses.len());
            Transaction::blob(BlobBody { id, witness_index: 0 }, pol, inputs, outputs, witnesses).into()
        }
    };
    (tx, owner)
}

fn ready_params(privileged: Address, same: Option<(&GasCosts, &FeeParameters)>) -> ConsensusParameters {
    let mut cp = ConsensusParameters::standard();
    cp.set_tx_params(TxParameters::DEFAULT.with_max_gas_per_tx(u64::MAX));
    cp.set_block_gas_limit(u64::MAX);
    cp.set_privileged_address(privileged);
    if let Some((gc, fp)) = same {
        cp.set_gas_costs(gc.clone());
        cp.set_fee_params(*fp);
    }
    cp
}

fn err_name(e: &CheckError) -> String {
    let s = format!("{e:?}");
    let cut = s.find([' ', '{']).unwrap_or(s.len());
    // Validity(X...) -> Validity(X)
    let head = &s[..cut];
    if head.ends_with(')') || !head.contains('(') { head.to_string() } else { format!("{head})") }
}

struct ReadyArgs {
    height: u32,
    bh: Option<u32>,
    same: bool,
    privileged: Address,
}

/// `into_checked_basic` + `into_ready`, judged against the library's own `max_fee` (whose
/// formula the offline oracle checks from the event line) compared with the fee limit.
fn ready_tail<T>(
    rep: &mut Report,
    tx: &T,
    kind: &str,
    sched: &Sched,
    p: &Params,
    o: &Obs,
    a: &ReadyArgs,
    replay: &dyn Fn() -> Value,
) where
    T: IntoChecked + Chargeable + Clone,
{
    let fp = p.fee_params();
    let cp = ready_params(a.privileged, a.same.then_some((&sched.costs, &fp)));
    let checked = match guarded(|| tx.clone().into_checked_basic(a.height.into(), &cp)) {
        Ok(Ok(c)) => c,
        Ok(Err(e)) => {
            // not a valid transaction under these parameters: outside the into_ready clause
            rep.count("ready_precheck_rejected");
            rep.note(format!("into_checked_basic rejected a generated {kind}: {}", err_name(&e)));
            return;
        }
        Err(pn) => {
            rep.count("ready_precheck_panicked");
            rep.note(format!("into_checked_basic panicked (not judged by C18): {}", pn.text));
            return;
        }
    };
    let limit = p.limit.unwrap_or(0) as u128;
    let fee = o.max_fee;
    let rel = if fee > M {
        "fee>u64"
    } else if fee > limit {
        "fee>limit"
    } else if fee == limit {
        "fee==limit"
    } else {
        "fee<limit"
    };
    let expect_err = fee > limit;
    let bh: Option<BlockHeight> = a.bh.map(Into::into);
    let got = guarded(|| checked.into_ready(p.price, &sched.costs, &fp, bh).map(|r| r.gas_price()));
    rep.eval();
    rep.count("ready_judged");
    rep.count(&format!("ready_{rel}"));
    let verdict = match &got {
        Ok(Ok(_)) => "Ok".to_string(),
        Ok(Err(e)) => format!("Err({})", err_name(e)),
        Err(_) => "panic".to_string(),
    };
    rep.class(format!("{kind}|into_ready|{rel}|{verdict}|{}", sched.kind));
    if !rep.samples.iter().any(|s| s.get("into_ready").is_some()) {
        rep.samples.push(json!({
            "into_ready": verdict, "kind": kind, "relation": rel, "gas_price": p.price.to_string(),
            "max_fee": fee.to_string(), "fee_limit": limit.to_string(), "factor": p.factor.to_string(),
            "gas_per_byte": p.gpb.to_string(), "schedule": sched.kind, "block_height_arg": a.bh,
        }));
    }
    let what = |g: &str| {
        format!(
            "{kind}: into_ready(gas_price {}) returned {g} but max_fee {} vs fee limit {} (factor {}, gas_per_byte {}, tip {:?}, schedule {}, max_gas {})",
            p.price, fee, limit, p.factor, p.gpb, p.tip, sched.kind, o.max_gas
        )
    };
    match got {
        Ok(Ok(gp)) => {
            if expect_err {
                rep.violation(format!("C18|into_ready|expected Err|got Ok|kind={kind}|{rel}"), what("Ok"), || replay());
            } else if gp != p.price {
                rep.violation(
                    format!("C18|into_ready|Ready carries a different gas price|kind={kind}"),
                    format!("{kind}: Ready::gas_price {gp} != {}", p.price),
                    || replay(),
                );
            }
        }
        Ok(Err(e)) => {
            if !expect_err {
                rep.violation(
                    format!("C18|into_ready|expected Ok|got Err({})|kind={kind}|{rel}", err_name(&e)),
                    what(&format!("{e:?}")),
                    || replay(),
                );
            }
        }
        Err(pn) => rep.violation(
            format!("C18|panic|into_ready|{}|kind={kind}", pn.site()),
            format!("into_ready panicked: {}", pn.text),
            || replay(),
        ),
    }
}

fn ready_replay<T: Serialize>(tx: &T, kind: &str, sched: &Sched, p: &Params, a: &ReadyArgs) -> Value {
    let mut r = replay_record("ready", tx, kind, sched, p);
    r["height"] = a.height.into();
    r["bh"] = a.bh.map(Value::from).unwrap_or(Value::Null);
    r["same"] = a.same.into();
    r["priv"] = hx(a.privileged.as_ref()).into();
    r
}

fn ready_case(rep: &mut Report, log: &mut Log, rng: &mut Rng, scheds: &Scheds, kind_ix: usize, kind: &'static str) {
    let height = match rng.below(3) {
        0 => 0,
        1 => rng.below(1000) as u32,
        _ => rng.u32() >> 1,
    };
    let (mut tx, owner) = build_valid(rng, kind_ix, height);
    let sched = scheds.pick(rng);
    let mut p = Params {
        price: 0,
        factor: gen_factor(rng),
        gpb: match rng.below(6) {
            0 => 0,
            1 => 1,
            2 => 4,
            3 => 63,
            4 => rng.below(1 << 12),
            _ => rng.word(),
        },
        tip: None,
        wl: None,
        limit: Some(0),
        used: vec![],
    };
    dispatch!(&mut tx, t => {
        let pol = *fuel_tx::field::Policies::policies(t);
        p.tip = pol.get(PolicyType::Tip).map(|_| match rng.below(3) { 0 => 0, 1 => rng.below(1 << 20), _ => rng.word() });
        let ws = t.witnesses().size_dynamic() as u64;
        p.wl = pol.get(PolicyType::WitnessLimit).map(|_| match rng.below(4) {
            0 => ws,
            1 => ws.saturating_add(rng.below(64)),
            2 => ws.saturating_add(rng.below(1 << 20)),
            _ => ws.saturating_add(rng.word()),
        });
        apply_policies(t, &p);
        let fp = p.fee_params();
        let probe = guarded(|| t.max_gas(&sched.costs, &fp)).unwrap_or(0);
        let tip = p.tip.unwrap_or(0);
        let f = p.factor as u128;
        match rng.below(4) {
            // limit around the fee of a random price
            0 => {
                p.price = gen_price(rng);
                let fee = ceil_fee(probe, p.price, p.factor, tip);
                p.limit = Some(if fee <= M { near(rng, fee) } else { u64::MAX });
            }
            // price chosen so that the fee lands on the limit
            1 => {
                let l = rng.word().max(tip);
                p.limit = Some(l);
                if probe > 0 {
                    let pr = ((l - tip) as u128 * f / probe as u128).min(M);
                    p.price = near(rng, pr);
                    // pin the limit onto the resulting fee in half of the cases
                    let fee = ceil_fee(probe, p.price, p.factor, tip);
                    if fee <= M && rng.bool() {
                        p.limit = Some(fee as u64);
                    }
                } else {
                    p.price = gen_price(rng);
                    p.limit = Some(near(rng, tip as u128));
                }
            }
            // fee around 2^64
            2 => {
                p.limit = Some(u64::MAX - rng.below(2));
                if probe > 0 {
                    let pr = ((M + 1).saturating_sub(tip as u128) * f / probe as u128).min(M);
                    p.price = near(rng, pr);
                } else {
                    p.price = gen_price(rng);
                }
            }
            _ => {
                p.price = gen_price(rng);
                p.limit = Some(rng.word());
            }
        }
        let limit = p.limit.unwrap_or(0);
        // the base-asset input must cover the fee limit (the other inputs carry 0)
        let amount = match rng.below(3) {
            0 => limit,
            1 => limit.saturating_add(rng.below(1000)),
            _ => u64::MAX,
        };
        if let Some(Input::CoinPredicate(c)) = t.inputs_mut().first_mut() {
            c.amount = amount;
        }
        p.used = gen_used(rng, probe);
        apply_policies(t, &p);
        let a = ReadyArgs {
            height,
            bh: match rng.below(4) {
                0 => Some(rng.range(0, height as u64) as u32),
                _ => None,
            },
            same: rng.chance(3, 4),
            privileged: owner,
        };
        let txr = &*t;
        let rec = || ready_replay(txr, kind, &sched, &p, &a);
        if let Some(o) = observe(rep, txr, kind, &sched, &p, &rec) {
            let txid = log.tx_line(kind, &txr.to_bytes());
            account(rep, log, txid, kind, &sched, &p, &o);
            ready_tail(rep, txr, kind, &sched, &p, &o, &a, &rec);
        }
    });
}

// ---------------------------------------------------------------------------------------
// replay
// ---------------------------------------------------------------------------------------

fn num(v: &Value) -> Option<u64> {
    match v {
        Value::String(s) => s.parse().ok(),
        Value::Number(n) => n.as_u64(),
        _ => None,
    }
}

fn replay(cfg: &Cfg, rec: &Value) -> Report {
    let mut rep = Report::new();
    let parsed = (|| {
        let mode = rec["mode"].as_str()?.to_string();
        let bytes = hex::decode(rec["tx"]["hex"].as_str()?).ok()?;
        let tx = Transaction::from_bytes(&bytes).ok()?;
        let c = &rec["case"];
        let sched = Sched::from_json(c["sched"].as_str()?, &c["gc"])?;
        let p = Params {
            price: num(&c["price"])?,
            factor: num(&c["factor"])?,
            gpb: num(&c["gpb"])?,
            tip: num(&c["tip"]),
            wl: num(&c["wl"]),
            limit: num(&c["limit"]),
            used: c["refunds"].as_array()?.iter().filter_map(|r| num(&r[0])).collect(),
        };
        Some((mode, tx, sched, p))
    })();
    let Some((mode, mut tx, sched, p)) = parsed else {
        rep.inconclusive = Some("C18 replay record could not be parsed".into());
        return rep;
    };
    if matches!(tx, Transaction::Mint(_)) || p.factor == 0 {
        rep.inconclusive = Some("C18 replay record outside the quantified range (mint / factor 0)".into());
        return rep;
    }
    let path = format!("{}/C18.{}.replay.jsonl", cfg.work_dir, cfg.seed);
    let mut log = Log::create(&path);
    let kind = g::tx_kind_name(&tx);
    dispatch!(&mut tx, t => {
        apply_policies(t, &p);
        let txr = &*t;
        if mode == "ready" {
            let mut a32 = [0u8; 32];
            let pv = unhx(rec["priv"].as_str().unwrap_or(""));
            if pv.len() == 32 {
                a32.copy_from_slice(&pv);
            }
            let a = ReadyArgs {
                height: rec["height"].as_u64().unwrap_or(0) as u32,
                bh: rec["bh"].as_u64().map(|b| b as u32),
                same: rec["same"].as_bool().unwrap_or(true),
                privileged: Address::new(a32),
            };
            let r = || ready_replay(txr, kind, &sched, &p, &a);
            if let Some(o) = observe(&mut rep, txr, kind, &sched, &p, &r) {
                let txid = log.tx_line(kind, &txr.to_bytes());
                account(&mut rep, &mut log, txid, kind, &sched, &p, &o);
                ready_tail(&mut rep, txr, kind, &sched, &p, &o, &a, &r);
            }
        } else {
            let r = || replay_record("arith", txr, kind, &sched, &p);
            if let Some(o) = observe(&mut rep, txr, kind, &sched, &p, &r) {
                let txid = log.tx_line(kind, &txr.to_bytes());
                account(&mut rep, &mut log, txid, kind, &sched, &p, &o);
            }
        }
    });
    log.finish();
    rep.event_logs.push(("fees".into(), path));
    rep.note(format!("replayed one {mode} case of kind {kind}"));
    finish(&mut rep);
    rep
}

// ---------------------------------------------------------------------------------------

fn finish(rep: &mut Report) {
    rep.rule = "arith: free-form Script/Create/Upgrade/Upload/Blob x {default, unit, free, random} gas schedule x boundary-biased gas price / factor>=1 / gas_per_byte / tip / witness limit / fee limit, 2-4 increasing used-gas values aimed at the saturation, u64 and fee-limit boundaries; observed values go to the event log judged by tools/oracles/fees.py with Python integers. ready: valid transactions of the five kinds through into_checked_basic + into_ready with the fee aimed at limit-1/limit/limit+1 and 2^64. class = (kind, overflow regime of the refund evaluation, schedule kind) and (kind, into_ready, fee-vs-limit relation, verdict, schedule kind)".into();
    rep.assume("gas amounts are Words and saturate in the code: the oracle takes min(2^64-1, min_gas+used_gas) as the gas amount of a refund");
    rep.assume("the fee formula is checked from the gas amounts the library reports (min_gas/max_gas); the gas schedule itself is not recomputed");
    rep.assume("an absent tip policy means tip 0; cases with an absent max-fee policy are not judged for the refund value (counted as unspecified)");
    rep.assume("gas schedules with LightOperation units_per_gas = 0 are outside the quantified range (DependentCost::from_units_per_gas documents > 0) and are not generated");
    rep.assume("into_ready expectation = (library max_fee as u128 > fee limit); the max_fee formula itself is judged offline from the same event line");
}

fn worker(cfg: &Cfg, w: usize, n_arith: u64, n_ready: u64, group: u64) -> Report {
    let mut rep = Report::new();
    let path = format!("{}/C18.{}.{}.jsonl", cfg.work_dir, cfg.seed, w);
    let mut log = Log::create(&path);
    let mut rng = Rng::derive(cfg.seed, 18, w as u64);
    let scheds = Scheds::new(&mut rng);
    let opts = FreeOpts { cap: 200, ..FreeOpts::default() };
    let mut done = 0u64;
    let mut gi = w as u64;
    while done < n_arith {
        let (kix, kind) = KINDS[(gi % 5) as usize];
        gi += 1;
        let mut tx = g::free_tx(&mut rng, kix, &opts);
        let n = group.min(n_arith - done);
        dispatch!(&mut tx, t => arith_group(&mut rep, &mut log, &mut rng, &scheds, t, kind, n));
        done += n;
    }
    let mut rng = Rng::derive(cfg.seed, 0x1818, w as u64);
    for i in 0..n_ready {
        let (kix, kind) = KINDS[((i + w as u64) % 5) as usize];
        ready_case(&mut rep, &mut log, &mut rng, &scheds, kix, kind);
    }
    log.finish();
    rep.event_logs.push(("fees".into(), path));
    rep
}

pub fn run(cfg: &Cfg) -> Report {
    if let Some(rec) = &cfg.replay {
        return replay(cfg, rec);
    }
    let threads = cfg.threads.max(1) as u64;
    let n_arith = cfg.budget(200_000, 5_000_000).div_ceil(threads);
    let n_ready = cfg.budget(24_000, 600_000).div_ceil(threads);
    let group = if cfg.thorough { 16 } else { 8 };
    let mut rep = par(cfg.threads, |w| worker(cfg, w, n_arith, n_ready, group));
    finish(&mut rep);
    // coverage gates: every kind reached every base overflow regime, and into_ready was
    // judged on both sides of and on the boundary for every kind
    let mut kr = std::collections::BTreeSet::new();
    let mut rk = std::collections::BTreeSet::new();
    for c in &rep.classes {
        let f: Vec<&str> = c.split('|').collect();
        if f.len() == 3 {
            let base = if f[1].starts_with("satgas") { "satgas" } else { f[1] };
            kr.insert((f[0].to_string(), base.to_string()));
        } else if f.len() == 5 && f[1] == "into_ready" {
            rk.insert((f[0].to_string(), f[2].to_string()));
        }
    }
    rep.gate("kind_x_regime", kr.len() as u64, 20);
    rep.gate("into_ready_kind_x_relation", rk.len() as u64, 20);
    rep.gate("into_ready_judged", rep.counter("ready_judged"), (n_ready * threads) / 2);
    rep.gate("into_ready_fee==limit", rep.counter("ready_fee==limit"), 50);
    rep
}
