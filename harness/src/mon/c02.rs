//! C02 Decoding arbitrary bytes never panics and reaches a fixed point.
//!
//! Workload: mutated valid encodings (the C01 generators) and random strings, fed to the
//! canonical decoders. Oracle = the statement: no panic; for `Ok(v)`: `v.size()` and
//! `v.to_bytes().len()` equal the number of bytes consumed, and `decode(encode(v)) == v`
//! consuming everything. Error kinds are not judged.
use crate::{
    Cfg,
    Report,
    Rng,
    gen_tx::{
        self as g,
        FreeOpts,
    },
    guarded,
    hx,
    unhx,
};
use fuel_tx::{
    Blob,
    Create,
    Input,
    Mint,
    Output,
    Receipt,
    Script,
    StorageSlot,
    Transaction,
    TxPointer,
    Upgrade,
    UpgradePurpose,
    Upload,
    UtxoId,
    Witness,
    policies::Policies,
};
use fuel_types::canonical::{
    Deserialize,
    Error,
    Serialize,
};
use serde_json::{
    Value,
    json,
};
use std::{
    fmt::Debug,
    sync::Mutex,
};

const MIB100: u64 = 100 * (1 << 20);

/// replacement values for every 8-byte aligned word (`None` = relative to the old value)
const WORD_VALUES: &[(&str, Option<u64>)] = &[
    ("0", Some(0)),
    ("1", Some(1)),
    ("2", Some(2)),
    ("7", Some(7)),
    ("8", Some(8)),
    ("9", Some(9)),
    ("+1", None),
    ("-1", None),
    ("2^16", Some(1 << 16)),
    ("2^32", Some(1 << 32)),
    ("100MiB", Some(MIB100)),
    ("100MiB+1", Some(MIB100 + 1)),
    ("2^63", Some(1 << 63)),
    ("MAX", Some(u64::MAX)),
];

/// at most this many word positions are swept per base encoding (the first `HEAD_WORDS`
/// always, the rest sampled)
const SWEEP_WORDS: usize = 128;
const HEAD_WORDS: usize = 40;

#[derive(Clone, Copy, Debug, PartialEq, Eq)]
enum Target {
    Transaction,
    Script,
    Create,
    Mint,
    Upgrade,
    Upload,
    Blob,
    Input,
    Output,
    Receipt,
    Policies,
    UtxoId,
    TxPointer,
    Witness,
    StorageSlot,
    UpgradePurpose,
}

const TARGETS: &[Target] = &[
    Target::Transaction,
    Target::Script,
    Target::Create,
    Target::Mint,
    Target::Upgrade,
    Target::Upload,
    Target::Blob,
    Target::Input,
    Target::Output,
    Target::Receipt,
    Target::Policies,
    Target::UtxoId,
    Target::TxPointer,
    Target::Witness,
    Target::StorageSlot,
    Target::UpgradePurpose,
];

impl Target {
    fn name(self) -> &'static str {
        match self {
            Target::Transaction => "Transaction",
            Target::Script => "Script",
            Target::Create => "Create",
            Target::Mint => "Mint",
            Target::Upgrade => "Upgrade",
            Target::Upload => "Upload",
            Target::Blob => "Blob",
            Target::Input => "Input",
            Target::Output => "Output",
            Target::Receipt => "Receipt",
            Target::Policies => "Policies",
            Target::UtxoId => "UtxoId",
            Target::TxPointer => "TxPointer",
            Target::Witness => "Witness",
            Target::StorageSlot => "StorageSlot",
            Target::UpgradePurpose => "UpgradePurpose",
        }
    }

    fn from_name(s: &str) -> Option<Target> {
        TARGETS.iter().copied().find(|t| t.name() == s)
    }
}

/// equality with the panic reason masked, exactly as in C01 (`reason` is not part of the
/// canonical encoding; payloads, panic contract id and cached metadata are already ignored
/// by the types' own `PartialEq`)
fn receipt_eq(a: &Receipt, b: &Receipt) -> bool {
    match (a, b) {
        (
            Receipt::Panic { id: i1, reason: r1, pc: p1, is: s1, .. },
            Receipt::Panic { id: i2, reason: r2, pc: p2, is: s2, .. },
        ) => i1 == i2 && p1 == p2 && s1 == s2 && r1.instruction() == r2.instruction(),
        _ => a == b,
    }
}

fn err_kind(e: &Error) -> String {
    match e {
        Error::BufferIsTooShort => "BufferIsTooShort".into(),
        Error::UnknownDiscriminant => "UnknownDiscriminant".into(),
        Error::InvalidPrefix => "InvalidPrefix".into(),
        Error::AllocationLimit => "AllocationLimit".into(),
        Error::Unknown(s) => format!("Unknown({s})"),
        _ => "other".into(),
    }
}

fn trunc<T: Debug>(v: &T) -> String {
    let s = format!("{v:?}");
    if s.len() > 600 {
        let mut k = 600;
        while !s.is_char_boundary(k) {
            k -= 1;
        }
        format!("{}…", &s[..k])
    } else {
        s
    }
}

/// one string under test
struct Case<'a> {
    target: Target,
    op: &'a str,
    bytes: &'a [u8],
    /// the valid encoding this string was derived from (for the `ok_same` outcome class)
    base: Option<&'a [u8]>,
}

impl Case<'_> {
    fn replay(&self) -> Value {
        json!({"type": self.target.name(), "op": self.op, "hex": hx(self.bytes)})
    }
}

/// What was observed for one string; returned for the observation counters.
#[derive(Clone, Debug, PartialEq, Eq)]
enum Outcome {
    Panic,
    Err(String),
    OkSame,
    OkChanged,
}

impl Outcome {
    fn as_str(&self) -> &str {
        match self {
            Outcome::Panic => "panic",
            Outcome::Err(k) => k,
            Outcome::OkSame => "ok_same",
            Outcome::OkChanged => "ok_changed",
        }
    }
}

/// decodes with `T` and judges the statement
fn judge<T>(rep: &mut Report, c: &Case, variant: impl Fn(&T) -> String, eq: impl Fn(&T, &T) -> bool) -> Outcome
where
    T: Serialize + Deserialize + Debug,
{
    rep.eval();
    let ty = c.target.name();
    let bytes = c.bytes;
    let first = guarded(|| {
        let mut buf = bytes;
        let r = T::decode(&mut buf);
        (r, buf.len())
    });
    let (dec, remaining) = match first {
        Ok(x) => x,
        Err(p) => {
            rep.violation(
                format!("C02|{ty}|panic|{}", p.site()),
                format!("{ty}::decode panics ({}) on {} bytes {}", p.text, bytes.len(), hx(&bytes[..bytes.len().min(256)])),
                || c.replay(),
            );
            return Outcome::Panic;
        }
    };
    let v = match dec {
        Ok(v) => v,
        Err(e) => return Outcome::Err(err_kind(&e)),
    };
    if remaining > bytes.len() {
        rep.violation(format!("C02|{ty}|decoder grew the input"), format!("{remaining} > {}", bytes.len()), || c.replay());
        return Outcome::OkChanged;
    }
    let consumed = bytes.len() - remaining;
    let var = variant(&v);
    let sig = |what: &str| format!("C02|{ty}|{var}|{what}");
    // size and re-encoding
    let enc = guarded(|| (v.size(), v.to_bytes()));
    let (size, again) = match enc {
        Ok(x) => x,
        Err(p) => {
            rep.violation(
                format!("C02|{ty}|panic|{}", p.site()),
                format!("{ty}: encoding the decoded value panics ({}); input {}; value {}", p.text, hx(bytes), trunc(&v)),
                || c.replay(),
            );
            return Outcome::Panic;
        }
    };
    if size != consumed {
        rep.violation(
            sig("size() != bytes consumed"),
            format!("{ty}: decoder consumed {consumed} of {} bytes, value.size() = {size}; input {}; value {}", bytes.len(), hx(bytes), trunc(&v)),
            || c.replay(),
        );
    }
    if again.len() != consumed {
        rep.violation(
            sig("encoded length != bytes consumed"),
            format!("{ty}: decoder consumed {consumed} of {} bytes, to_bytes().len() = {}; input {}; value {}", bytes.len(), again.len(), hx(bytes), trunc(&v)),
            || c.replay(),
        );
    }
    // fixed point
    let second = guarded(|| {
        let mut buf = &again[..];
        let r = T::decode(&mut buf);
        (r, buf.len())
    });
    match second {
        Err(p) => rep.violation(
            format!("C02|{ty}|panic|{}", p.site()),
            format!("{ty}: decoding the re-encoded value panics ({}); input {}; re-encoded {}", p.text, hx(bytes), hx(&again)),
            || c.replay(),
        ),
        Ok((Err(e), _)) => rep.violation(
            sig("re-encoded value does not decode"),
            format!("{ty}: decode(encode(v)) fails with {e:?}; input {}; v = {}; encode(v) = {}", hx(bytes), trunc(&v), hx(&again)),
            || c.replay(),
        ),
        Ok((Ok(w), rem2)) => {
            if !eq(&v, &w) {
                rep.violation(
                    sig("decode(encode(v)) != v"),
                    format!("{ty}: input {}; v = {}; encode(v) = {}; decode(encode(v)) = {}", hx(bytes), trunc(&v), hx(&again), trunc(&w)),
                    || c.replay(),
                );
            } else if rem2 != 0 {
                rep.violation(
                    sig("decode(encode(v)) leaves bytes unconsumed"),
                    format!("{ty}: {rem2} of {} re-encoded bytes left; input {}; v = {}", again.len(), hx(bytes), trunc(&v)),
                    || c.replay(),
                );
            }
        }
    }
    if remaining > 0 {
        rep.count("ok_with_trailing_bytes_left");
    }
    match c.base {
        Some(b) if b == &again[..] => Outcome::OkSame,
        _ => Outcome::OkChanged,
    }
}

/// does this decode reserve a lot of address space? (a length word of 100 MiB passes
/// `VEC_DECODE_LIMIT`; the reservation is never touched, see the note in `run`)
static BIG: Mutex<()> = Mutex::new(());

fn tx_variant(t: &Transaction) -> String {
    g::tx_kind_name(t).into()
}

fn none<T>(_: &T) -> String {
    String::new()
}

/// does the string contain an aligned word, not present at the same place in the valid base
/// encoding, that is a plausible huge element count (passes the 100 MiB limit)?
fn has_big_word(bytes: &[u8], base: Option<&[u8]>) -> bool {
    bytes.chunks_exact(8).enumerate().any(|(i, w)| {
        let v = u64::from_be_bytes(w.try_into().unwrap());
        (1 << 18..=MIB100).contains(&v) && base.and_then(|b| b.get(i * 8..i * 8 + 8)) != Some(w)
    })
}

fn run_case(rep: &mut Report, c: &Case) -> Outcome {
    let big = has_big_word(c.bytes, c.base);
    let _guard = if big { Some(BIG.lock().unwrap_or_else(|e| e.into_inner())) } else { None };
    if big {
        rep.count("decodes_serialised_big_count_word");
    }
    let o = match c.target {
        Target::Transaction => judge::<Transaction>(rep, c, tx_variant, |a, b| a == b),
        Target::Script => judge::<Script>(rep, c, none, |a, b| a == b),
        Target::Create => judge::<Create>(rep, c, none, |a, b| a == b),
        Target::Mint => judge::<Mint>(rep, c, none, |a, b| a == b),
        Target::Upgrade => judge::<Upgrade>(rep, c, none, |a, b| a == b),
        Target::Upload => judge::<Upload>(rep, c, none, |a, b| a == b),
        Target::Blob => judge::<Blob>(rep, c, none, |a, b| a == b),
        Target::Input => judge::<Input>(rep, c, |i| g::input_variant_name(i).into(), |a, b| a == b),
        Target::Output => judge::<Output>(rep, c, |o| g::output_variant_name(o).into(), |a, b| a == b),
        Target::Receipt => judge::<Receipt>(rep, c, |r| g::receipt_variant_name(r).into(), receipt_eq),
        Target::Policies => judge::<Policies>(rep, c, none, |a, b| a == b),
        Target::UtxoId => judge::<UtxoId>(rep, c, none, |a, b| a == b),
        Target::TxPointer => judge::<TxPointer>(rep, c, none, |a, b| a == b),
        Target::Witness => judge::<Witness>(rep, c, none, |a, b| a == b),
        Target::StorageSlot => judge::<StorageSlot>(rep, c, none, |a, b| a == b),
        Target::UpgradePurpose => judge::<UpgradePurpose>(rep, c, none, |a, b| a == b),
    };
    // the operator class without the position-independent suffix marker is what is covered
    rep.class(format!("{}|{}|{}", c.target.name(), c.op, o.as_str()));
    match &o {
        Outcome::OkSame | Outcome::OkChanged => rep.count(&format!("ok|{}", c.target.name())),
        Outcome::Err(k) => {
            let k = if k.starts_with("Unknown(") { "Unknown" } else { k.as_str() };
            rep.count(&format!("err|{k}"));
        }
        Outcome::Panic => {}
    }
    o
}

/// a valid encoding: (decoder it is meant for, bytes)
fn base_case(rng: &mut Rng, k: u64) -> (Target, Vec<u8>) {
    let which = k % 16;
    let sub = (k / 16) as usize;
    let cap = *rng.pick(&[1usize, 9, 9, 40, 40, 130, 600]);
    match which {
        0..=6 => {
            let o = FreeOpts { cap, max_inputs: 3, max_outputs: 3, max_witnesses: 3, allow_empty_distinguishing: false };
            let kind = sub % g::TX_KINDS;
            let tx = g::free_tx(rng, kind, &o);
            let bytes = tx.to_bytes();
            // 1/7 of the transactions go to the concrete type's decoder, 1/4 of those to the
            // decoder of another kind (prefix mismatch)
            let t = if which == 6 {
                let kk = if sub / g::TX_KINDS % 4 == 3 { kind + 1 + rng.usize_below(5) } else { kind };
                [Target::Script, Target::Create, Target::Mint, Target::Upgrade, Target::Upload, Target::Blob][kk % 6]
            } else {
                Target::Transaction
            };
            (t, bytes)
        }
        7..=9 => (Target::Input, g::input(rng, sub, cap.max(1), false).to_bytes()),
        10 => (Target::Output, g::output(rng, sub).to_bytes()),
        11 | 12 => (Target::Receipt, g::receipt(rng, sub, cap).to_bytes()),
        13 => (Target::Policies, g::policies(rng, sub as u32 % 64).to_bytes()),
        14 => match sub % 3 {
            0 => (Target::Witness, g::witness(rng, 200).to_bytes()),
            1 => (Target::UpgradePurpose, g::upgrade_purpose(rng, sub / 3).to_bytes()),
            _ => (Target::StorageSlot, g::storage_slot(rng).to_bytes()),
        },
        _ => match sub % 2 {
            0 => (Target::UtxoId, g::utxo_id(rng).to_bytes()),
            _ => (Target::TxPointer, g::tx_pointer(rng).to_bytes()),
        },
    }
}

/// byte positions that are padding for sure in an encoding of the small fixed-layout types
fn known_padding(t: Target, bytes: &[u8]) -> Vec<usize> {
    match t {
        // tx id (32) | 6 pad + u16
        Target::UtxoId if bytes.len() == 40 => (32..38).collect(),
        // 4 pad + u32 | 6 pad + u16
        Target::TxPointer if bytes.len() == 16 => (0..4).chain(8..14).collect(),
        // 4 pad + u32 bits
        Target::Policies if bytes.len() >= 8 => (0..4).collect(),
        // length word | data | pad
        Target::Witness if bytes.len() >= 8 => {
            let n = u64::from_be_bytes(bytes[..8].try_into().unwrap()) as usize;
            (8 + n..bytes.len()).collect()
        }
        _ => vec![],
    }
}

/// (operator prefix, outcome prefix) of the sample each worker writes out
const SAMPLE_KINDS: &[(&str, &str)] = &[
    ("word=", "ok_changed"),
    ("trunc_word", "BufferIsTooShort"),
    ("padding_nonzero", "ok_same"),
    ("splice", "ok_changed"),
    ("random_structured", ""),
    ("word=100MiB+1", "AllocationLimit"),
];

struct Worker {
    worker: usize,
    rep: Report,
    strings: u64,
    skip_100mib: bool,
}

impl Worker {
    fn go(&mut self, target: Target, op: &str, bytes: &[u8], base: Option<&[u8]>) -> Outcome {
        self.strings += 1;
        let c = Case { target, op, bytes, base };
        let o = run_case(&mut self.rep, &c);
        // one written-out case per worker, of the kind assigned to it
        if self.rep.samples.is_empty() {
            let (want_op, want_outcome) = SAMPLE_KINDS[self.worker % SAMPLE_KINDS.len()];
            if op.starts_with(want_op) && (want_outcome.is_empty() || o.as_str().starts_with(want_outcome)) && bytes.len() <= 400 {
                self.rep.sample(|| json!({"type": target.name(), "op": op, "hex": hx(bytes), "outcome": o.as_str()}));
            }
        }
        o
    }

    /// all mutants of one valid encoding
    fn mutate(&mut self, rng: &mut Rng, target: Target, base: &[u8], other: &[u8]) {
        let n = base.len();
        let words = n / 8;
        // the unmutated encoding must decode to itself
        let o = self.go(target, "none", base, Some(base));
        if let Outcome::Err(k) = &o {
            // only a prefix-mismatched concrete decoder may refuse a valid encoding; anything
            // else is C01's business (it is an encoding produced by the library)
            if k != "InvalidPrefix" {
                self.rep.count("observation_valid_encoding_rejected");
            }
        }
        // word positions to sweep
        let mut pos: Vec<usize> = (0..words.min(HEAD_WORDS)).collect();
        if words > HEAD_WORDS {
            let mut rest: Vec<usize> = (HEAD_WORDS..words).collect();
            rng.shuffle(&mut rest);
            rest.truncate(SWEEP_WORDS - HEAD_WORDS);
            pos.extend(rest);
        }
        let mut buf = base.to_vec();
        let mut sfx = vec![0u8; 0];
        for &w in &pos {
            let at = w * 8;
            let old = u64::from_be_bytes(base[at..at + 8].try_into().unwrap());
            // (replacement value, refused with AllocationLimit?)
            let mut seen: Vec<(u64, bool)> = Vec::with_capacity(WORD_VALUES.len());
            for (name, val) in WORD_VALUES {
                let new = match (*name, val) {
                    (_, Some(v)) => *v,
                    ("+1", _) => old.wrapping_add(1),
                    _ => old.wrapping_sub(1),
                };
                if new == old {
                    continue;
                }
                if new == MIB100 && self.skip_100mib {
                    self.rep.count("skipped_100MiB_words_low_memory");
                    continue;
                }
                buf[at..at + 8].copy_from_slice(&new.to_be_bytes());
                // half of the mutants get a tail to read from, so that changed lengths and
                // counts can succeed
                let o = if rng.bool() {
                    let op = format!("word={name}");
                    self.go(target, &op, &buf, Some(base))
                } else {
                    let op = format!("word={name}+tail");
                    sfx.clear();
                    sfx.extend_from_slice(&buf);
                    let tail = 8 * rng.range(1, 80) as usize;
                    match rng.below(3) {
                        0 => sfx.resize(n + tail, 0),
                        1 => sfx.extend(rng.bytes(tail)),
                        _ => sfx.extend(other.iter().cycle().take(tail)),
                    }
                    self.go(target, &op, &sfx, Some(base))
                };
                seen.push((new, matches!(&o, Outcome::Err(k) if k == "AllocationLimit")));
            }
            buf[at..at + 8].copy_from_slice(&base[at..at + 8]);
            // a word where 100 MiB + 1 is refused with AllocationLimit is a length/count word:
            // record the largest value that was let through to the allocation
            if seen.iter().any(|(v, refused)| *v == MIB100 + 1 && *refused) {
                self.rep.count("length_words_identified");
                for (v, refused) in &seen {
                    if !refused {
                        self.rep.max("max_len_word_accepted", *v);
                    }
                }
            }
        }
        // truncation at every word boundary (sampled beyond SWEEP_WORDS) and at random offsets
        let mut cuts: Vec<usize> = (0..words).collect();
        if cuts.len() > SWEEP_WORDS {
            rng.shuffle(&mut cuts);
            cuts.truncate(SWEEP_WORDS);
        }
        for w in cuts {
            self.go(target, "trunc_word", &base[..w * 8], Some(base));
        }
        if n > 0 {
            for _ in 0..8 {
                let cut = rng.usize_below(n);
                self.go(target, "trunc_byte", &base[..cut], Some(base));
            }
        }
        if n > 0 {
            // bit flips
            for i in 0..12 {
                let flips = 1 + i % 3;
                for _ in 0..flips {
                    let b = rng.usize_below(n * 8);
                    buf[b / 8] ^= 1 << (b % 8);
                }
                self.go(target, "bitflip", &buf, Some(base));
                buf.copy_from_slice(base);
            }
            // byte replacement
            for _ in 0..12 {
                let p = rng.usize_below(n);
                buf[p] = match rng.below(4) {
                    0 => 0,
                    1 => 0xff,
                    2 => buf[p].wrapping_add(1),
                    _ => rng.u8(),
                };
                self.go(target, "byteset", &buf, Some(base));
                buf[p] = base[p];
            }
            // non-zero padding: exact positions for the fixed-layout types, otherwise a zero
            // byte (padding, or a value byte: the outcome class tells which — `ok_same` means
            // the decoder ignored it)
            let known = known_padding(target, base);
            for _ in 0..10 {
                let p = if !known.is_empty() {
                    *rng.pick(&known)
                } else {
                    let start = rng.usize_below(n);
                    match (0..n).map(|d| (start + d) % n).find(|&q| base[q] == 0) {
                        Some(q) => q,
                        None => break,
                    }
                };
                buf[p] = 1 + rng.below(255) as u8;
                let op = if known.is_empty() { "zero_byte_nonzero" } else { "padding_nonzero" };
                self.go(target, op, &buf, Some(base));
                buf[p] = base[p];
            }
            // several independent edits at once
            for _ in 0..10 {
                for _ in 0..rng.range(2, 4) {
                    if words > 0 && rng.bool() {
                        let at = 8 * rng.usize_below(words);
                        let v = match WORD_VALUES[rng.usize_below(WORD_VALUES.len())].1 {
                            Some(MIB100) | None => rng.below(12),
                            Some(v) => v,
                        };
                        buf[at..at + 8].copy_from_slice(&v.to_be_bytes());
                    } else {
                        let p = rng.usize_below(n);
                        buf[p] = rng.u8();
                    }
                }
                self.go(target, "multi", &buf, Some(base));
                buf.copy_from_slice(base);
            }
        }
        // random suffixes
        for _ in 0..4 {
            let mut s = base.to_vec();
            let k = rng.range(1, 64) as usize;
            s.extend(rng.bytes(k));
            self.go(target, "suffix", &s, Some(base));
        }
        // splices with another valid encoding
        for i in 0..8 {
            let a = 8 * rng.usize_below(words + 1);
            let ow = other.len() / 8;
            let mut s = base[..a].to_vec();
            if i % 2 == 0 {
                let b = 8 * rng.usize_below(ow + 1);
                s.extend_from_slice(&other[b..]);
                self.go(target, "splice_tail", &s, Some(base));
            } else {
                s.extend_from_slice(other);
                s.extend_from_slice(&base[a..]);
                self.go(target, "splice_embed", &s, Some(base));
            }
        }
        // the other encoding fed to this decoder as it is
        self.go(target, "foreign_encoding", other, None);
    }

    fn random_strings(&mut self, seed: u64, from: u64, count: u64) {
        for i in from..count {
            crate::progress(0, i);
            let rng = &mut Rng::derive(seed, 0xC02_0001, i);
            let target = TARGETS[(i as usize) % TARGETS.len()];
            let len = match rng.below(4) {
                0 => rng.usize_below(64),
                1 => 8 * rng.usize_below(513),
                _ => rng.usize_below(4097),
            };
            let mut s = rng.bytes(len);
            if i % 2 == 0 {
                self.go(target, "random", &s, None);
            } else {
                // a plausible first word (discriminant / count / bits), zero-heavy body
                if s.len() >= 8 {
                    let d = rng.below(16);
                    s[..8].copy_from_slice(&d.to_be_bytes());
                }
                if rng.bool() {
                    for w in s.chunks_mut(8).skip(1) {
                        if rng.chance(2, 3) {
                            let v = rng.below(5);
                            let l = w.len();
                            w.copy_from_slice(&v.to_be_bytes()[8 - l..]);
                        }
                    }
                }
                self.go(target, "random_structured", &s, None);
            }
        }
    }
}

fn mem_total_bytes() -> Option<u64> {
    let s = std::fs::read_to_string("/proc/meminfo").ok()?;
    let l = s.lines().find(|l| l.starts_with("MemTotal:"))?;
    let kb: u64 = l.split_whitespace().nth(1)?.parse().ok()?;
    Some(kb * 1024)
}

fn vm_peak_mib() -> Option<u64> {
    let s = std::fs::read_to_string("/proc/self/status").ok()?;
    let l = s.lines().find(|l| l.starts_with("VmPeak:"))?;
    let kb: u64 = l.split_whitespace().nth(1)?.parse().ok()?;
    Some(kb / 1024)
}

/// The byte-vector limit itself: a Witness whose payload is a few bytes below, exactly at
/// and one byte above `VEC_DECODE_LIMIT` (real payloads of 100 MiB). What the decoder
/// returns must encode again to the same bytes (the limit of the encoder must not be
/// tighter than the decoder's); whether limit+1 is refused is observed, not judged.
fn limit_boundary(rep: &mut Report, only: Option<u64>) {
    let limit = fuel_types::canonical::VEC_DECODE_LIMIT as u64;
    let _big = BIG.lock().unwrap_or_else(|e| e.into_inner());
    for (what, len) in [("limit-9", limit - 9), ("limit-8", limit - 8), ("limit-1", limit - 1), ("limit", limit), ("limit+1", limit + 1)] {
        if only.is_some_and(|l| l != len) {
            continue;
        }
        let padded = (len as usize).div_ceil(8) * 8;
        let mut buf: Vec<u8> = Vec::with_capacity(8 + padded);
        buf.extend_from_slice(&len.to_be_bytes());
        buf.resize(8 + len as usize, 0x5a);
        buf.resize(8 + padded, 0);
        rep.eval();
        rep.count("limit_boundary_cases");
        let info = json!({"op": "limit-boundary", "len": len});
        let dec = guarded(|| {
            let mut b = &buf[..];
            let r = Witness::decode(&mut b);
            (r, b.len())
        });
        let (w, remaining) = match dec {
            Err(p) => {
                rep.violation(format!("C02|Witness|panic|limit boundary ({what})|{}", p.site()), format!("Witness::decode of a payload of {len} bytes panics: {}", p.text), || info.clone());
                continue;
            }
            Ok((Err(e), _)) => {
                rep.class(format!("Witness|limit-boundary|{what}|{}", err_kind(&e)));
                if len <= limit {
                    rep.count("observation_payload_within_the_limit_refused");
                    rep.note(format!("Witness payload of {what} bytes refused by the decoder with {e:?} (not judged: the property does not fix the limit)"));
                }
                continue;
            }
            Ok((Ok(w), remaining)) => (w, remaining),
        };
        rep.class(format!("Witness|limit-boundary|{what}|ok"));
        let enc = guarded(|| (w.size(), w.to_bytes()));
        match enc {
            Err(p) => rep.violation(
                format!("C02|Witness|limit boundary ({what})|encoding the decoded value panics"),
                format!("Witness::decode accepted a payload of {len} bytes, encoding the value it returned panics: {}", p.text),
                || info.clone(),
            ),
            Ok((size, again)) => {
                if remaining != 0 || size != buf.len() || again != buf {
                    rep.violation(
                        format!("C02|Witness|limit boundary ({what})|re-encoding differs from the input"),
                        format!("payload {len} bytes: consumed {} of {}, size() {size}, to_bytes().len() {}", buf.len() - remaining, buf.len(), again.len()),
                        || info.clone(),
                    );
                } else {
                    rep.count("limit_boundary_fixed_points");
                }
            }
        }
    }
}

fn replay(cfg: &Cfg, r: &Value) -> Report {
    if r["op"].as_str() == Some("abort") {
        // re-run (in-process: an abort reproduces it) the case a child died on
        let seed = r["seed"].as_u64().unwrap_or(0);
        let k = r["k"].as_u64().unwrap_or(0);
        let mut wk = Worker { worker: 0, rep: Report::new(), strings: 0, skip_100mib: false };
        if r["part"].as_u64() == Some(0) {
            wk.random_strings(seed, k, k + 1);
        } else {
            let prev = if k > 0 { guarded(|| base_case(&mut Rng::derive(seed, 0xC02_0002, k - 1), k - 1)).map(|x| x.1).unwrap_or_default() } else { vec![] };
            let mut rng = Rng::derive(seed, 0xC02_0002, k);
            if let Ok((target, base)) = guarded(|| base_case(&mut rng, k)) {
                wk.mutate(&mut rng, target, &base, &prev);
            }
        }
        wk.rep.note("the recorded case was re-run in-process without aborting");
        return wk.rep;
    }
    if r["op"].as_str() == Some("limit-boundary") {
        let mut rep = Report::new();
        limit_boundary(&mut rep, r["len"].as_u64());
        return rep;
    }
    let mut rep = Report::new();
    let Some(target) = r["type"].as_str().and_then(Target::from_name) else {
        rep.inconclusive = Some(format!("replay record without a known target type: {r}"));
        return rep;
    };
    let bytes = unhx(r["hex"].as_str().unwrap_or(""));
    let op = r["op"].as_str().unwrap_or("replay").to_string();
    let c = Case { target, op: &op, bytes: &bytes, base: None };
    let o = run_case(&mut rep, &c);
    rep.note(format!("replayed {} bytes on {}::decode (seed {}): outcome {}", bytes.len(), target.name(), cfg.seed, o.as_str()));
    rep
}

/// one shard of the workload (child process, single thread); `cfg.seed` is the child's seed
fn run_shard(cfg: &Cfg, shards: u64, from_part: u64, from_idx: u64, total: u64, skip_100mib: bool) -> Report {
    let w: usize = cfg.opt("shard").and_then(|s| s.parse().ok()).unwrap_or(0);
    let per = total / shards.max(1);
    let mut wk = Worker { worker: w, rep: Report::new(), strings: 0, skip_100mib };
    // 10 % of the budget: random strings
    if from_part == 0 {
        wk.random_strings(cfg.seed, from_idx, per / 10);
    }
    let mut j = if from_part == 1 { from_idx } else { 0 };
    let mut prev: Vec<u8> = g::utxo_id(&mut Rng::derive(cfg.seed, 0xC02, w as u64)).to_bytes();
    while wk.strings < per {
        // global case index: the shards interleave, so every shard sees every target kind
        let k = w as u64 + shards.max(1) * j;
        crate::progress(1, j);
        j += 1;
        let mut rng = Rng::derive(cfg.seed, 0xC02_0002, k);
        let made = guarded(|| base_case(&mut rng, k));
        let (target, base) = match made {
            Ok(x) => x,
            Err(p) => {
                // encoding a generated value is C01's subject
                wk.rep.count("observation_generator_encoding_panicked");
                wk.rep.note(format!("encoding a generated value panicked: {}", p.text));
                continue;
            }
        };
        wk.rep.count("bases");
        wk.mutate(&mut rng, target, &base, &prev);
        prev = base;
    }
    wk.rep.count_n("strings", wk.strings);
    if w == 0 && from_part == 0 && from_idx == 0 && !skip_100mib {
        limit_boundary(&mut wk.rep, None);
    }
    if let Some(p) = vm_peak_mib() {
        wk.rep.max("max_vm_peak_mib", p);
    }
    wk.rep
}

pub fn run(cfg: &Cfg) -> Report {
    if let Some(r) = &cfg.replay {
        return replay(cfg, r);
    }
    let total = cfg.budget(300_000, 20_000_000);
    // the largest reservation a 100 MiB count can cause: Vec::<Input>::with_capacity
    let elem = std::mem::size_of::<Input>().max(std::mem::size_of::<Output>()).max(std::mem::size_of::<Witness>()) as u64;
    let worst = MIB100 * elem;
    let skip_100mib = match mem_total_bytes() {
        Some(m) => worst > m / 10 * 8,
        None => false,
    };
    if let Some((shards, fp, fi)) = crate::children::child_mode(cfg) {
        return run_shard(cfg, shards, fp, fi, total, skip_100mib);
    }
    // every shard runs in a child process: an allocation failure abort (a count word that
    // reaches Vec::with_capacity unchecked) kills the child, not the monitor
    let mut rep = crate::children::run_sharded(cfg, "C02", 0x02, |a, rep| {
        let target = if a.part == 0 {
            TARGETS[(a.idx as usize) % TARGETS.len()].name().to_string()
        } else {
            let k = a.shard + cfg.threads.max(1) as u64 * a.idx;
            let mut rng = Rng::derive(a.seed, 0xC02_0002, k);
            guarded(|| base_case(&mut rng, k)).map(|x| x.0.name().to_string()).unwrap_or_else(|_| "?".into())
        };
        if a.kind == "allocation failure" && a.alloc_bytes.is_some_and(|b| b <= worst) {
            // a reservation that a count within VEC_DECODE_LIMIT may legitimately ask for
            // was refused by this machine: memory pressure, not a verdict on the decoder
            rep.inconclusive = Some(format!("a child worker could not reserve {} bytes (<= the {} bytes a count of 100 MiB may reserve): machine memory pressure", a.alloc_bytes.unwrap_or(0), worst));
            return None;
        }
        rep.violation(
            format!("C02|host process aborted|{}|{target}", a.kind),
            format!("child worker killed ({}) while decoding mutants of {} case {} (child seed {}): {}", a.status, if a.part == 0 { "random string" } else { "base" }, a.idx, a.seed, a.tail),
            || json!({"op": "abort", "seed": a.seed, "part": a.part, "k": if a.part == 0 { a.idx } else { a.shard + cfg.threads.max(1) as u64 * a.idx }}),
        );
        Some((a.part, a.idx + 1))
    });
    if let Some(p) = vm_peak_mib() {
        rep.max("max_vm_peak_mib", p);
    }
    rep.rule = "mutation of valid encodings of 16 decoder targets: every 8-byte word (first 40 + 88 sampled) x 14 replacement values (with and without a readable tail), truncation at every word boundary and random offsets, bit flips, byte replacement, non-zero padding, stacked edits, random suffixes, splices, foreign encodings; 10 % random strings of 0..4 KiB; Witness payloads of VEC_DECODE_LIMIT-9, -8, -1, +0, +1 real bytes (decode, re-encode, compare). class = (target type, mutation operator, outcome in {ok_same, ok_changed, error kind})".into();
    rep.assume("every shard of the workload runs in a child process of the monitor which records the case it is about to run; a child killed by a failed allocation larger than any count within VEC_DECODE_LIMIT can reserve (or by a stack overflow) is a violation naming that case, a smaller failed reservation is machine memory pressure (inconclusive)");
    rep.assume("equality is the types' own PartialEq (ignores cached metadata, receipt payloads, panic contract id) with the receipt panic reason masked as in C01");
    rep.assume("error kinds are not judged; a decoder that consumes less than the whole input is not judged (consumed = input length - remaining)");
    rep.note("the fixed-point clause is judged on values returned by the decoder only; values the wire format cannot express (empty variant-distinguishing vector, C01 known findings) are never returned by it");
    rep.note(format!(
        "memory (observation, not judged): a count word of 100 MiB passes VEC_DECODE_LIMIT and makes Vec::with_capacity reserve up to {} MiB ({} bytes per element) before the first element is read; such decodes are serialised by a lock; max_len_word_accepted = largest replacement value not refused with AllocationLimit at a word position identified as a length/count word (where 100 MiB + 1 is refused with AllocationLimit); max_vm_peak_mib = VmPeak of the monitor process{}",
        worst >> 20,
        elem,
        if skip_100mib { "; 100 MiB words were SKIPPED on this machine (reservation > 80 % of MemTotal would risk an allocation abort)" } else { "" }
    ));
    let targets_ok = TARGETS.iter().filter(|t| rep.counter(&format!("ok|{}", t.name())) > 0).count() as u64;
    rep.gate("classes", rep.classes.len() as u64, 400);
    rep.gate("targets_with_ok_decodes", targets_ok, TARGETS.len() as u64);
    for k in ["BufferIsTooShort", "UnknownDiscriminant", "InvalidPrefix", "AllocationLimit", "Unknown"] {
        rep.gate(&format!("error_kind_{k}"), rep.counter(&format!("err|{k}")), 1);
    }
    rep
}
