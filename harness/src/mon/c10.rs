//! C10 Binary Merkle proofs are complete and sound.
//!
//! (a) completeness: every `prove(i)` of both tree implementations returns the RFC 6962
//!     root and audit path (element-wise) and `binary::verify` accepts it;
//! (b) soundness as agreement: on structured mutations of valid tuples (and on tuples
//!     constructed for counts no real tree reaches) `binary::verify` returns exactly what
//!     the reference audit-path verifier returns and never panics.
use crate::{
    Cfg,
    Panicked,
    Report,
    Rng,
    bucket,
    guarded,
    hx,
    par,
    refmodel::rfc6962 as r,
    unhx,
    vmutil::SharedMap,
};
use fuel_merkle::binary::{
    self,
    in_memory::{
        MerkleTree as MemTree,
        NodesTable,
    },
};
use serde_json::{
    Value,
    json,
};
use std::collections::BTreeSet;

type H = [u8; 32];
type StorTree = binary::MerkleTree<NodesTable, SharedMap<NodesTable>>;

const MEM: &str = "in_memory::MerkleTree";
const STOR: &str = "binary::MerkleTree(storage)";

/// every mutation operator the generator can emit (coverage gate: all of them observed)
const OPS: &[&str] = &[
    "none",
    "elem_changed",
    "elem_removed",
    "elem_duplicated",
    "elem_appended",
    "elem_prepended",
    "elem_swapped_with_neighbour",
    "proof_emptied",
    "index+1",
    "index-1",
    "index_mirrored",
    "index_sibling",
    "index+count",
    "index+pow2",
    "count+1",
    "count-1",
    "count*2",
    "count_next_pow2",
    "count=index+1",
    "count=index",
    "data_changed",
    "data_extended",
    "root_changed",
    "root=leaf_hash",
    "same_height_count",
    "count=0",
    "count=1",
    "count=0_noproof",
    "count=1_noproof",
    "count=1_noproof_root=leaf_hash",
    "count=1_noproof_root=leaf_hash_index=0",
    "index_huge",
    "count_huge",
    "index_count_huge",
    "constructed",
    "constructed_elem_changed",
    "constructed_root_changed",
    "constructed_index+1",
    "constructed_count+1",
];

#[derive(Clone, Debug)]
struct Tuple {
    root: H,
    data: Vec<u8>,
    proof: Vec<H>,
    index: u64,
    count: u64,
}

impl Tuple {
    fn to_json(&self, op: &str) -> Value {
        json!({
            "kind": "tuple",
            "op": op,
            "root": hx(self.root),
            "data": hx(&self.data),
            "proof": self.proof.iter().map(hx).collect::<Vec<_>>(),
            // decimal strings: u64 values above 2^53 must survive any JSON tooling
            "index": self.index.to_string(),
            "count": self.count.to_string(),
        })
    }

    fn from_json(v: &Value) -> Option<(String, Tuple)> {
        let h = |s: &str| -> Option<H> { unhx(s).try_into().ok() };
        let num = |x: &Value| -> Option<u64> {
            x.as_u64().or_else(|| x.as_str().and_then(|s| s.parse().ok()))
        };
        Some((
            v.get("op")?.as_str()?.to_string(),
            Tuple {
                root: h(v.get("root")?.as_str()?)?,
                data: unhx(v.get("data")?.as_str()?),
                proof: v
                    .get("proof")?
                    .as_array()?
                    .iter()
                    .map(|e| e.as_str().and_then(h))
                    .collect::<Option<Vec<_>>>()?,
                index: num(v.get("index")?)?,
                count: num(v.get("count")?)?,
            },
        ))
    }
}

/// largest power of two strictly below n (n > 1), valid on the whole u64 range
fn split(n: u64) -> u64 {
    debug_assert!(n > 1);
    1u64 << (63 - (n - 1).leading_zeros())
}

/// precedence first > last > last-of-left-subtree > interior (they only overlap for n <= 2)
fn pos_class(i: u64, n: u64) -> &'static str {
    if i == 0 {
        "first"
    } else if i + 1 == n {
        "last"
    } else if n > 1 && i + 1 == split(n) {
        "last-of-left-subtree"
    } else {
        "interior"
    }
}

fn flip_bit(h: &mut [u8], rng: &mut Rng) {
    let bit = rng.usize_below(h.len() * 8);
    h[bit / 8] ^= 1 << (bit % 8);
}

/// Judge one tuple: `binary::verify` must return what the reference verifier returns.
fn judge(rep: &mut Report, ctx: &str, op: &str, t: &Tuple) {
    let want = r::verify(&t.root, &t.data, &t.proof, t.index, t.count);
    let got = guarded(|| binary::verify(&t.root, &t.data, &t.proof, t.index, t.count));
    rep.eval();
    rep.class(format!("{ctx}|{op}|ref={}", if want { "accept" } else { "reject" }));
    rep.count(if want { "ref_accepts" } else { "ref_rejects" });
    rep.count(&format!("op:{op}"));
    match got {
        Ok(g) if g == want => {}
        Ok(g) => rep.violation(
            format!(
                "C10|binary::verify|disagrees with the RFC 6962 verifier|op={op}|ref={} impl={}|{}",
                verdict(want),
                verdict(g),
                count_class(t.count)
            ),
            format!(
                "binary::verify returned {g}, the reference audit-path verifier {want}: index={} count={} proof_len={} data_len={} (mutation {op}, {ctx})",
                t.index,
                t.count,
                t.proof.len(),
                t.data.len()
            ),
            || t.to_json(op),
        ),
        Err(p) => rep.violation(
            format!("C10|binary::verify|panic|{}|{}", panic_msg(&p), count_class(t.count)),
            format!(
                "binary::verify panicked ({}) on index={} count={} proof_len={} (mutation {op}; the reference verdict is {})",
                p.text,
                t.index,
                t.count,
                t.proof.len(),
                verdict(want)
            ),
            || t.to_json(op),
        ),
    }
}

/// panic message without the location (stable across edits that move lines)
fn panic_msg(p: &Panicked) -> String {
    p.text.rsplit_once(" @ ").map(|(m, _)| m).unwrap_or(&p.text).to_string()
}

/// trees of 2^63 or more leaves cannot be built by the implementation (node positions are
/// u64 in-order indices); findings there are keyed separately
fn count_class(count: u64) -> &'static str {
    if count >= 1 << 63 { "count>=2^63" } else { "count<2^63" }
}

fn verdict(b: bool) -> &'static str {
    if b { "accept" } else { "reject" }
}

/// Structured mutations of a (normally valid) tuple.
fn mutations(t: &Tuple, rng: &mut Rng, all_elems: bool) -> Vec<(&'static str, Tuple)> {
    let mut out: Vec<(&'static str, Tuple)> = vec![];
    let l = t.proof.len();
    let leaf = r::leaf_hash(&t.data);
    let mut m = |op: &'static str, f: &mut dyn FnMut(&mut Tuple)| {
        let mut c = t.clone();
        f(&mut c);
        out.push((op, c));
    };
    m("none", &mut |_| {});

    // element positions
    let mut few: BTreeSet<usize> = BTreeSet::new();
    if l > 0 {
        few.insert(0);
        few.insert(l - 1);
        few.insert(rng.usize_below(l));
    }
    let all: Vec<usize> = if all_elems { (0..l).collect() } else { few.iter().copied().collect() };
    for &j in &all {
        let mut r2 = rng.clone();
        m("elem_changed", &mut |c| flip_bit(&mut c.proof[j], &mut r2));
        rng.u64();
    }
    for &j in &few {
        m("elem_removed", &mut |c| {
            c.proof.remove(j);
        });
        m("elem_duplicated", &mut |c| {
            let e = c.proof[j];
            c.proof.insert(j + 1, e);
        });
        if j + 1 < l {
            m("elem_swapped_with_neighbour", &mut |c| c.proof.swap(j, j + 1));
        }
    }
    let rnd: H = rng.arr();
    m("elem_appended", &mut |c| c.proof.push(rnd));
    if l > 0 {
        m("elem_appended", &mut |c| {
            let e = c.proof[l - 1];
            c.proof.push(e)
        });
    }
    m("elem_appended", &mut |c| c.proof.push(c.root));
    m("elem_prepended", &mut |c| c.proof.insert(0, leaf));
    if l > 0 {
        m("proof_emptied", &mut |c| c.proof.clear());
    }

    // index
    m("index+1", &mut |c| c.index = c.index.wrapping_add(1));
    m("index-1", &mut |c| c.index = c.index.wrapping_sub(1));
    m("index_mirrored", &mut |c| c.index = c.count.wrapping_sub(1).wrapping_sub(c.index));
    m("index_sibling", &mut |c| c.index ^= 1);
    m("index+count", &mut |c| c.index = c.index.wrapping_add(c.count));
    m("index+pow2", &mut |c| {
        c.index = c.index.wrapping_add(c.count.checked_next_power_of_two().unwrap_or(1 << 63))
    });

    // count
    m("count+1", &mut |c| c.count = c.count.wrapping_add(1));
    m("count-1", &mut |c| c.count = c.count.wrapping_sub(1));
    m("count*2", &mut |c| c.count = c.count.wrapping_mul(2));
    m("count_next_pow2", &mut |c| {
        c.count = c.count.checked_next_power_of_two().unwrap_or(1 << 63)
    });
    m("count=index+1", &mut |c| c.count = c.index.wrapping_add(1));
    m("count=index", &mut |c| c.count = c.index);

    // data, root
    let mut r3 = rng.clone();
    m("data_changed", &mut |c| {
        if c.data.is_empty() {
            c.data.push(0)
        } else {
            flip_bit(&mut c.data, &mut r3)
        }
    });
    m("data_extended", &mut |c| c.data.push(0));
    let mut r4 = rng.clone();
    rng.u64();
    m("root_changed", &mut |c| flip_bit(&mut c.root, &mut r4));
    m("root=leaf_hash", &mut |c| c.root = leaf);

    // the same proof presented for another count with the same audit-path length
    if let Some(len) = r::path_len(t.index, t.count) {
        let mut cands: Vec<u64> = vec![];
        let lo = t.count.saturating_sub(70).max(t.index + 1);
        if let Some(n2) = (lo..t.count).rev().find(|&n2| r::path_len(t.index, n2) == Some(len)) {
            cands.push(n2);
        }
        if let Some(n2) = (t.count.saturating_add(1)..=t.count.saturating_add(70))
            .find(|&n2| r::path_len(t.index, n2) == Some(len))
        {
            cands.push(n2);
        }
        if let Some(p) = t.count.checked_next_power_of_two() {
            if p != t.count && r::path_len(t.index, p) == Some(len) {
                cands.push(p);
            }
        }
        // a random one in the same power-of-two band
        if t.count > 2 {
            let p = t.count.checked_next_power_of_two().unwrap_or(u64::MAX);
            let n2 = rng.range((p / 2 + 1).max(t.index + 1), p);
            if n2 != t.count && r::path_len(t.index, n2) == Some(len) {
                cands.push(n2);
            }
        }
        cands.dedup();
        for n2 in cands {
            m("same_height_count", &mut |c| c.count = n2);
        }
    }

    // degenerate counts
    m("count=0", &mut |c| c.count = 0);
    m("count=1", &mut |c| c.count = 1);
    m("count=0_noproof", &mut |c| {
        c.count = 0;
        c.proof.clear()
    });
    m("count=1_noproof", &mut |c| {
        c.count = 1;
        c.proof.clear()
    });
    m("count=1_noproof_root=leaf_hash", &mut |c| {
        c.count = 1;
        c.proof.clear();
        c.root = leaf
    });
    m("count=1_noproof_root=leaf_hash_index=0", &mut |c| {
        c.count = 1;
        c.proof.clear();
        c.root = leaf;
        c.index = 0
    });

    // u64 boundary
    for v in [u64::MAX, u64::MAX - 1, 1 << 63, t.index | (1 << 63), t.index.wrapping_add(1 << 32)] {
        m("index_huge", &mut |c| c.index = v);
    }
    for v in [
        u64::MAX,
        u64::MAX - 1,
        1 << 63,
        (1 << 63) + 1,
        (1 << 63) - 1,
        t.count | (1 << 63),
        t.count.wrapping_add(1 << 32),
    ] {
        m("count_huge", &mut |c| c.count = v);
    }
    for (iv, cv) in [
        (u64::MAX - 1, u64::MAX),
        (u64::MAX, u64::MAX),
        (t.index | (1 << 63), t.count | (1 << 63)),
        (t.index.wrapping_add(1 << 32), t.count.wrapping_add(1 << 32)),
    ] {
        m("index_count_huge", &mut |c| {
            c.index = iv;
            c.count = cv
        });
    }
    out
}

/// Root reached by the RFC 6962 audit-path recomputation (monitor-side generator helper,
/// written from the recursive definition PATH(m, D[n])): None if the length does not fit.
fn recompute(leaf: H, proof: &[H], m: u64, n: u64) -> Option<H> {
    if m >= n {
        return None;
    }
    if n == 1 {
        return proof.is_empty().then_some(leaf);
    }
    let (last, rest) = proof.split_last()?;
    let k = split(n);
    if m < k {
        Some(r::node_hash(&recompute(leaf, rest, m, k)?, last))
    } else {
        Some(r::node_hash(last, &recompute(leaf, rest, m - k, n - k)?))
    }
}

/// One completeness observation: what `prove(i)` returned against the reference.
fn check_prove(
    rep: &mut Report,
    name: &str,
    got: Result<Result<(H, Vec<H>), String>, Panicked>,
    want_root: &H,
    want_path: &[H],
    data: &[u8],
    i: u64,
    n: u64,
    ctx: &str,
    replay: &dyn Fn() -> Value,
) {
    rep.eval();
    rep.count("proofs_checked");
    rep.class(format!("{ctx}|prove|{name}"));
    match got {
        Err(p) => rep.violation(
            format!("C10|{name}|prove(i<n) panicked|{}", panic_msg(&p)),
            format!("{name}: prove({i}) of {n} leaves panicked: {}", p.text),
            replay,
        ),
        Ok(Err(e)) => rep.violation(
            format!("C10|{name}|prove(i<n) refused"),
            format!("{name}: prove({i}) of {n} leaves returned no proof: {e}"),
            replay,
        ),
        Ok(Ok((root, proof))) => {
            let mut ok = true;
            if root != *want_root {
                ok = false;
                rep.violation(
                    format!("C10|{name}|prove root != MTH"),
                    format!("{name}: prove({i}) of {n} leaves returned root {} but MTH is {}", hx(root), hx(want_root)),
                    replay,
                );
            }
            if proof.len() != want_path.len() {
                ok = false;
                rep.violation(
                    format!("C10|{name}|proof != PATH|length"),
                    format!("{name}: prove({i}) of {n} leaves returned {} elements, PATH has {}", proof.len(), want_path.len()),
                    replay,
                );
            } else if let Some(j) = (0..proof.len()).find(|&j| proof[j] != want_path[j]) {
                ok = false;
                rep.violation(
                    format!("C10|{name}|proof != PATH|element"),
                    format!("{name}: prove({i}) of {n} leaves: element {j} is {} but PATH has {}", hx(proof[j]), hx(want_path[j])),
                    replay,
                );
            }
            // the produced tuple must verify with that leaf's data, index and count
            match guarded(|| binary::verify(&root, &data, &proof, i, n)) {
                Ok(true) => {}
                Ok(false) => rep.violation(
                    format!(
                        "C10|{name}|produced proof rejected by binary::verify|{}",
                        if ok { "proof == PATH" } else { "proof != PATH" }
                    ),
                    format!("{name}: verify(root, leaf, prove({i}), {i}, {n}) is false"),
                    replay,
                ),
                Err(p) => rep.violation(
                    format!("C10|binary::verify|panic|{}|{}", panic_msg(&p), count_class(n)),
                    format!("binary::verify panicked on the proof of {name} for ({i},{n}): {}", p.text),
                    replay,
                ),
            }
        }
    }
}

fn mem_prove(t: &MemTree, i: u64) -> Result<Result<(H, Vec<H>), String>, Panicked> {
    guarded(|| t.prove(i).ok_or_else(|| "None".to_string()))
}

fn stor_prove(t: &StorTree, i: u64) -> Result<Result<(H, Vec<H>), String>, Panicked> {
    guarded(|| t.prove(i).map_err(|e| format!("Err({e:?})")))
}

fn leaf(rng: &mut Rng) -> Vec<u8> {
    match rng.below(8) {
        0 => vec![],
        1 => vec![rng.u8()],
        2 => rng.bytes(32),
        // 65 bytes starting with 0x01: looks like an inner-node preimage
        3 => {
            let mut v = rng.bytes(65);
            v[0] = 1;
            v
        }
        4 => rng.bytes(64),
        5 => vec![0u8; 33],
        _ => {
            let n = rng.len(300);
            rng.bytes(n)
        }
    }
}

/// exhaustive (n, i) for n <= max_n over `streams` leaf streams
fn exhaustive(cfg: &Cfg, worker: usize, max_n: usize, streams: u64) -> Report {
    let mut rep = Report::new();
    for s in 0..streams {
        let mut lrng = Rng::derive(cfg.seed, 0x10_00, s);
        let mut mrng = Rng::derive(cfg.seed, 0x10_01 + s, worker as u64);
        let mut mem = MemTree::new();
        let mut stor: StorTree = binary::MerkleTree::new(SharedMap::new());
        let mut memo = r::Memo::new();
        let mut datas: Vec<Vec<u8>> = vec![];
        for n in 1..=max_n {
            let d = if s == 0 { vec![(n & 0xff) as u8, (n >> 8) as u8] } else { leaf(&mut lrng) };
            mem.push(&d);
            if let Err(e) = stor.push(&d) {
                rep.violation(format!("C10|{STOR}|push error"), format!("{e:?}"), || json!({"kind":"note"}));
            }
            memo.push(&d);
            datas.push(d);
            if n % cfg.threads.max(1) != worker % cfg.threads.max(1) {
                continue;
            }
            let want_root = memo.root(n);
            for i in 0..n {
                let want_path = memo.path(i, n);
                let ctx = format!("n={}|pos={}", bucket(n as u64), pos_class(i as u64, n as u64));
                let datas_ref = &datas;
                for name in [MEM, STOR] {
                    let got = if name == MEM { mem_prove(&mem, i as u64) } else { stor_prove(&stor, i as u64) };
                    check_prove(
                        &mut rep,
                        name,
                        got,
                        &want_root,
                        &want_path,
                        &datas[i],
                        i as u64,
                        n as u64,
                        &ctx,
                        &|| json!({"kind":"prove","impl":name,"i":i,"leaves":datas_ref.iter().map(hx).collect::<Vec<_>>()}),
                    );
                }
                let t = Tuple { root: want_root, data: datas[i].clone(), proof: want_path, index: i as u64, count: n as u64 };
                for (op, mt) in mutations(&t, &mut mrng, true) {
                    judge(&mut rep, &ctx, op, &mt);
                }
                if worker == 0 && s == 0 && n >= 13 && i == 7 && rep.counter("exhaustive_sampled") == 0 {
                    rep.count("exhaustive_sampled");
                    rep.sample(|| json!({"what":"valid tuple from the exhaustive sweep", "tuple": t.to_json("none")}));
                }
            }
        }
    }
    rep
}

/// trees that live on storage which already holds an older, larger tree: after `reset()`
/// (both implementations) and after `load(storage, k)` at an earlier leaf count
fn reused(cfg: &Cfg, worker: usize) -> Report {
    let mut rep = Report::new();
    let olds: &[usize] = if cfg.thorough { &[4, 8, 11, 16, 21, 33, 64] } else { &[8, 11, 16, 21] };
    for (oi, &old) in olds.iter().enumerate() {
        if oi % cfg.threads.max(1) != worker % cfg.threads.max(1) {
            continue;
        }
        let mut lrng = Rng::derive(cfg.seed, 0x10_30, old as u64);
        for new in 1..old {
            // (a) reset, then a smaller tree over other data
            let mut mem = MemTree::new();
            let storage = SharedMap::new();
            let mut stor: StorTree = binary::MerkleTree::new(storage.clone());
            for _ in 0..old {
                let d = leaf(&mut lrng);
                mem.push(&d);
                let _ = stor.push(&d);
            }
            mem.reset();
            stor.reset();
            let mut memo = r::Memo::new();
            let mut datas: Vec<Vec<u8>> = vec![];
            for _ in 0..new {
                let d = leaf(&mut lrng);
                mem.push(&d);
                let _ = stor.push(&d);
                memo.push(&d);
                datas.push(d);
            }
            let want_root = memo.root(new);
            for i in 0..new {
                let want_path = memo.path(i, new);
                let ctx = format!("after-reset|n={}|pos={}", bucket(new as u64), pos_class(i as u64, new as u64));
                let datas_ref = &datas;
                for name in [MEM, STOR] {
                    let got = if name == MEM { mem_prove(&mem, i as u64) } else { stor_prove(&stor, i as u64) };
                    check_prove(&mut rep, name, got, &want_root, &want_path, &datas[i], i as u64, new as u64, &ctx, &|| {
                        json!({"kind":"note","what":"tree rebuilt after reset on used storage","old":old,"new":new,"i":i,"leaves":datas_ref.iter().map(hx).collect::<Vec<_>>()})
                    });
                }
            }
            rep.count("reused_storage_trees_checked");
        }
        // (b) load at every earlier count of one growing tree
        let storage = SharedMap::new();
        let mut stor: StorTree = binary::MerkleTree::new(storage.clone());
        let mut memo = r::Memo::new();
        let mut datas: Vec<Vec<u8>> = vec![];
        for _ in 0..old {
            let d = leaf(&mut lrng);
            let _ = stor.push(&d);
            memo.push(&d);
            datas.push(d);
        }
        for k in 1..old {
            let Ok(Ok(t)) = guarded(|| StorTree::load(storage.clone(), k as u64)) else {
                rep.count("unjudged_load_failed(C11)");
                continue;
            };
            let want_root = memo.root(k);
            for i in 0..k {
                let want_path = memo.path(i, k);
                let ctx = format!("after-load|n={}|pos={}", bucket(k as u64), pos_class(i as u64, k as u64));
                check_prove(&mut rep, STOR, stor_prove(&t, i as u64), &want_root, &want_path, &datas[i], i as u64, k as u64, &ctx, &|| {
                    json!({"kind":"note","what":"tree loaded at an earlier count from storage holding a larger tree","old":old,"k":k,"i":i})
                });
            }
            rep.count("reused_storage_trees_checked");
        }
    }
    rep
}

/// leaf j of a big tree (self-contained formula so that replay records stay small)
fn big_leaf(salt: u32, j: u64) -> [u8; 3] {
    let v = (j as u32).wrapping_mul(2_654_435_761) ^ salt;
    [v as u8, (v >> 8) as u8, (v >> 16) as u8]
}

fn sample_indices(n: u64, rng: &mut Rng, random: usize) -> Vec<u64> {
    let mut s: BTreeSet<u64> = BTreeSet::new();
    for v in [0, 1, 2, n - 1, n.saturating_sub(2), n / 2, n / 2 + 1] {
        if v < n {
            s.insert(v);
        }
    }
    if n > 1 {
        let k = split(n);
        for v in [k - 1, k, k + 1, k.saturating_sub(2)] {
            if v < n {
                s.insert(v);
            }
        }
    }
    // first and last leaf of every peak (perfect subtree of the binary decomposition)
    let mut start = 0u64;
    for b in (0..64).rev() {
        if n & (1 << b) != 0 {
            s.insert(start);
            start += 1 << b;
            s.insert(start - 1);
        }
    }
    for _ in 0..random {
        s.insert(rng.below(n));
    }
    s.into_iter().collect()
}

/// one big incremental tree per worker, probed at the worker's checkpoints
fn big(cfg: &Cfg, worker: usize, counts: &[u64], random_per_n: usize) -> Report {
    let mut rep = Report::new();
    let mine: Vec<u64> = counts
        .iter()
        .enumerate()
        .filter(|(k, _)| k % cfg.threads.max(1) == worker)
        .map(|(_, n)| *n)
        .collect();
    let Some(&max_n) = mine.iter().max() else { return rep };
    let salt = Rng::derive(cfg.seed, 0x10_20, worker as u64).u32();
    let mut rng = Rng::derive(cfg.seed, 0x10_21, worker as u64);
    let mut mem = MemTree::new();
    let mut stor: StorTree = binary::MerkleTree::new(SharedMap::new());
    let mut memo = r::Memo::new();
    for n in 1..=max_n {
        let d = big_leaf(salt, n - 1);
        mem.push(&d);
        if let Err(e) = stor.push(&d) {
            rep.violation(format!("C10|{STOR}|push error"), format!("{e:?}"), || json!({"kind":"note"}));
        }
        memo.push(&d);
        if !mine.contains(&n) {
            continue;
        }
        rep.max("max_n_probed", n);
        let want_root = memo.root(n as usize);
        for i in sample_indices(n, &mut rng, random_per_n) {
            let want_path = memo.path(i as usize, n as usize);
            let d = big_leaf(salt, i);
            let ctx = format!("n={}|pos={}", bucket(n), pos_class(i, n));
            for name in [MEM, STOR] {
                let got = if name == MEM { mem_prove(&mem, i) } else { stor_prove(&stor, i) };
                check_prove(&mut rep, name, got, &want_root, &want_path, &d, i, n, &ctx, &|| {
                    json!({"kind":"prove_big","impl":name,"salt":salt,"n":n,"i":i})
                });
            }
            let t = Tuple { root: want_root, data: d.to_vec(), proof: want_path, index: i, count: n };
            for (op, mt) in mutations(&t, &mut rng, false) {
                judge(&mut rep, &ctx, op, &mt);
            }
        }
        if n > 5000 && rep.counter("big_sampled") == 0 {
            rep.count("big_sampled");
            rep.sample(|| json!({"what":"big tree checkpoint","n":n,"salt":salt,"root":hx(want_root)}));
        }
    }
    rep
}

/// Tuples for counts no real tree reaches: random siblings, root by the reference
/// recomputation (so the reference accepts), then a few mutations.
fn constructed(cfg: &Cfg, worker: usize, rounds: u64) -> Report {
    let mut rep = Report::new();
    let mut rng = Rng::derive(cfg.seed, 0x10_30, worker as u64);
    let mut counts: Vec<u64> = vec![];
    for k in [8u32, 16, 31, 32, 33, 47, 62, 63] {
        for d in [-1i64, 0, 1] {
            counts.push((1u64 << k).wrapping_add(d as u64));
        }
        counts.push((1u64 << k) + (1u64 << (k - 1)));
        counts.push((1u64 << k) + (1u64 << (k - 3)) + 5);
    }
    counts.extend([u64::MAX, u64::MAX - 1, u64::MAX - 2, (1 << 63) + (1 << 62) + 1]);
    for _ in 0..rounds {
        for &n in &counts {
            let k = split(n);
            let cand = [0, 1, n - 1, n - 2, k - 1, k, k + 1, rng.below(n), rng.below(n), rng.word() % n];
            let i = *rng.pick(&cand);
            if i >= n {
                continue;
            }
            let len = r::path_len(i, n).expect("i < n");
            let proof: Vec<H> = (0..len).map(|_| rng.arr()).collect();
            let dl = rng.usize_below(40);
            let data = rng.bytes(dl);
            let Some(root) = recompute(r::leaf_hash(&data), &proof, i, n) else {
                rep.inconclusive = Some("C10 generator: recompute disagrees with path_len".into());
                return rep;
            };
            let t = Tuple { root, data, proof, index: i, count: n };
            if !r::verify(&t.root, &t.data, &t.proof, t.index, t.count) {
                rep.inconclusive = Some("C10 generator: constructed tuple not accepted by the reference".into());
                return rep;
            }
            let nb = if n >= 1 << 63 { "2^63+" } else if n >= 1 << 32 { "2^32+" } else { bucket(n) };
            let ctx = format!("n={nb}|pos={}", pos_class(i, n));
            judge(&mut rep, &ctx, "constructed", &t);
            let mut c = t.clone();
            let j = rng.usize_below(len);
            flip_bit(&mut c.proof[j], &mut rng);
            judge(&mut rep, &ctx, "constructed_elem_changed", &c);
            let mut c = t.clone();
            flip_bit(&mut c.root, &mut rng);
            judge(&mut rep, &ctx, "constructed_root_changed", &c);
            let mut c = t.clone();
            c.index = c.index.wrapping_add(1);
            judge(&mut rep, &ctx, "constructed_index+1", &c);
            let mut c = t.clone();
            c.count = c.count.wrapping_add(1);
            judge(&mut rep, &ctx, "constructed_count+1", &c);
            if n == u64::MAX && worker == 0 && rep.counter("constructed_sampled") == 0 {
                rep.count("constructed_sampled");
                rep.sample(|| json!({"what":"constructed tuple at the u64 boundary","tuple":t.to_json("constructed")}));
            }
        }
    }
    rep
}

fn replay(rec: &Value) -> Report {
    let mut rep = Report::new();
    match rec.get("kind").and_then(|k| k.as_str()) {
        Some("tuple") => match Tuple::from_json(rec) {
            Some((op, t)) => {
                let ctx = format!("n={}|pos={}", bucket(t.count), if t.index < t.count { pos_class(t.index, t.count) } else { "outside" });
                judge(&mut rep, &ctx, &op, &t);
                rep.note(format!(
                    "replayed tuple: reference verdict {}, binary::verify {:?}",
                    r::verify(&t.root, &t.data, &t.proof, t.index, t.count),
                    guarded(|| binary::verify(&t.root, &t.data, &t.proof, t.index, t.count)).map_err(|p| p.text)
                ));
            }
            None => rep.inconclusive = Some("malformed C10 tuple replay record".into()),
        },
        Some(kind @ ("prove" | "prove_big")) => {
            let name = if rec["impl"].as_str() == Some(MEM) { MEM } else { STOR };
            let i = rec["i"].as_u64().unwrap_or(0);
            let datas: Vec<Vec<u8>> = if kind == "prove" {
                rec["leaves"].as_array().map(|a| a.iter().map(|x| unhx(x.as_str().unwrap_or(""))).collect()).unwrap_or_default()
            } else {
                let salt = rec["salt"].as_u64().unwrap_or(0) as u32;
                (0..rec["n"].as_u64().unwrap_or(0)).map(|j| big_leaf(salt, j).to_vec()).collect()
            };
            let n = datas.len() as u64;
            if i >= n {
                rep.inconclusive = Some("malformed C10 prove replay record".into());
                return rep;
            }
            let mut mem = MemTree::new();
            let mut stor: StorTree = binary::MerkleTree::new(SharedMap::new());
            let mut memo = r::Memo::new();
            for d in &datas {
                mem.push(d);
                let _ = stor.push(d);
                memo.push(d);
            }
            let got = if name == MEM { mem_prove(&mem, i) } else { stor_prove(&stor, i) };
            rep.note(format!("replayed prove({i}) of {n} leaves on {name}: {}", match &got {
                Ok(Ok((root, p))) => format!("root {} with {} proof elements", hx(root), p.len()),
                Ok(Err(e)) => format!("no proof ({e})"),
                Err(p) => format!("panic {}", p.text),
            }));
            let ctx = format!("n={}|pos={}", bucket(n), pos_class(i, n));
            let rec2 = rec.clone();
            check_prove(&mut rep, name, got, &memo.root(n as usize), &memo.path(i as usize, n as usize), &datas[i as usize], i, n, &ctx, &|| rec2.clone());
        }
        _ => rep.inconclusive = Some("unknown C10 replay record".into()),
    }
    rep
}

pub fn run(cfg: &Cfg) -> Report {
    let rule = "class = (n bucket, position class of i in {first,last,last-of-left-subtree,interior} (precedence in that order), mutation operator or prove|implementation, reference verdict)";
    if let Some(rec) = &cfg.replay {
        let mut rep = replay(rec);
        rep.rule = rule.into();
        return rep;
    }
    let max_n = cfg.budget(96, 300) as usize;
    let streams = if cfg.thorough { 6 } else { 2 };
    let kmax = if cfg.thorough { 20 } else { 14 };
    let mut crng = Rng::derive(cfg.seed, 0x10_10, 0);
    let mut counts: BTreeSet<u64> = BTreeSet::new();
    for k in 9..=kmax {
        for d in [-1i64, 0, 1] {
            counts.insert(((1i64 << k) + d) as u64);
        }
        // two and three peaks, and a random count in the band
        if k < kmax {
            counts.insert((1 << k) + (1 << (k - 1)));
            counts.insert((1 << k) + (1 << (k - 2)) + 1);
            counts.insert(crng.range((1 << k) + 2, (2 << k) - 2));
        }
    }
    let extra = cfg.budget(16, 160);
    for _ in 0..extra {
        let k = crng.range(9, kmax - 1);
        counts.insert(crng.range(1 << k, 2 << k).min((1 << kmax) + 1));
    }
    let counts: Vec<u64> = counts.into_iter().collect();
    let random_per_n = if cfg.thorough { 48 } else { 24 };
    let rounds = cfg.budget(6, 60);

    let mut rep = par(cfg.threads, |w| {
        let mut r = exhaustive(cfg, w, max_n, streams);
        r.merge(constructed(cfg, w, rounds));
        r.merge(reused(cfg, w));
        r.merge(big(cfg, w, &counts, random_per_n));
        r
    });
    rep.rule = rule.into();
    rep.note(format!(
        "exhaustive (n,i) for n<={max_n} over {streams} leaf streams on both tree implementations, every proof element mutated; {} big checkpoints up to n=2^{kmax}+1 with boundary + {random_per_n} random indices each; constructed tuples for counts up to u64::MAX",
        counts.len()
    ));
    rep.assume("reference: RFC 6962 MTH / PATH / audit-path verification by the recursive definitions (refmodel::rfc6962), sha2 crate trusted");
    rep.assume("soundness is judged as agreement with the reference verifier; collision resistance of SHA-256 is what turns agreement into 'altered tuples are rejected'");
    let ops_seen = OPS.iter().filter(|o| rep.counter(&format!("op:{o}")) > 0).count() as u64;
    rep.gate("mutation_operators_seen", ops_seen, OPS.len() as u64);
    rep.gate("proofs_checked", rep.counter("proofs_checked"), (max_n * (max_n + 1)) as u64);
    rep.gate("reused_storage_trees_checked", rep.counter("reused_storage_trees_checked"), 20);
    rep.gate("reference_accepts", rep.counter("ref_accepts"), 1000);
    rep.gate("reference_rejects", rep.counter("ref_rejects"), 1000);
    rep.gate("classes", rep.classes.len() as u64, 300);
    rep
}
