//! C15 — contract and predicate identifiers follow the specification (DESIGN.md section 4).
//!
//! Library functions and VM paths are compared with the specification formulas:
//! * code root = RFC 6962 MTH over the code split into 16 KiB leaves, the final partial leaf
//!   zero-padded to a multiple of 8 bytes (`refmodel::rfc6962`);
//! * initial state root = compact sparse Merkle root of sha256(slot key) -> slot value
//!   (`refmodel::smt`);
//! * contract id = sha256("FUEL" ‖ salt ‖ code root ‖ state root);
//! * predicate owner = sha256("FUEL" ‖ code root of the predicate);
//! * VM paths: a Create transaction carrying the reference id / state root is accepted by
//!   checking (a differing ContractCreated output is rejected) and `Transactor::deploy`
//!   stores code and slots under the reference id; `CROO` writes the reference root of a
//!   stored contract's code; predicate checking accepts a predicate input iff its owner is
//!   the reference owner.

use crate::{
    Cfg,
    Report,
    Rng,
    bucket,
    guarded,
    hx,
    par,
    refmodel::{
        H,
        rfc6962,
        sha256,
        smt,
    },
    unhx,
};
use fuel_asm::{
    RegId,
    op,
};
use fuel_tx::{
    ConsensusParameters,
    Contract,
    ContractParameters,
    Input,
    Output,
    Receipt,
    StorageSlot,
    Transaction,
    TxParameters,
    TxPointer,
    UtxoId,
    Witness,
    policies::Policies,
};
use fuel_types::{
    Address,
    AssetId,
    BlockHeight,
    Bytes32,
    ContractId,
    Nonce,
    Salt,
};
use fuel_vm::{
    checked_transaction::{
        CheckPredicateParams,
        CheckPredicates,
        EstimatePredicates,
        IntoChecked,
    },
    interpreter::{
        InterpreterParams,
        MemoryInstance,
        NotSupportedEcal,
    },
    storage::{
        InterpreterStorage,
        MemoryStorage,
        predicate::EmptyStorage,
    },
    transactor::Transactor,
};
use serde_json::{
    Value,
    json,
};
use std::collections::BTreeMap;

const RULE: &str = "lib: code lengths {0, 1..17, <300, 16 KiB*k + {-8,-7,-1,0,1,7,8} for k=1..6, uniform up to 100 KiB} x slot sets of 0..32 slots (random / pooled keys, unsorted, duplicate keys with equal or different values, mined keys whose SHA-256 images share >= 32 leading bits) x random salts: Contract::root_from_code, Contract::root, initial_state_root, default_state_root, Contract::id, Input::predicate_owner, is_predicate_owner_valid against the specification formulas over refmodel::rfc6962 / refmodel::smt / sha2. vm: deploy (Create with the reference ContractCreated output through into_checked_basic + Transactor::deploy over MemoryStorage, storage inspected; a flipped id / state root must be rejected by checking; CROO on the deployed contract; the same Create object pre-computed, then code / salt / slots replaced in place and checked again: the earlier identifiers must be rejected, the reference identifiers of the present contents accepted and deployed under), croo (contract stored under an arbitrary id, script CROO + LOGD), predicate (coin / message-coin / message-data predicate `ret $one` + filler of the chosen length: reference owner accepted by checking and check_predicates, flipped owner rejected). class = (len mod 8, len relative to k*16 KiB, slot count bucket, path)";

const LEAF: usize = 16 * 1024;
const SEED: &[u8] = b"FUEL"; // 0x4655454C

// ---------------------------------------------------------------------------------------
// the specification formulas

fn ref_root(code: &[u8]) -> H {
    let mut leaves: Vec<Vec<u8>> = vec![];
    let mut i = 0;
    while i < code.len() {
        let end = (i + LEAF).min(code.len());
        let mut leaf = code[i..end].to_vec();
        if leaf.len() < LEAF {
            while leaf.len() % 8 != 0 {
                leaf.push(0);
            }
        }
        leaves.push(leaf);
        i = end;
    }
    rfc6962::mth(&leaves)
}

/// state root over (key, value) pairs; duplicates: `last_wins` selects which pair counts
fn ref_state_root(slots: &[([u8; 32], [u8; 32])], last_wins: bool) -> H {
    let mut m: BTreeMap<H, Vec<u8>> = BTreeMap::new();
    for (k, v) in slots {
        let hk = sha256(&[k]);
        if last_wins {
            m.insert(hk, v.to_vec());
        } else {
            m.entry(hk).or_insert_with(|| v.to_vec());
        }
    }
    smt::root(&m)
}

fn ref_id(salt: &[u8; 32], root: &H, state: &H) -> H {
    sha256(&[SEED, salt, root, state])
}

fn ref_owner(code: &[u8]) -> H {
    sha256(&[SEED, &ref_root(code)])
}

// ---------------------------------------------------------------------------------------
// workload

fn code_len(rng: &mut Rng) -> usize {
    match rng.below(12) {
        0 => 0,
        1 | 2 => 1 + rng.usize_below(17),
        3 => rng.usize_below(300),
        4..=8 => {
            let k = 1 + rng.usize_below(6);
            let d = [-8i64, -7, -1, 0, 1, 7, 8][rng.usize_below(7)];
            (k as i64 * LEAF as i64 + d) as usize
        }
        9 => rng.usize_below(100 * 1024),
        10 => 8 * rng.usize_below(100 * 128),
        _ => rng.usize_below(2 * LEAF + 9),
    }
}

fn rel_class(n: usize) -> String {
    if n == 0 {
        return "empty".into();
    }
    let k = (n + LEAF / 2) / LEAF; // nearest multiple
    if k >= 1 {
        let d = n as i64 - (k * LEAF) as i64;
        if d.abs() <= 8 {
            return format!("k={k}:{d:+}");
        }
    }
    format!("leaves={}", n.div_ceil(LEAF))
}

fn class(n: usize, slots: usize, path: &str) -> String {
    format!("m{}|{}|slots {}|{path}", n % 8, rel_class(n), bucket(slots as u64))
}

/// Pairs (and a few triples) of slot keys whose SHA-256 images - the keys of the sparse
/// state tree - share at least their first 32 bits: the tree then has a long common path,
/// something random keys never produce. Mined once (about 2^17 hashes, birthday search on
/// the first four bytes).
fn close_hashed_keys() -> &'static Vec<Vec<[u8; 32]>> {
    static KEYS: std::sync::OnceLock<Vec<Vec<[u8; 32]>>> = std::sync::OnceLock::new();
    KEYS.get_or_init(|| {
        let mut buckets: std::collections::HashMap<[u8; 4], Vec<[u8; 32]>> = std::collections::HashMap::new();
        for i in 0u64..200_000 {
            let mut k = [0u8; 32];
            k[..8].copy_from_slice(b"c15-mine");
            k[24..].copy_from_slice(&i.to_be_bytes());
            let h = sha256(&[&k[..]]);
            buckets.entry([h[0], h[1], h[2], h[3]]).or_default().push(k);
        }
        let mut groups: Vec<Vec<[u8; 32]>> = buckets.into_values().filter(|g| g.len() >= 2).collect();
        groups.sort();
        groups
    })
}

fn gen_slots(rng: &mut Rng, allow_dups: bool) -> Vec<([u8; 32], [u8; 32])> {
    if rng.chance(1, 8) {
        // one or two groups of keys with close hashed images, plus some ordinary keys
        let groups = close_hashed_keys();
        let mut v: Vec<([u8; 32], [u8; 32])> = vec![];
        if !groups.is_empty() {
            for _ in 0..1 + rng.below(2) {
                for k in &groups[rng.usize_below(groups.len())] {
                    v.push((*k, rng.arr()));
                }
            }
        }
        for _ in 0..rng.below(5) {
            v.push((rng.arr(), rng.arr()));
        }
        let mut seen = std::collections::BTreeSet::new();
        v.retain(|(k, _)| seen.insert(*k));
        let n = v.len();
        for i in (1..n).rev() {
            v.swap(i, rng.usize_below(i + 1));
        }
        return v;
    }
    let n = match rng.below(6) {
        0 => 0,
        1 => 1,
        2 => 2,
        3 => 32,
        _ => rng.usize_below(33),
    };
    let pooled = rng.chance(1, 4);
    let mut v: Vec<([u8; 32], [u8; 32])> = (0..n)
        .map(|_| {
            let k = if pooled { rng.id32(2000) } else { rng.arr() };
            let val: [u8; 32] = match rng.below(6) {
                0 => [0; 32],
                1 => [0xff; 32],
                _ => rng.arr(),
            };
            (k, val)
        })
        .collect();
    if !allow_dups {
        let mut seen = std::collections::BTreeSet::new();
        v.retain(|(k, _)| seen.insert(*k));
    } else if n >= 1 && rng.chance(1, 4) {
        let (k, val) = v[rng.usize_below(v.len())];
        let dup = (k, if rng.bool() { val } else { rng.arr() });
        let at = rng.usize_below(v.len() + 1);
        v.insert(at, dup);
    }
    v
}

fn to_slots(s: &[([u8; 32], [u8; 32])]) -> Vec<StorageSlot> {
    s.iter().map(|(k, v)| StorageSlot::new(Bytes32::new(*k), Bytes32::new(*v))).collect()
}

fn has_conflicting_dups(s: &[([u8; 32], [u8; 32])]) -> bool {
    let mut m: BTreeMap<[u8; 32], [u8; 32]> = BTreeMap::new();
    for (k, v) in s {
        if let Some(old) = m.insert(*k, *v) {
            if old != *v {
                return true;
            }
        }
    }
    false
}

#[derive(Clone, Debug)]
struct Case {
    path: String,
    code: Vec<u8>,
    salt: [u8; 32],
    slots: Vec<([u8; 32], [u8; 32])>,
    /// predicate input variant (0 coin, 1 message coin, 2 message data)
    variant: u64,
    /// which bit of the owner / output to flip in the negative half of the case
    flip: u64,
}

impl Case {
    fn to_json(&self) -> Value {
        json!({
            "path": self.path, "code": hx(&self.code), "salt": hx(self.salt),
            "slots": self.slots.iter().map(|(k, v)| json!([hx(k), hx(v)])).collect::<Vec<_>>(),
            "variant": self.variant, "flip": self.flip,
        })
    }
    fn from_json(v: &Value) -> Option<Case> {
        let a32 = |s: &str| -> Option<[u8; 32]> { unhx(s).try_into().ok() };
        Some(Case {
            path: v.get("path")?.as_str()?.to_string(),
            code: unhx(v.get("code")?.as_str()?),
            salt: a32(v.get("salt")?.as_str()?)?,
            slots: v.get("slots")?.as_array()?.iter().map(|p| Some((a32(p.get(0)?.as_str()?)?, a32(p.get(1)?.as_str()?)?))).collect::<Option<Vec<_>>>()?,
            variant: v.get("variant")?.as_u64()?,
            flip: v.get("flip")?.as_u64()?,
        })
    }
}

/// stable description of the length shape for signatures (no concrete values)
fn len_shape(n: usize) -> String {
    let r = rel_class(n);
    let r = if r.starts_with("k=") {
        let d = r.split(':').nth(1).unwrap_or("");
        format!("16KiB*k{d}")
    } else if r.starts_with("leaves=1") && n < LEAF {
        "single partial leaf".to_string()
    } else if r == "empty" {
        r
    } else {
        "several leaves".to_string()
    };
    format!("len%8={}|{}", n % 8, r)
}

// ---------------------------------------------------------------------------------------
// library level

fn lib_case(c: &Case, rep: &mut Report) {
    rep.eval();
    let n = c.code.len();
    rep.class(class(n, c.slots.len(), "lib"));
    let shape = len_shape(n);
    let want_root = ref_root(&c.code);
    // code root
    match guarded(|| (*Contract::root_from_code(&c.code), *Contract::from(c.code.clone()).root())) {
        Err(p) => rep.violation(format!("C15|panic|Contract::root_from_code|{}", p.site()), format!("root_from_code panicked on {n} bytes: {}", p.text), || c.to_json()),
        Ok((r1, r2)) => {
            if r1 != want_root {
                rep.violation(
                    format!("C15|lib|Contract::root_from_code differs from MTH over 16 KiB leaves (last leaf padded to 8)|{shape}"),
                    format!("code of {n} bytes: root_from_code {} reference {}", hx(r1), hx(want_root)),
                    || c.to_json(),
                );
            } else {
                rep.count("lib_root_ok");
            }
            if r2 != r1 {
                rep.violation("C15|lib|Contract::root differs from Contract::root_from_code", format!("code of {n} bytes: {} vs {}", hx(r2), hx(r1)), || c.to_json());
            }
        }
    }
    // state root
    let slots = to_slots(&c.slots);
    let last = ref_state_root(&c.slots, true);
    let first = ref_state_root(&c.slots, false);
    let conflicting = has_conflicting_dups(&c.slots);
    let got_state = guarded(|| *Contract::initial_state_root(slots.iter()));
    match &got_state {
        Err(p) => rep.violation(format!("C15|panic|Contract::initial_state_root|{}", p.site()), format!("initial_state_root panicked on {} slots: {}", slots.len(), p.text), || c.to_json()),
        Ok(g) => {
            if conflicting {
                // the same key with two values: not a storage-slot *set*; which one counts is not specified
                rep.count("unspecified_duplicate_key_with_different_values");
                if *g == last {
                    rep.count("duplicate_key_last_wins");
                } else if *g == first {
                    rep.count("duplicate_key_first_wins");
                } else {
                    rep.count("duplicate_key_other");
                }
            } else if *g != last {
                rep.violation(
                    format!("C15|lib|Contract::initial_state_root differs from the sparse Merkle root over sha256(key)|slots {}", bucket(c.slots.len() as u64)),
                    format!("{} slots: initial_state_root {} reference {}", c.slots.len(), hx(g), hx(last)),
                    || c.to_json(),
                );
            } else {
                rep.count("lib_state_root_ok");
                if c.slots.len() != slots_distinct(&c.slots) {
                    rep.count("duplicate_key_same_value_judged");
                }
            }
        }
    }
    if c.slots.is_empty() {
        match guarded(|| *Contract::default_state_root()) {
            Ok(r) if r == [0u8; 32] => rep.count("default_state_root_ok"),
            Ok(r) => rep.violation("C15|lib|Contract::default_state_root is not the empty sparse tree root (32 zero bytes)", format!("got {}", hx(r)), || c.to_json()),
            Err(p) => rep.violation(format!("C15|panic|Contract::default_state_root|{}", p.site()), p.text.clone(), || c.to_json()),
        }
    }
    // contract id (over the reference roots and over the library's roots: the same formula)
    let salt = Salt::new(c.salt);
    let want_id = ref_id(&c.salt, &want_root, &last);
    match guarded(|| *Contract::id(&salt, &Bytes32::new(want_root), &Bytes32::new(last))) {
        Err(p) => rep.violation(format!("C15|panic|Contract::id|{}", p.site()), p.text.clone(), || c.to_json()),
        Ok(g) if g != want_id => {
            rep.violation("C15|lib|Contract::id differs from sha256(\"FUEL\" ‖ salt ‖ root ‖ state root)", format!("got {} reference {}", hx(g), hx(want_id)), || c.to_json())
        }
        Ok(_) => rep.count("lib_id_ok"),
    }
    // predicate owner
    let want_owner = ref_owner(&c.code);
    match guarded(|| *Input::predicate_owner(&c.code)) {
        Err(p) => rep.violation(format!("C15|panic|Input::predicate_owner|{}", p.site()), p.text.clone(), || c.to_json()),
        Ok(g) if g != want_owner => rep.violation(
            format!("C15|lib|Input::predicate_owner differs from sha256(\"FUEL\" ‖ code root)|{shape}"),
            format!("predicate of {n} bytes: got {} reference {}", hx(g), hx(want_owner)),
            || c.to_json(),
        ),
        Ok(_) => rep.count("lib_predicate_owner_ok"),
    }
    let mut flipped = want_owner;
    flipped[(c.flip as usize / 8) % 32] ^= 1 << (c.flip % 8);
    match guarded(|| (Input::is_predicate_owner_valid(&Address::new(want_owner), &c.code), Input::is_predicate_owner_valid(&Address::new(flipped), &c.code))) {
        Err(p) => rep.violation(format!("C15|panic|Input::is_predicate_owner_valid|{}", p.site()), p.text.clone(), || c.to_json()),
        Ok((true, false)) => rep.count("lib_owner_valid_ok"),
        Ok((a, b)) => rep.violation(
            format!("C15|lib|is_predicate_owner_valid|reference owner accepted={a}|flipped owner accepted={b}"),
            format!("predicate of {n} bytes: reference owner {} accepted={a}; owner with one bit flipped accepted={b}", hx(want_owner)),
            || c.to_json(),
        ),
    }
    rep.sample(|| json!({"path": "lib", "code_len": n, "slots": c.slots.len(), "root": hx(want_root), "state_root": hx(last), "contract_id": hx(want_id), "predicate_owner": hx(want_owner)}));
}

fn slots_distinct(s: &[([u8; 32], [u8; 32])]) -> usize {
    s.iter().map(|p| p.0).collect::<std::collections::BTreeSet<_>>().len()
}

// ---------------------------------------------------------------------------------------
// VM level

fn vm_params() -> ConsensusParameters {
    let mut p = ConsensusParameters::standard();
    p.set_tx_params(TxParameters::DEFAULT.with_max_size(512 * 1024));
    p.set_contract_params(ContractParameters::DEFAULT.with_contract_max_size(256 * 1024));
    p
}

fn fee_coin(tag: u8) -> Input {
    Input::coin_signed(UtxoId::new(Bytes32::new([tag; 32]), 0), Address::new([0xa0 ^ tag; 32]), 1_000_000, AssetId::default(), TxPointer::default(), 0)
}

fn croo_script() -> Vec<u8> {
    let (r10, r11) = (0x10u8, 0x11u8);
    vec![
        op::gtf(r10, RegId::ZERO, 0x00A),
        op::movi(r11, 32),
        op::aloc(r11),
        op::croo(RegId::HP, r10),
        op::logd(RegId::ZERO, RegId::ZERO, RegId::HP, r11),
        op::ret(RegId::ONE),
    ]
    .into_iter()
    .collect()
}

/// run `CROO` on contract `id` in `t` and compare the logged 32 bytes with the reference root
fn croo_on(t: &mut Transactor<MemoryInstance, MemoryStorage, fuel_tx::Script>, params: &ConsensusParameters, id: &ContractId, c: &Case, how: &str, rep: &mut Report) {
    let n = c.code.len();
    let want = ref_root(&c.code);
    let inputs = vec![fee_coin(7), Input::contract(UtxoId::new(Bytes32::new([9; 32]), 0), Bytes32::zeroed(), Bytes32::zeroed(), TxPointer::default(), *id)];
    let outputs = vec![Output::contract(1, Bytes32::zeroed(), Bytes32::zeroed())];
    let tx = Transaction::script(10_000_000, croo_script(), id.to_vec(), Policies::new().with_max_fee(0), inputs, outputs, vec![Witness::from(vec![0u8; 64])]);
    let r = guarded(|| {
        let checked = tx.into_checked_basic(BlockHeight::from(1u32), params).map_err(|e| format!("check: {e:?}"))?;
        t.transact(checked);
        match t.receipts() {
            Some(r) => Ok(r.to_vec()),
            None => Err(format!("no receipts: {:?}", t.error().map(|e| format!("{e:?}")))),
        }
    });
    let receipts = match r {
        Err(p) => {
            rep.violation(format!("C15|panic|CROO script|{}", p.site()), format!("running the CROO script panicked: {}", p.text), || c.to_json());
            return;
        }
        Ok(Err(e)) => {
            rep.count("harness_setup_failed");
            rep.note(format!("CROO script could not be run ({how}): {e}"));
            return;
        }
        Ok(Ok(r)) => r,
    };
    let logged: Option<[u8; 32]> = receipts.iter().find_map(|r| if let Receipt::LogData { digest, len: 32, .. } = r { Some(**digest) } else { None });
    rep.eval();
    rep.class(class(n, c.slots.len(), "CROO"));
    match logged {
        None => {
            rep.count("harness_setup_failed");
            rep.note(format!("CROO script produced no LOGD ({how}): {receipts:?}"));
        }
        Some(d) if d == sha256(&[&want]) => rep.count(&format!("croo_ok_{how}")),
        Some(d) => rep.violation(
            format!("C15|CROO|root written by CROO differs from the reference code root|{}", len_shape(n)),
            format!("contract of {n} bytes ({how}): LOGD digest {} but sha256(reference root {}) = {}", hx(d), hx(want), hx(sha256(&[&want]))),
            || c.to_json(),
        ),
    }
}

fn new_transactor(params: &ConsensusParameters) -> Transactor<MemoryInstance, MemoryStorage, fuel_tx::Script> {
    Transactor::new(MemoryInstance::new(), MemoryStorage::default(), InterpreterParams::new(0, params))
}

fn deploy_case(c: &Case, rep: &mut Report) {
    let params = vm_params();
    let n = c.code.len();
    let root = ref_root(&c.code);
    let state = ref_state_root(&c.slots, true);
    let id = ref_id(&c.salt, &root, &state);
    let build = |cid: H, st: H| -> fuel_tx::Create {
        Transaction::create(
            0,
            Policies::new().with_max_fee(0),
            Salt::new(c.salt),
            to_slots(&c.slots),
            vec![fee_coin(3)],
            vec![Output::contract_created(ContractId::new(cid), Bytes32::new(st))],
            vec![Witness::from(c.code.clone()), Witness::from(vec![0u8; 64])],
        )
    };
    let h = BlockHeight::from(1u32);
    rep.eval();
    rep.class(class(n, c.slots.len(), "deploy"));
    // a ContractCreated output that differs in one bit must be rejected by checking
    let (mut bad_id, mut bad_state) = (id, state);
    if c.flip % 2 == 0 {
        bad_id[(c.flip as usize / 8) % 32] ^= 1 << (c.flip % 8);
    } else {
        bad_state[(c.flip as usize / 8) % 32] ^= 1 << (c.flip % 8);
    }
    match guarded(|| build(bad_id, bad_state).into_checked_basic(h, &params).map(|_| ()).map_err(|e| format!("{e:?}"))) {
        Err(p) => rep.violation(format!("C15|panic|into_checked_basic(Create)|{}", p.site()), p.text.clone(), || c.to_json()),
        Ok(Ok(())) => rep.violation(
            format!("C15|deploy|checking accepts a ContractCreated output that differs from the reference {}", if c.flip % 2 == 0 { "contract id" } else { "state root" }),
            format!("code {n} bytes, {} slots: output (id {}, state root {}) accepted; reference id {} state root {}", c.slots.len(), hx(bad_id), hx(bad_state), hx(id), hx(state)),
            || c.to_json(),
        ),
        Ok(Err(e)) if e.contains("ContractCreated") => rep.count("deploy_flipped_output_rejected"),
        Ok(Err(e)) => {
            rep.count("harness_setup_failed");
            rep.note(format!("Create transaction with a flipped output rejected for another reason: {e}"));
        }
    }
    let checked = match guarded(|| build(id, state).into_checked_basic(h, &params).map_err(|e| format!("{e:?}"))) {
        Err(p) => {
            rep.violation(format!("C15|panic|into_checked_basic(Create)|{}", p.site()), p.text.clone(), || c.to_json());
            return;
        }
        Ok(Err(e)) => {
            if e.contains("ContractCreated") {
                rep.violation(
                    format!("C15|deploy|checking rejects the reference ContractCreated output|{}", len_shape(n)),
                    format!("code {n} bytes, {} slots, reference id {} state root {}: {e}", c.slots.len(), hx(id), hx(state)),
                    || c.to_json(),
                );
            } else {
                rep.count("harness_setup_failed");
                rep.note(format!("Create transaction rejected for another reason: {e}"));
            }
            return;
        }
        Ok(Ok(x)) => x,
    };
    let mut t = new_transactor(&params);
    match guarded(|| t.deploy(checked).map(|_| ()).map_err(|e| format!("{e:?}"))) {
        Err(p) => {
            rep.violation(format!("C15|panic|Transactor::deploy|{}", p.site()), p.text.clone(), || c.to_json());
            return;
        }
        Ok(Err(e)) => {
            rep.violation("C15|deploy|Transactor::deploy failed on a checked Create", format!("code {n} bytes: {e}"), || c.to_json());
            return;
        }
        Ok(Ok(())) => {}
    }
    let cid = ContractId::new(id);
    let st: &MemoryStorage = t.as_ref();
    let stored: Option<Vec<u8>> = st.storage_contract(&cid).expect("infallible").map(|x| x.as_ref().as_ref().to_vec());
    let mut problems: Vec<String> = vec![];
    match stored {
        None => problems.push("no code stored under the reference id".into()),
        Some(code) if code != c.code => problems.push(format!("code stored under the reference id differs ({} bytes)", code.len())),
        Some(_) => {}
    }
    for (k, v) in &c.slots {
        let got = st.contract_state(&cid, &Bytes32::new(*k)).expect("infallible").map(|x| (x.as_ref().as_ref() as &[u8]).to_vec());
        if got.as_deref() != Some(&v[..]) {
            problems.push("a storage slot is not stored under the reference id".into());
            break;
        }
    }
    let foreign = st.all_contract_state().filter(|(k, _)| *k.contract_id() != cid).count();
    if foreign != 0 || st.all_contract_state().count() != c.slots.len() {
        problems.push("state entries under another contract id / wrong number of entries".into());
    }
    if problems.is_empty() {
        rep.count("deploy_ok");
        rep.sample(|| json!({"path": "deploy", "code_len": n, "slots": c.slots.len(), "contract_id": hx(id)}));
    } else {
        rep.violation(
            format!("C15|deploy|storage after deploy does not hold the contract under the reference id|{}", problems[0]),
            format!("code {n} bytes, {} slots, reference id {}: {}", c.slots.len(), hx(id), problems.join("; ")),
            || c.to_json(),
        );
        return;
    }
    croo_on(&mut t, &params, &cid, c, "deployed", rep);
}

/// The same Create transaction object checked again after its contents were changed in
/// place: whatever `precompute` cached the first time (contract root, state root, contract
/// id) must not survive, the identifiers are those of the present contents.
fn recheck_case(c: &Case, rep: &mut Report) {
    use fuel_tx::{
        Cacheable,
        field::{
            Outputs,
            Salt as SaltField,
            StorageSlots,
            Witnesses,
        },
    };
    let params = vm_params();
    let h = BlockHeight::from(1u32);
    let root_a = ref_root(&c.code);
    let state_a = ref_state_root(&c.slots, true);
    let id_a = ref_id(&c.salt, &root_a, &state_a);
    // the changed contents: code always, salt and slots depending on the case
    let mut code_b = c.code.clone();
    if code_b.is_empty() {
        code_b.push(c.flip as u8 | 1);
    } else {
        let i = c.flip as usize % code_b.len();
        code_b[i] ^= 0x40;
        if c.flip % 3 == 0 {
            code_b.extend_from_slice(&[1, 2, 3, 4, 5, 6, 7, 8]);
        }
    }
    let mut salt_b = c.salt;
    if c.flip % 2 == 1 {
        salt_b[(c.flip as usize / 8) % 32] ^= 1 << (c.flip % 8);
    }
    let mut slots_b = c.slots.clone();
    let what = if c.flip % 5 == 0 && !slots_b.is_empty() {
        slots_b[0].1[31] ^= 1;
        "code+slots"
    } else if c.flip % 2 == 1 {
        "code+salt"
    } else {
        "code"
    };
    let root_b = ref_root(&code_b);
    let state_b = ref_state_root(&slots_b, true);
    let id_b = ref_id(&salt_b, &root_b, &state_b);
    let mut tx: fuel_tx::Create = Transaction::create(
        0,
        Policies::new().with_max_fee(0),
        Salt::new(c.salt),
        to_slots(&c.slots),
        vec![fee_coin(3)],
        vec![Output::contract_created(ContractId::new(id_a), Bytes32::new(state_a))],
        vec![Witness::from(c.code.clone()), Witness::from(vec![0u8; 64])],
    );
    if tx.precompute(&params.chain_id()).is_err() {
        rep.count("harness_setup_failed");
        return;
    }
    rep.eval();
    rep.class(format!("recheck|{what}|{}", len_shape(code_b.len())));
    tx.witnesses_mut()[0] = Witness::from(code_b.clone());
    *tx.salt_mut() = Salt::new(salt_b);
    *AsMut::<Vec<StorageSlot>>::as_mut(&mut tx.storage_slots_mut()) = to_slots(&slots_b);
    // (1) the output still names the identifiers of the earlier contents: rejected
    match guarded(|| tx.clone().into_checked_basic(h, &params).map(|_| ()).map_err(|e| format!("{e:?}"))) {
        Err(p) => rep.violation(format!("C15|panic|into_checked_basic(Create)|{}", p.site()), p.text.clone(), || c.to_json()),
        Ok(Ok(())) => rep.violation(
            format!("C15|recheck|Create changed in place ({what}) is accepted with the identifiers of its earlier contents"),
            format!("after precompute the {what} were replaced; output (id {}, state root {}) of the earlier contents accepted; reference for the present contents id {} state root {}", hx(id_a), hx(state_a), hx(id_b), hx(state_b)),
            || c.to_json(),
        ),
        Ok(Err(e)) if e.contains("ContractCreated") => rep.count("recheck_stale_output_rejected"),
        Ok(Err(e)) => {
            rep.count("harness_setup_failed");
            rep.note(format!("re-checked Create rejected for another reason: {e}"));
            return;
        }
    }
    // (2) the output names the reference identifiers of the present contents: accepted and
    // deployed under them
    tx.outputs_mut()[0] = Output::contract_created(ContractId::new(id_b), Bytes32::new(state_b));
    let checked = match guarded(|| tx.clone().into_checked_basic(h, &params).map_err(|e| format!("{e:?}"))) {
        Err(p) => {
            rep.violation(format!("C15|panic|into_checked_basic(Create)|{}", p.site()), p.text.clone(), || c.to_json());
            return;
        }
        Ok(Err(e)) => {
            if e.contains("ContractCreated") {
                rep.violation(
                    format!("C15|recheck|Create changed in place ({what}) is rejected with the reference identifiers of its present contents"),
                    format!("reference id {} state root {}: {e}", hx(id_b), hx(state_b)),
                    || c.to_json(),
                );
            } else {
                rep.count("harness_setup_failed");
            }
            return;
        }
        Ok(Ok(x)) => x,
    };
    let mut t = new_transactor(&params);
    match guarded(|| t.deploy(checked).map(|_| ()).map_err(|e| format!("{e:?}"))) {
        Err(p) => {
            rep.violation(format!("C15|panic|Transactor::deploy|{}", p.site()), p.text.clone(), || c.to_json());
            return;
        }
        Ok(Err(e)) => {
            rep.violation("C15|deploy|Transactor::deploy failed on a checked Create", format!("re-checked Create, code {} bytes: {e}", code_b.len()), || c.to_json());
            return;
        }
        Ok(Ok(())) => {}
    }
    let st: &MemoryStorage = t.as_ref();
    let stored: Option<Vec<u8>> = st.storage_contract(&ContractId::new(id_b)).expect("infallible").map(|x| x.as_ref().as_ref().to_vec());
    let n_state = st.all_contract_state().filter(|(k, _)| *k.contract_id() == ContractId::new(id_b)).count();
    if stored.as_deref() != Some(&code_b[..]) || n_state != slots_distinct(&slots_b) {
        rep.violation(
            format!("C15|recheck|Create changed in place ({what}) is not deployed under the reference id of its present contents"),
            format!("reference id {}: code stored there: {}, state entries there: {n_state}", hx(id_b), stored.map(|c| c.len().to_string()).unwrap_or_else(|| "none".into())),
            || c.to_json(),
        );
    } else {
        rep.count("recheck_deploy_ok");
    }
}

fn croo_case(c: &Case, rep: &mut Report) {
    let params = vm_params();
    let mut t = new_transactor(&params);
    // the id a contract is stored under does not matter to CROO
    let id = ContractId::new(c.salt);
    {
        let st: &mut MemoryStorage = t.as_mut();
        st.deploy_contract_with_id(&to_slots(&c.slots), &c.code, &id).expect("infallible");
    }
    croo_on(&mut t, &params, &id, c, "stored", rep);
}

fn predicate_case(c: &Case, rep: &mut Report) {
    let params = vm_params();
    let cpp = CheckPredicateParams::from(&params);
    let n = c.code.len();
    let owner = ref_owner(&c.code);
    let mut flipped = owner;
    flipped[(c.flip as usize / 8) % 32] ^= 1 << (c.flip % 8);
    let vname = ["coin", "message coin", "message data"][(c.variant % 3) as usize];
    let build = |o: H| -> fuel_tx::Script {
        let o = Address::new(o);
        let input = match c.variant % 3 {
            0 => Input::coin_predicate(UtxoId::new(Bytes32::new([5; 32]), 1), o, 1000, AssetId::default(), TxPointer::default(), 0, c.code.clone(), vec![1, 2, 3]),
            1 => Input::message_coin_predicate(Address::new([6; 32]), o, 1000, Nonce::new([7; 32]), 0, c.code.clone(), vec![]),
            _ => Input::message_data_predicate(Address::new([6; 32]), o, 1000, Nonce::new([8; 32]), 0, vec![0xdd; 5], c.code.clone(), vec![4]),
        };
        // a message with data cannot pay: add a signed coin
        let mut inputs = vec![input];
        if c.variant % 3 == 2 {
            inputs.push(fee_coin(11));
        }
        Transaction::script(1000, op::ret(RegId::ONE).to_bytes().to_vec(), vec![], Policies::new().with_max_fee(0), inputs, vec![], vec![Witness::from(vec![0u8; 64])])
    };
    let h = BlockHeight::from(1u32);
    rep.eval();
    rep.class(class(n, 0, "predicate"));
    // the whole pipeline: estimation (fills in the gas), checking, predicate verification
    let pipeline = |o: H| -> Result<Result<(), String>, crate::Panicked> {
        guarded(|| {
            let mut tx = build(o);
            tx.estimate_predicates(&cpp, MemoryInstance::new(), &EmptyStorage).map_err(|e| format!("estimate: {e:?}"))?;
            let checked = tx.into_checked_basic(h, &params).map_err(|e| format!("check: {e:?}"))?;
            checked.check_predicates(&cpp, MemoryInstance::new(), &EmptyStorage, NotSupportedEcal).map(|_| ()).map_err(|e| format!("predicates: {e:?}"))
        })
    };
    match pipeline(owner) {
        Err(p) => rep.violation(format!("C15|panic|predicate pipeline|{}", p.site()), p.text.clone(), || c.to_json()),
        Ok(Ok(())) => rep.count("predicate_reference_owner_accepted"),
        Ok(Err(e)) => {
            if e.contains("Owner") {
                rep.violation(
                    format!("C15|predicate|input with the reference owner is rejected|{vname}|{}", len_shape(n)),
                    format!("{vname} predicate of {n} bytes with owner {}: {e}", hx(owner)),
                    || c.to_json(),
                );
            } else {
                rep.count("harness_setup_failed");
                rep.note(format!("predicate transaction rejected for another reason: {e}"));
            }
        }
    }
    match pipeline(flipped) {
        Err(p) => rep.violation(format!("C15|panic|predicate pipeline|{}", p.site()), p.text.clone(), || c.to_json()),
        Ok(Ok(())) => rep.violation(
            format!("C15|predicate|input whose owner differs from the reference owner is accepted|{vname}"),
            format!("{vname} predicate of {n} bytes: owner {} accepted, reference owner {}", hx(flipped), hx(owner)),
            || c.to_json(),
        ),
        Ok(Err(e)) => {
            if e.contains("Owner") {
                rep.count("predicate_flipped_owner_rejected");
            } else {
                rep.count("harness_setup_failed");
                rep.note(format!("predicate transaction with a flipped owner rejected for another reason: {e}"));
            }
        }
    }
    // check_predicates itself, past the validity layer: a checked transaction whose owner
    // is then... cannot be built through the public API, so the owner check inside
    // check_predicates is reached only with valid owners (noted in the report).
    rep.sample(|| json!({"path": "predicate", "variant": vname, "code_len": n, "owner": hx(owner)}));
}

// ---------------------------------------------------------------------------------------

fn run_case(c: &Case, rep: &mut Report) {
    match c.path.as_str() {
        "lib" => lib_case(c, rep),
        "deploy" => {
            deploy_case(c, rep);
            recheck_case(c, rep);
        }
        "croo" => croo_case(c, rep),
        "predicate" => predicate_case(c, rep),
        other => rep.inconclusive = Some(format!("C15: unknown path {other}")),
    }
}

fn gen_case(rng: &mut Rng, path: &str) -> Case {
    let mut n = code_len(rng);
    if path == "predicate" {
        // `ret $one` followed by filler that is never executed
        n = n.max(4);
    }
    let mut code = match rng.below(8) {
        0 => vec![0u8; n],
        1 => vec![0xffu8; n],
        _ => rng.bytes(n),
    };
    if path == "predicate" {
        code[..4].copy_from_slice(&op::ret(RegId::ONE).to_bytes());
    }
    let slots = match path {
        "lib" => gen_slots(rng, true),
        "deploy" | "croo" => gen_slots(rng, false),
        _ => vec![],
    };
    Case { path: path.into(), code, salt: rng.arr(), slots, variant: rng.below(3), flip: rng.below(256) }
}

fn worker(cfg: &Cfg, w: usize) -> Report {
    let mut rep = Report::new();
    let threads = cfg.threads.max(1) as u64;
    let n_lib = cfg.budget(2_000, 100_000);
    let n_vm = cfg.budget(200, 5_000);
    let mut i = 0u64;
    loop {
        let g = w as u64 + threads * i;
        i += 1;
        if g >= n_lib + n_vm {
            break;
        }
        let mut rng = Rng::derive(cfg.seed, 0xC15, g);
        let path = if g < n_lib { "lib" } else { ["deploy", "croo", "predicate", "deploy"][((g - n_lib) % 4) as usize] };
        let c = gen_case(&mut rng, path);
        run_case(&c, &mut rep);
    }
    rep
}

pub fn run(cfg: &Cfg) -> Report {
    let mut rep = if let Some(rec) = &cfg.replay {
        let mut r = Report::new();
        match Case::from_json(rec) {
            Some(c) => {
                run_case(&c, &mut r);
                let nv = r.violation_counts.len();
                r.samples.clear();
                r.sample(|| json!({"replayed": c.path, "code_len": c.code.len(), "slots": c.slots.len(), "violations": nv}));
            }
            None => r.inconclusive = Some("C15 replay record could not be parsed".into()),
        }
        r
    } else {
        par(cfg.threads, |w| worker(cfg, w))
    };
    rep.rule = RULE.into();
    rep.assume("specification formulas: code root = RFC 6962 MTH (refmodel::rfc6962; no leaves -> sha256 of the empty string) over 16 KiB leaves with the last partial leaf zero-padded to a multiple of 8 bytes; state root = compact sparse Merkle root (refmodel::smt, empty = 32 zero bytes) of sha256(slot key) -> 32-byte slot value; contract id = sha256(0x4655454C ‖ salt ‖ code root ‖ state root); predicate owner = sha256(0x4655454C ‖ code root of the predicate bytes), no chain id involved");
    rep.assume("sha2, refmodel::rfc6962 and refmodel::smt are trusted (validated against fuel-merkle in C09-C14)");
    rep.note("a slot list that names the same key twice with different values is not a set: which value counts is unspecified (counted, never judged); Create transactions cannot carry such lists");
    rep.note("check_predicates' own owner comparison is reachable only through a Checked transaction, and checking already rejects a foreign owner: the flipped-owner half of the predicate path is decided by the validity layer");
    if cfg.replay.is_none() {
        for k in ["lib_root_ok", "lib_state_root_ok", "lib_id_ok", "lib_predicate_owner_ok", "lib_owner_valid_ok", "deploy_ok", "deploy_flipped_output_rejected", "croo_ok_deployed", "croo_ok_stored", "predicate_reference_owner_accepted", "predicate_flipped_owner_rejected"] {
            rep.gate(k, rep.counter(k), 1);
        }
        rep.gate("no_setup_failures", (rep.counter("harness_setup_failed") == 0) as u64, 1);
    }
    rep
}
