//! C21 Register arithmetic and logic instructions follow the specification.
//!
//! Single-instruction bench: operands/flags are placed in the registers of a script-context
//! VM, exactly one instruction word (packed here by the spec's field layout, not with the
//! `op::*` constructors) is executed and `(outcome, dst, $of, $err, $pc delta, other changed
//! registers)` is written as one JSON line to an event log that `tools/oracles/alu.py`
//! re-computes with Python integers. Checked here directly: the outcome kind (a Rust panic
//! or a non-panic error is never acceptable) and the reserved-destination clause.
use super::insn_bench::{
    self as bench,
    Outcome,
    Vm,
    GAS,
    R_CGAS,
    R_ERR,
    R_FLAG,
    R_GGAS,
    R_OF,
    R_PC,
};
use crate::{
    Cfg,
    Report,
    Rng,
    par,
    rng::BOUNDARY_WORDS,
};
use fuel_asm::Opcode;
use serde_json::Value;
use std::{
    collections::HashSet,
    io::Write,
};

#[derive(Clone, Copy, PartialEq, Eq, Debug)]
enum Kind {
    /// rA, rB, rC
    Rrr,
    /// rA, rB, imm12
    Rri12,
    /// rA, rB
    Rr,
    /// rA, imm18
    Ri18,
    /// rA, rB, rC, rD
    Rrrr,
    /// rA, rB, rC, imm06
    Rrri6,
    /// no operands
    None,
}

struct OpDef {
    name: &'static str,
    code: Opcode,
    kind: Kind,
}

const fn o(name: &'static str, code: Opcode, kind: Kind) -> OpDef {
    OpDef { name, code, kind }
}

const OPS: &[OpDef] = &[
    o("ADD", Opcode::ADD, Kind::Rrr),
    o("SUB", Opcode::SUB, Kind::Rrr),
    o("MUL", Opcode::MUL, Kind::Rrr),
    o("DIV", Opcode::DIV, Kind::Rrr),
    o("MOD", Opcode::MOD, Kind::Rrr),
    o("EXP", Opcode::EXP, Kind::Rrr),
    o("MLOG", Opcode::MLOG, Kind::Rrr),
    o("MROO", Opcode::MROO, Kind::Rrr),
    o("AND", Opcode::AND, Kind::Rrr),
    o("OR", Opcode::OR, Kind::Rrr),
    o("XOR", Opcode::XOR, Kind::Rrr),
    o("EQ", Opcode::EQ, Kind::Rrr),
    o("GT", Opcode::GT, Kind::Rrr),
    o("LT", Opcode::LT, Kind::Rrr),
    o("SLL", Opcode::SLL, Kind::Rrr),
    o("SRL", Opcode::SRL, Kind::Rrr),
    o("ADDI", Opcode::ADDI, Kind::Rri12),
    o("SUBI", Opcode::SUBI, Kind::Rri12),
    o("MULI", Opcode::MULI, Kind::Rri12),
    o("DIVI", Opcode::DIVI, Kind::Rri12),
    o("MODI", Opcode::MODI, Kind::Rri12),
    o("EXPI", Opcode::EXPI, Kind::Rri12),
    o("ANDI", Opcode::ANDI, Kind::Rri12),
    o("ORI", Opcode::ORI, Kind::Rri12),
    o("XORI", Opcode::XORI, Kind::Rri12),
    o("SLLI", Opcode::SLLI, Kind::Rri12),
    o("SRLI", Opcode::SRLI, Kind::Rri12),
    o("NOT", Opcode::NOT, Kind::Rr),
    o("MOVE", Opcode::MOVE, Kind::Rr),
    o("MOVI", Opcode::MOVI, Kind::Ri18),
    o("MLDV", Opcode::MLDV, Kind::Rrrr),
    o("NIOP", Opcode::NIOP, Kind::Rrri6),
    o("NOOP", Opcode::NOOP, Kind::None),
];

fn op_index(name: &str) -> Option<usize> {
    OPS.iter().position(|d| d.name == name)
}

const NIOP_OPS: [&str; 6] = ["ADD", "SUB", "MUL", "EXP", "SLL", "XNOR"];
const NIOP_WIDTHS: [&str; 3] = ["u8", "u16", "u32"];

/// coverage-class name of a NIOP immediate (field layout of the instruction set
/// specification: bits 0..3 operation, bits 4..5 width)
fn niop_class(imm: u32) -> String {
    let op = (imm & 0xf) as usize;
    let w = ((imm >> 4) & 3) as usize;
    if op < NIOP_OPS.len() && w < NIOP_WIDTHS.len() {
        format!("NIOP.{}.{}", NIOP_OPS[op], NIOP_WIDTHS[w])
    } else {
        "NIOP.invalid".into()
    }
}

const IMM12_B: &[u32] = &[
    0, 1, 2, 3, 7, 8, 31, 32, 33, 62, 63, 64, 65, 127, 128, 255, 256, 0x7ff, 0x800, 0x801,
    0xffe, 0xfff,
];
const IMM18_B: &[u32] = &[
    0, 1, 2, 63, 64, 0xfff, 0x1000, 0xffff, 0x1_0000, 0x1_ffff, 0x2_0000, 0x2_0001,
    0x3_fffe, 0x3_ffff,
];

/// One executed case (fully materialised: sufficient for replay).
#[derive(Clone, Debug, Default)]
struct Case {
    op: usize,
    ra: usize,
    rb: usize,
    rc: usize,
    rd: usize,
    /// operand values to place (a writable operand register receives the value; a reserved
    /// one keeps what the VM has there)
    b: u64,
    c: u64,
    d: u64,
    imm: u32,
    flags: u64,
    of0: u64,
    err0: u64,
    /// previous content of the destination register
    a0: u64,
}

/// what a systematic generator fixes; the worker decorates the rest
#[derive(Clone, Copy, Debug)]
struct Proto {
    op: usize,
    b: u64,
    c: u64,
    d: u64,
    imm: u32,
    flags: u64,
    /// Some(r): forced destination register
    dst: Option<usize>,
}

fn pack(def: &OpDef, c: &Case) -> u32 {
    let op = (def.code as u8 as u32) << 24;
    let (ra, rb, rc, rd) = (c.ra as u32, c.rb as u32, c.rc as u32, c.rd as u32);
    match def.kind {
        Kind::Rrr => op | ra << 18 | rb << 12 | rc << 6,
        Kind::Rri12 => op | ra << 18 | rb << 12 | (c.imm & 0xfff),
        Kind::Rr => op | ra << 18 | rb << 12,
        Kind::Ri18 => op | ra << 18 | (c.imm & 0x3_ffff),
        Kind::Rrrr => op | ra << 18 | rb << 12 | rc << 6 | rd,
        Kind::Rrri6 => op | ra << 18 | rb << 12 | rc << 6 | (c.imm & 0x3f),
        Kind::None => op,
    }
}

struct Exec {
    pre: [u64; 64],
    post: [u64; 64],
    outcome: Outcome,
}

fn execute(vm: &mut Vm, base: &[u64; 64], def: &OpDef, c: &Case) -> Exec {
    let mut regs = *base;
    regs[R_GGAS] = GAS;
    regs[R_CGAS] = GAS;
    regs[R_FLAG] = c.flags;
    regs[R_OF] = c.of0;
    regs[R_ERR] = c.err0;
    let uses_a = def.kind != Kind::None;
    let uses_b = matches!(def.kind, Kind::Rrr | Kind::Rri12 | Kind::Rr | Kind::Rrrr | Kind::Rrri6);
    let uses_c = matches!(def.kind, Kind::Rrr | Kind::Rrrr | Kind::Rrri6);
    let uses_d = def.kind == Kind::Rrrr;
    if uses_a && c.ra >= 16 {
        regs[c.ra] = c.a0;
    }
    if uses_b && c.rb >= 16 {
        regs[c.rb] = c.b;
    }
    if uses_c && c.rc >= 16 {
        regs[c.rc] = c.c;
    }
    if uses_d && c.rd >= 16 {
        regs[c.rd] = c.d;
    }
    vm.registers_mut().copy_from_slice(&regs);
    let outcome = bench::exec_raw(vm, pack(def, c));
    let mut post = [0u64; 64];
    post.copy_from_slice(vm.registers());
    Exec {
        pre: regs,
        post,
        outcome,
    }
}

fn outcome_id(e: &Exec) -> u8 {
    match &e.outcome {
        Outcome::Proceed => (e.post[R_OF] != 0) as u8 | ((e.post[R_ERR] != 0) as u8) << 1,
        Outcome::Panic(r) => 16 + (*r as u8).min(200),
        _ => 255,
    }
}

fn outcome_name(id: u8) -> String {
    match id {
        0 => "ok".into(),
        1 => "ok+of".into(),
        2 => "ok+err".into(),
        3 => "ok+of+err".into(),
        255 => "abnormal".into(),
        n => format!("panic:{:?}", fuel_asm::PanicReason::from(n - 16)),
    }
}

/// the event line (also the replay record)
fn event_line(def: &OpDef, c: &Case, e: &Exec, out: &mut Vec<u8>) {
    out.clear();
    let _ = write!(out, "{{\"op\":\"{}\"", def.name);
    let k = def.kind;
    if k != Kind::None {
        let _ = write!(out, ",\"ra\":{},\"a0\":\"{:x}\"", c.ra, e.pre[c.ra]);
    }
    if matches!(k, Kind::Rrr | Kind::Rri12 | Kind::Rr | Kind::Rrrr | Kind::Rrri6) {
        let _ = write!(out, ",\"rb\":{},\"b\":\"{:x}\"", c.rb, e.pre[c.rb]);
    }
    if matches!(k, Kind::Rrr | Kind::Rrrr | Kind::Rrri6) {
        let _ = write!(out, ",\"rc\":{},\"c\":\"{:x}\"", c.rc, e.pre[c.rc]);
    }
    if k == Kind::Rrrr {
        let _ = write!(out, ",\"rd\":{},\"d\":\"{:x}\"", c.rd, e.pre[c.rd]);
    }
    if matches!(k, Kind::Rri12 | Kind::Ri18 | Kind::Rrri6) {
        let _ = write!(out, ",\"imm\":{}", c.imm);
    }
    let _ = write!(
        out,
        ",\"f\":{},\"of0\":\"{:x}\",\"err0\":\"{:x}\",\"res\":\"{}\"",
        c.flags,
        c.of0,
        c.err0,
        e.outcome.tag().replace(['"', '\\'], "'")
    );
    if e.outcome == Outcome::Proceed {
        if k != Kind::None {
            let _ = write!(out, ",\"dst\":\"{:x}\"", e.post[c.ra]);
        }
        let _ = write!(
            out,
            ",\"of\":\"{:x}\",\"err\":\"{:x}\",\"dpc\":{}",
            e.post[R_OF],
            e.post[R_ERR],
            e.post[R_PC].wrapping_sub(e.pre[R_PC]) as i64
        );
        let mut allowed = vec![R_OF, R_ERR, R_PC];
        if k != Kind::None {
            allowed.push(c.ra);
        }
        let chg = bench::changed_regs(&e.pre, &e.post, &allowed);
        if !chg.is_empty() {
            let _ = write!(out, ",\"chg\":{chg:?}");
        }
    } else {
        let chg = bench::changed_regs(&e.pre, &e.post, &[]);
        if !chg.is_empty() {
            let _ = write!(out, ",\"chg\":{chg:?}");
        }
    }
    out.extend_from_slice(b"}\n");
}

fn hexv(v: &Value, k: &str) -> u64 {
    v.get(k)
        .and_then(|x| x.as_str())
        .and_then(|s| u64::from_str_radix(s, 16).ok())
        .unwrap_or(0)
}

fn numv(v: &Value, k: &str) -> u64 {
    v.get(k).and_then(|x| x.as_u64()).unwrap_or(0)
}

fn case_from_json(v: &Value) -> Option<Case> {
    let op = op_index(v.get("op")?.as_str()?)?;
    Some(Case {
        op,
        ra: (numv(v, "ra") & 63) as usize,
        rb: (numv(v, "rb") & 63) as usize,
        rc: (numv(v, "rc") & 63) as usize,
        rd: (numv(v, "rd") & 63) as usize,
        b: hexv(v, "b"),
        c: hexv(v, "c"),
        d: hexv(v, "d"),
        imm: numv(v, "imm") as u32,
        flags: numv(v, "f"),
        of0: hexv(v, "of0"),
        err0: hexv(v, "err0"),
        a0: hexv(v, "a0"),
    })
}

// ---------------------------------------------------------------------------------------
// workload

/// integer floor of the c-th root (workload generation only, not an oracle)
fn iroot(b: u64, c: u32) -> u64 {
    if c == 0 {
        return 0;
    }
    let (mut lo, mut hi) = (0u64, if c == 1 { b } else { (1u64 << (64 / c + 1).min(63)).min(b) });
    while lo < hi {
        let mid = lo + (hi - lo).div_ceil(2);
        let fits = (mid as u128).checked_pow(c).is_some_and(|p| p <= b as u128);
        if fits {
            lo = mid;
        } else {
            hi = mid - 1;
        }
    }
    lo
}

fn nudge(rng: &mut Rng, v: u64) -> u64 {
    match rng.below(4) {
        0 => v.wrapping_sub(1),
        1 => v.wrapping_add(1),
        _ => v,
    }
}

/// operand pairs that sit on the interesting boundaries of EXP / MLOG / MROO
fn power_pair(rng: &mut Rng, which: u64) -> (u64, u64) {
    match which {
        // EXP: base around the largest base whose e-th power fits
        0 => {
            let e = *rng.pick(&[2u64, 3, 4, 5, 7, 8, 15, 16, 21, 31, 32, 33, 40, 63, 64, 65]);
            let r = iroot(u64::MAX, e as u32);
            (nudge(rng, r).wrapping_add(rng.below(2)), e)
        }
        // MLOG: argument around a perfect power of the base
        1 => {
            let base = match rng.below(4) {
                0 => 2,
                1 => 10,
                2 => rng.range(2, 70),
                _ => rng.word().max(2),
            };
            let mut p: u128 = 1;
            let kmax = rng.range(0, 64);
            let mut k = 0;
            while k < kmax && p * (base as u128) <= u64::MAX as u128 {
                p *= base as u128;
                k += 1;
            }
            (nudge(rng, p as u64), base)
        }
        // MROO: radicand around a perfect power
        _ => {
            let n = match rng.below(4) {
                0 => 2,
                1 => 3,
                _ => rng.range(1, 66),
            };
            let top = iroot(u64::MAX, n.min(64) as u32);
            let r = match rng.below(4) {
                0 => top,
                1 => top.saturating_sub(rng.below(3)),
                2 => rng.range(0, top.min(70)),
                _ => rng.range(0, top),
            };
            let p = (r as u128).checked_pow(n.min(64) as u32).unwrap_or(0).min(u64::MAX as u128) as u64;
            (nudge(rng, p), n)
        }
    }
}

fn niop_values(width: u32) -> Vec<u64> {
    let w = width as u64;
    let m = (1u64 << w) - 1;
    let h = w / 2;
    let mut v = vec![
        0,
        1,
        2,
        3,
        7,
        w - 1,
        w,
        w + 1,
        (1 << h) - 1,
        1 << h,
        (1 << h) + 1,
        (1 << (w - 1)) - 1,
        1 << (w - 1),
        (1 << (w - 1)) + 1,
        m - 1,
        m,
    ];
    v.sort();
    v.dedup();
    v
}

/// Systematic part of the workload.
fn systematic(thorough: bool, f: &mut dyn FnMut(Proto)) {
    let bw = BOUNDARY_WORDS;
    let p0 = Proto {
        op: 0,
        b: 0,
        c: 0,
        d: 0,
        imm: 0,
        flags: 0,
        dst: None,
    };
    for (i, def) in OPS.iter().enumerate() {
        match def.kind {
            Kind::Rrr => {
                for &b in bw {
                    for &c in bw {
                        for flags in 0..4 {
                            f(Proto { op: i, b, c, flags, ..p0 });
                        }
                    }
                }
            }
            Kind::Rri12 => {
                for &b in bw {
                    for &imm in IMM12_B {
                        for flags in 0..4 {
                            f(Proto { op: i, b, imm, flags, ..p0 });
                        }
                    }
                }
            }
            Kind::Rr => {
                for &b in bw {
                    for flags in 0..4 {
                        f(Proto { op: i, b, flags, ..p0 });
                    }
                }
            }
            Kind::Ri18 => {
                for &imm in IMM18_B {
                    for flags in 0..4 {
                        f(Proto { op: i, imm, flags, ..p0 });
                    }
                }
            }
            Kind::None => {
                for flags in 0..4 {
                    for _ in 0..8 {
                        f(Proto { op: i, flags, ..p0 });
                    }
                }
            }
            Kind::Rrrr => {
                const D_QUICK: &[u64] = &[0, 1, 2, 3, 1 << 32, 1 << 63, u64::MAX - 1, u64::MAX];
                let ds: &[u64] = if thorough { bw } else { D_QUICK };
                for &b in bw {
                    for &c in bw {
                        for &d in ds {
                            for flags in 0..4 {
                                f(Proto { op: i, b, c, d, flags, ..p0 });
                            }
                        }
                    }
                }
            }
            Kind::Rrri6 => {
                // every immediate (valid and reserved encodings) on a few operand pairs
                for imm in 0..64 {
                    for flags in 0..4 {
                        for &(b, c) in &[(0u64, 0u64), (1, 1), (200, 100), (100, 200), (0xffff_ffff, 2), (3, 40)] {
                            f(Proto { op: i, b, c, imm, flags, ..p0 });
                        }
                    }
                }
                // 8 bit: exhaustive (thorough) or boundary^2 (quick)
                let v8: Vec<u64> = if thorough { (0..256).collect() } else { niop_values(8) };
                for sub in 0..6u32 {
                    for &b in &v8 {
                        for &c in &v8 {
                            for flags in 0..4 {
                                f(Proto { op: i, b, c, imm: sub, flags, ..p0 });
                            }
                        }
                    }
                }
                // 16 / 32 bit: boundary^2
                for (wi, w) in [(1u32, 16u32), (2, 32)] {
                    let vs = niop_values(w);
                    for sub in 0..6u32 {
                        for &b in &vs {
                            for &c in &vs {
                                for flags in 0..4 {
                                    f(Proto { op: i, b, c, imm: sub | wi << 4, flags, ..p0 });
                                }
                            }
                        }
                    }
                }
            }
        }
        // reserved destinations
        if def.kind != Kind::None {
            for dst in 0..16 {
                for flags in 0..4 {
                    f(Proto { op: i, b: 7, c: 3, d: 2, imm: 1, flags, dst: Some(dst), ..p0 });
                    f(Proto { op: i, b: u64::MAX, c: 0, d: 0, imm: 0, flags, dst: Some(dst), ..p0 });
                }
            }
        }
    }
}

fn garbage(rng: &mut Rng) -> u64 {
    match rng.below(4) {
        0 => 0,
        1 => 1,
        2 => u64::MAX,
        _ => rng.u64(),
    }
}

/// choose registers and the pre-state around a proto
fn decorate(rng: &mut Rng, p: Proto) -> Case {
    let def = &OPS[p.op];
    let mut c = Case {
        op: p.op,
        b: p.b,
        c: p.c,
        d: p.d,
        imm: p.imm,
        flags: p.flags,
        of0: garbage(rng),
        err0: garbage(rng),
        a0: garbage(rng),
        ..Default::default()
    };
    // distinct writable operand registers so that the proto's values are what is read
    let mut regs: Vec<usize> = (16..64).collect();
    rng.shuffle(&mut regs);
    c.rb = regs[0];
    c.rc = regs[1];
    c.rd = regs[2];
    c.ra = match p.dst {
        Some(r) => r,
        None => match rng.below(16) {
            // destination equal to an operand register
            0 => c.rb,
            1 if matches!(def.kind, Kind::Rrr | Kind::Rrrr | Kind::Rrri6) => c.rc,
            2 if def.kind == Kind::Rrrr => c.rd,
            _ => regs[3],
        },
    };
    // NIOP: dirty upper bits above the operation width
    if def.kind == Kind::Rrri6 {
        let w = match (c.imm >> 4) & 3 {
            0 => 8,
            1 => 16,
            2 => 32,
            _ => 64,
        };
        if w < 64 && c.b >> w == 0 && c.c >> w == 0 && rng.chance(2, 3) {
            c.b |= garbage(rng) << w;
            c.c |= garbage(rng) << w;
        }
    }
    c
}

fn random_case(rng: &mut Rng) -> Case {
    // weights: the interesting arithmetic more often than plain logic
    let op = loop {
        let i = rng.usize_below(OPS.len());
        let w = match OPS[i].name {
            "EXP" | "EXPI" | "MLOG" | "MROO" | "MLDV" | "NIOP" => 4,
            "ADD" | "SUB" | "MUL" | "DIV" | "MOD" | "ADDI" | "SUBI" | "MULI" | "DIVI" | "MODI"
            | "SLL" | "SRL" | "SLLI" | "SRLI" => 2,
            "NOOP" | "MOVI" | "MOVE" | "NOT" => 1,
            _ => 1,
        };
        if rng.below(4) < w {
            break i;
        }
    };
    let def = &OPS[op];
    let (mut b, mut cval, mut d) = (rng.word(), rng.word(), rng.word());
    let mut niop_wi = 0u64;
    match def.name {
        "EXP" if rng.chance(2, 3) => (b, cval) = power_pair(rng, 0),
        "EXPI" if rng.chance(2, 3) => {
            let (x, e) = power_pair(rng, 0);
            b = x;
            cval = e;
        }
        "MLOG" if rng.chance(2, 3) => (b, cval) = power_pair(rng, 1),
        "MROO" if rng.chance(2, 3) => (b, cval) = power_pair(rng, 2),
        "DIV" | "MOD" | "SLL" | "SRL" if rng.chance(1, 3) => cval = rng.small(70),
        "MLDV" => match rng.below(6) {
            0 => d = 0,
            1 => d = rng.small(5),
            // quotient around 2^64
            2 if b != 0 => {
                let prod = b as u128 * cval as u128;
                d = nudge(rng, (prod >> 64) as u64);
            }
            3 => d = b,
            _ => {}
        },
        "NIOP" => {
            niop_wi = rng.below(3);
            let w = [8u32, 16, 32][niop_wi as usize];
            let m = (1u64 << w) - 1;
            let vs = niop_values(w);
            b = if rng.bool() { *rng.pick(&vs) } else { rng.word() & m };
            cval = match rng.below(4) {
                0 => *rng.pick(&vs),
                1 => rng.small(w as u64 + 2),
                _ => rng.word() & m,
            };
        }
        _ => {}
    }
    let imm = match def.kind {
        Kind::Rri12 => {
            if def.name == "EXPI" && rng.chance(1, 2) {
                (cval & 0xfff) as u32
            } else if rng.bool() {
                *rng.pick(IMM12_B)
            } else {
                rng.below(0x1000) as u32
            }
        }
        Kind::Ri18 => {
            if rng.bool() {
                *rng.pick(IMM18_B)
            } else {
                rng.below(0x4_0000) as u32
            }
        }
        Kind::Rrri6 => {
            if rng.chance(1, 12) {
                rng.below(64) as u32
            } else {
                (rng.below(6) | niop_wi << 4) as u32
            }
        }
        _ => 0,
    };
    let flags = rng.below(4);
    let mut c = decorate(
        rng,
        Proto {
            op,
            b,
            c: cval,
            d,
            imm,
            flags,
            dst: None,
        },
    );
    // destination: mostly writable, sometimes reserved; operands sometimes reserved or equal
    if def.kind != Kind::None && rng.chance(1, 10) {
        c.ra = rng.usize_below(16);
    }
    if rng.chance(1, 12) {
        c.rb = any_operand_reg(rng);
    }
    if rng.chance(1, 12) {
        c.rc = if rng.bool() { c.rb } else { any_operand_reg(rng) };
    }
    if rng.chance(1, 12) {
        let other = any_operand_reg(rng);
        c.rd = *rng.pick(&[c.rb, c.rc, other]);
    }
    c
}

/// any register except `$ggas/$cgas` (the charge precedes the operand read, and gas is not
/// part of this property)
fn any_operand_reg(rng: &mut Rng) -> usize {
    loop {
        let r = rng.usize_below(64);
        if r != R_GGAS && r != R_CGAS {
            return r;
        }
    }
}

// ---------------------------------------------------------------------------------------

struct Worker {
    vm: Vm,
    base: [u64; 64],
    rep: Report,
    classes: HashSet<(u16, u8, u8)>,
    log: std::io::BufWriter<std::fs::File>,
    line: Vec<u8>,
}

impl Worker {
    fn new(path: &str) -> Self {
        let vm = bench::new_vm();
        let mut base = [0u64; 64];
        base.copy_from_slice(vm.registers());
        let file = std::fs::File::create(path).expect("create event log");
        Worker {
            vm,
            base,
            rep: Report::new(),
            classes: HashSet::new(),
            log: std::io::BufWriter::with_capacity(1 << 20, file),
            line: Vec::with_capacity(512),
        }
    }

    fn run_case(&mut self, c: &Case) {
        let def = &OPS[c.op];
        let e = execute(&mut self.vm, &self.base, def, c);
        event_line(def, c, &e, &mut self.line);
        self.log.write_all(&self.line).expect("write event log");
        self.rep.eval();
        let sub = if def.kind == Kind::Rrri6 { c.imm as u16 & 63 } else { 0 };
        self.classes
            .insert(((c.op as u16) << 6 | sub, c.flags as u8, outcome_id(&e)));
        if self.rep.samples.len() < 2 && self.rep.evaluations % 1009 == 1 {
            let line = String::from_utf8_lossy(&self.line).to_string();
            self.rep
                .sample(|| serde_json::from_str(line.trim()).unwrap_or(Value::Null));
        }
        let replay = |line: &[u8]| -> Value {
            serde_json::from_str(String::from_utf8_lossy(line).trim()).unwrap_or(Value::Null)
        };
        // outcome kind: an ALU instruction either proceeds or raises a VM panic
        match &e.outcome {
            Outcome::Proceed | Outcome::Panic(_) => {}
            Outcome::RustPanic(t) => {
                let site = crate::Panicked { text: t.clone() }.site();
                let line = self.line.clone();
                self.rep.violation(
                    format!("C21|{}|rust panic|{site}", def.name),
                    format!("{}: the library panicked: {t}", def.name),
                    || replay(&line),
                );
            }
            other => {
                let line = self.line.clone();
                self.rep.violation(
                    format!("C21|{}|neither Proceed nor a VM panic", def.name),
                    format!("{}: {}", def.name, other.tag()),
                    || replay(&line),
                );
            }
        }
        // reserved destination: must panic, no non-gas register may change (the reason is
        // judged by the oracle, which knows which other panic conditions hold as well)
        if def.kind != Kind::None && c.ra < 16 {
            self.rep.count("reserved_dst_cases");
            let chg = bench::changed_regs(&e.pre, &e.post, &[]);
            match &e.outcome {
                Outcome::Panic(_) if chg.is_empty() => {}
                Outcome::Panic(r) => {
                    let line = self.line.clone();
                    self.rep.violation(
                        format!("C21|{}|reserved dst|panic {r:?} but a non-gas register changed", def.name),
                        format!("{} with reserved destination {}: registers {chg:?} changed", def.name, c.ra),
                        || replay(&line),
                    );
                }
                other => {
                    let line = self.line.clone();
                    self.rep.violation(
                        format!("C21|{}|reserved dst|no panic", def.name),
                        format!("{} with reserved destination {}: {}", def.name, c.ra, other.tag()),
                        || replay(&line),
                    );
                }
            }
        }
    }

    fn finish(mut self) -> Report {
        self.log.flush().expect("flush event log");
        for (opc, flag, out) in &self.classes {
            let def = &OPS[(opc >> 6) as usize];
            let name = if def.kind == Kind::Rrri6 {
                niop_class((opc & 63) as u32)
            } else {
                def.name.to_string()
            };
            self.rep.class(format!("{name}|f={flag}|{}", outcome_name(*out)));
        }
        self.rep
    }
}

const RULE: &str = "one instruction per case on a script-context VM; systematic: every op x boundary^2 operands (38 words) x flags 0..3, imm12/imm18 boundary sets, MLDV boundary^3 (thorough), NIOP all 64 immediates, 8-bit operands exhaustively (thorough) or boundary^2 (quick), 16/32-bit boundary^2 with dirty upper bits, every op x 16 reserved destinations; random: boundary-biased words, power/root/log boundary pairs, reserved and aliased registers. class = (opcode[.niop op.width], flag value, outcome in {ok, ok+of, ok+err, panic reason}); judged offline by tools/oracles/alu.py";

pub fn run(cfg: &Cfg) -> Report {
    std::fs::create_dir_all(&cfg.work_dir).ok();
    if let Some(rec) = &cfg.replay {
        return replay(cfg, rec);
    }
    let total = cfg.budget(400_000, 12_000_000);
    let mut n_sys = 0u64;
    systematic(cfg.thorough, &mut |_| n_sys += 1);
    let threads = cfg.threads.max(1) as u64;
    let n_rand = total.saturating_sub(n_sys).max(16_000) / threads;
    let mut rep = par(cfg.threads, |worker| {
        let path = format!("{}/C21.{}.{}.jsonl", cfg.work_dir, cfg.seed, worker);
        let mut w = Worker::new(&path);
        let mut rng = Rng::derive(cfg.seed, 0x21, worker as u64);
        let mut idx = 0u64;
        let mut mine = Vec::new();
        systematic(cfg.thorough, &mut |p| {
            if idx % threads == worker as u64 {
                mine.push(p);
            }
            idx += 1;
        });
        for p in mine {
            let c = decorate(&mut rng, p);
            w.run_case(&c);
            w.rep.count("systematic_cases");
        }
        for _ in 0..n_rand {
            let c = random_case(&mut rng);
            w.run_case(&c);
            w.rep.count("random_cases");
        }
        let mut r = w.finish();
        r.event_logs.push(("alu".into(), path));
        r
    });
    rep.rule = RULE.into();
    rep.assume("the instruction word layout (opcode byte, 6-bit register fields, imm06/12/18) is packed by the monitor as the instruction-set specification gives it; `Interpreter::instruction` executes exactly that word");
    rep.assume("expected results are recomputed by tools/oracles/alu.py from the mathematical definitions with Python integers; corners whose specification is not certain are counted as unspecified_* and not judged");
    rep.note("gas registers are excluded (C26); post-panic registers are judged only for reserved destinations");
    if cfg.thorough {
        rep.note("NIOP: the 8-bit operand space (256 x 256 x 6 operations x 4 flag values) is enumerated exhaustively");
    }
    rep.gate("events", rep.evaluations, 100_000);
    rep.gate("classes", rep.classes.len() as u64, 300);
    rep.gate("reserved_dst_cases", rep.counter("reserved_dst_cases"), 4_000);
    rep
}

fn replay(cfg: &Cfg, rec: &Value) -> Report {
    let mut rep = Report::new();
    rep.rule = RULE.into();
    let Some(c) = case_from_json(rec) else {
        rep.inconclusive = Some("replay record is not a C21 event".into());
        return rep;
    };
    let path = format!("{}/C21.{}.replay.jsonl", cfg.work_dir, cfg.seed);
    let mut w = Worker::new(&path);
    w.run_case(&c);
    let line = String::from_utf8_lossy(&w.line).trim().to_string();
    let mut r = w.finish();
    r.note(format!("replayed event: {line}"));
    // operands read from reserved registers come from the VM state, not from the record
    if let Ok(v) = serde_json::from_str::<Value>(&line) {
        for k in ["b", "c", "d"] {
            if rec.get(k).is_some() && rec.get(k) != v.get(k) {
                r.note(format!("operand {k} differs from the record (reserved operand register): {} vs {}", rec[k], v[k]));
            }
        }
    }
    r.event_logs.push(("alu".into(), path));
    rep.merge(r);
    rep
}
