//! C30 Execution touches only the state of contracts listed as inputs.
use super::grp_e::{
    Drive,
    drive,
};
use crate::{
    Cfg,
    Report,
    Rng,
    guarded,
    par,
    prog::{
        self,
        Env,
        Mode,
        Weights,
    },
    recstore::RecStorage,
    scenario::{
        self,
        Scenario,
        ScenarioOpts,
    },
    stepbus::{
        BusOpts,
        Snap,
        Step,
        StepMonitor,
    },
    world::{
        ScriptSpec,
        World,
    },
};
use fuel_tx::{
    Input,
    Script,
    field::Inputs,
};
use fuel_types::ContractId;
use fuel_vm::{
    checked_transaction::{
        CheckPredicateParams,
        CheckPredicates,
        EstimatePredicates,
        IntoChecked,
    },
    interpreter::{
        MemoryInstance,
        NotSupportedEcal,
    },
};
use serde_json::json;
use std::collections::BTreeSet;

const CONTRACT_TABLES: [&str; 3] = ["ContractsRawCode", "ContractsState", "ContractsAssets"];

fn inputs_of(tx: &Script) -> BTreeSet<ContractId> {
    tx.inputs()
        .iter()
        .filter_map(|i| match i {
            Input::Contract(c) => Some(c.contract_id),
            _ => None,
        })
        .collect()
}

struct AccessMon {
    inputs: BTreeSet<ContractId>,
    deployed: BTreeSet<ContractId>,
}

fn active_contract(s: &Snap) -> Option<ContractId> {
    if s.fp() == 0 {
        return None;
    }
    let b = s.bytes(s.fp(), 32)?;
    Some(ContractId::new(b.try_into().ok()?))
}

impl StepMonitor for AccessMon {
    fn on_start(&mut self, _w: &World, first: &Snap, tx: &Script, rep: &mut Report) {
        self.inputs = inputs_of(tx);
        // cross-check with what the VM recorded (hook H2)
        let vm_inputs: BTreeSet<ContractId> = first.input_contracts.iter().copied().collect();
        if vm_inputs != self.inputs {
            rep.violation("C30|VM's recorded input contracts differ from the transaction's contract inputs", format!("{vm_inputs:?} vs {:?}", self.inputs), || json!(null));
        }
    }

    fn on_step(&mut self, _w: &World, s: &Step, rep: &mut Report) {
        let op = s.opcode_name();
        for a in s.accesses.iter() {
            let Some(id) = a.contract else { continue };
            if !CONTRACT_TABLES.contains(&a.table) {
                continue;
            }
            rep.eval();
            let listed = self.inputs.contains(&id);
            let id_class = match (listed, self.deployed.contains(&id)) {
                (true, true) => "listed+deployed",
                (true, false) => "listed-only",
                (false, true) => "deployed-not-listed",
                (false, false) => "neither",
            };
            rep.class(format!("{op}|{id_class}|{}|{}", a.table, a.op));
            if !listed {
                rep.violation(
                    format!("C30|op={op}|table={}|access={}|contract not in inputs ({})", a.table, a.op, if self.deployed.contains(&id) { "deployed" } else { "not deployed" }),
                    format!("{op} at pc {} accessed {} of contract {id} via {} (write={})", s.pre.pc(), a.table, a.op, a.write),
                    || json!(null),
                );
            }
        }
        // the active context is always an input contract
        if let Some(c) = active_contract(s.post) {
            rep.count("active_context_checks");
            if !self.inputs.contains(&c) && matches!(s.end, crate::stepbus::StepEnd::Continue) {
                rep.violation(format!("C30|op={op}|active context is a contract that is not an input"), format!("contract {c} active after {op}"), || json!(null));
            }
        }
    }
}

/// reused instance: a first transaction lists *every* deployed contract as input, then the
/// scenario's transaction (which lists fewer) runs on the same interpreter
fn reuse_case(cfg: &Cfg, worker: u64, idx: u64, rep: &mut Report) {
    let mut rng = Rng::derive(cfg.seed ^ (0x30c << 32), worker, idx);
    let mut w = Weights::default();
    w.call = 14;
    w.money = 10;
    w.query = 12;
    w.hostile = 150;
    let o = ScenarioOpts { weights: w.clone(), contract_weights: w, ..Default::default() };
    let sc = scenario::build(&mut rng, &o);
    let replay = super::grp_e::replay_record(cfg.seed, 0x30c, worker, idx, &sc);
    let Ok(ready2) = sc.spec.ready(&sc.world, idx) else { return };
    let first = ScriptSpec {
        script: vec![],
        gas_limit: 1000,
        coins: vec![(0, 0, 1_000_000)],
        contracts: sc.world.contracts.iter().map(|c| c.id).collect(),
        ..Default::default()
    };
    let Ok(ready1) = first.ready(&sc.world, idx ^ 0xffff) else { return };
    let mut vm = crate::world::new_vm(&sc.world);
    let _ = guarded(|| vm.transact(ready1).map(|s| *s.state()));
    *vm.as_mut() = RecStorage::new(sc.world.storage.clone());
    let mut mon = AccessMon { inputs: BTreeSet::new(), deployed: sc.world.contracts.iter().map(|c| c.id).collect() };
    let mut case = Report::new();
    {
        let mut refs: Vec<&mut dyn StepMonitor> = vec![&mut mon];
        let _ = crate::stepbus::run_stepped_on(&sc.world, &mut vm, ready2, &BusOpts { capture_mem: true, max_steps: 20_000 }, &mut refs, &mut case);
    }
    for v in case.violations.iter_mut() {
        v.what = format!("{} [second transaction on a reused interpreter whose first transaction listed every deployed contract]", v.what);
        v.replay = json!({"case": replay, "kind": "reuse"});
    }
    rep.merge(case);
    rep.count("reused_interpreter_cases");
}

/// predicate execution never touches contract state
fn predicate_case(cfg: &Cfg, worker: u64, idx: u64, rep: &mut Report) {
    let mut rng = Rng::derive(cfg.seed ^ (0x30b << 32), worker, idx);
    let o = ScenarioOpts::default();
    let sc = scenario::build(&mut rng, &o);
    // predicates: generated in predicate mode, some with contract instructions spliced in
    let env = Env { contracts: sc.env.contracts.clone(), foreign_contracts: sc.env.foreign_contracts.clone(), assets: sc.world.assets.clone(), blobs: sc.env.blobs.clone(), n_inputs: 4, n_outputs: 4, n_witnesses: 1, ..Default::default() };
    let mut spec = ScriptSpec { script: vec![], data: vec![], gas_limit: 0, max_fee: 0, coins: vec![(0, 0, 1000)], ..Default::default() };
    let np = 1 + rng.below(3);
    for _ in 0..np {
        let mut w = Weights::default();
        w.hostile = 60;
        w.query = 12;
        let n = 2 + rng.below(8) as usize;
        // 1 in 3 predicates is generated in *contract* mode: full of instructions that are
        // not allowed in predicates
        let mode = if rng.chance(1, 3) { Mode::Contract } else { Mode::Predicate };
        let p = prog::generate(&mut rng, &env, mode, w, n);
        spec.predicates.push((p.bytes, rng.bytes_len_class(40), 0, 10 + rng.below(100), rng.below(100_000)));
    }
    let tx = {
        use fuel_tx::Finalizable;
        spec.builder(&sc.world, idx).finalize()
    };
    let storage = RecStorage::new(sc.world.storage.clone());
    let params = CheckPredicateParams::from(&sc.world.params);
    rep.eval();
    // estimation
    let mut est = tx.clone();
    let r1 = guarded(|| est.estimate_predicates(&params, MemoryInstance::new(), &storage));
    let log1 = storage.take_log();
    // verification of the estimated transaction (and of the original one)
    let r2 = guarded(|| est.clone().into_checked_basic(sc.world.height, &sc.world.params).map(|c| c.check_predicates(&params, MemoryInstance::new(), &storage, NotSupportedEcal).map(|_| ())));
    let log2 = storage.take_log();
    let r3 = guarded(|| tx.clone().into_checked_basic(sc.world.height, &sc.world.params).map(|c| c.check_predicates(&params, MemoryInstance::new(), &storage, NotSupportedEcal).map(|_| ())));
    let log3 = storage.take_log();
    for (phase, log) in [("estimate", &log1), ("verify-estimated", &log2), ("verify", &log3)] {
        rep.count_n("predicate_storage_accesses", log.len() as u64);
        for a in log.iter() {
            rep.class(format!("predicate|{phase}|{}|{}", a.table, a.op));
            if CONTRACT_TABLES.contains(&a.table) {
                rep.violation(
                    format!("C30|predicate {phase}|table={}|access={}|contract state touched during predicate execution", a.table, a.op),
                    format!("{a:?}"),
                    || json!({"seed": cfg.seed, "stream": 0x30b, "worker": worker, "index": idx, "kind": "predicate"}),
                );
            }
        }
    }
    let cls = |r: &Result<Result<(), String>, crate::Panicked>| match r {
        Ok(Ok(())) => "ok".to_string(),
        Ok(Err(e)) => format!("err:{}", e.chars().take(40).collect::<String>()),
        Err(_) => "host-panic".to_string(),
    };
    let r1s = r1.map(|r| r.map_err(|e| format!("{e:?}")));
    let r2s = r2.map(|r| match r {
        Ok(Ok(())) => Ok(()),
        Ok(Err(e)) => Err(format!("{e:?}")),
        Err(e) => Err(format!("{e:?}")),
    });
    let r3s = r3.map(|r| match r {
        Ok(Ok(())) => Ok(()),
        Ok(Err(e)) => Err(format!("{e:?}")),
        Err(e) => Err(format!("{e:?}")),
    });
    rep.class(format!("predicate|estimate={}", cls(&r1s)));
    rep.class(format!("predicate|verify-estimated={}", cls(&r2s)));
    rep.class(format!("predicate|verify={}", cls(&r3s)));
    rep.count("predicate_cases");
    if matches!(r2s, Ok(Ok(()))) {
        rep.count("predicate_cases_verified_ok");
    }
}

pub fn run(cfg: &Cfg) -> Report {
    if let Some(r) = &cfg.replay {
        if r["kind"].as_str() == Some("reuse") || r["kind"].as_str() == Some("predicate") {
            let c = r.get("case").unwrap_or(r);
            let mut c2 = cfg.clone();
            c2.seed = c["seed"].as_u64().unwrap_or(cfg.seed);
            let (w, i) = (c["worker"].as_u64().unwrap_or(0), c["index"].as_u64().unwrap_or(0));
            let mut rep = Report::new();
            if r["kind"].as_str() == Some("reuse") {
                reuse_case(&c2, w, i, &mut rep);
            } else {
                predicate_case(&c2, w, i, &mut rep);
            }
            return rep;
        }
    }
    let opts = |idx: u64, _rng: &mut Rng| {
        let mut w = Weights::default();
        w.call = 12;
        w.money = 10;
        w.query = 12;
        w.hostile = if idx % 2 == 0 { 150 } else { 40 };
        // contracts also load code (LDC, all three modes) and use their storage afterwards:
        // the executing contract must stay the one named in the call frame
        let mut cw = w.clone();
        cw.ldc = 5;
        cw.storage = 10;
        ScenarioOpts { weights: w.clone(), contract_weights: cw, ..Default::default() }
    };
    let mons = |sc: &Scenario| -> Vec<Box<dyn StepMonitor>> {
        vec![Box::new(AccessMon { inputs: BTreeSet::new(), deployed: sc.world.contracts.iter().map(|c| c.id).collect() })]
    };
    let d = Drive { prop: "C30", stream: 30, quick: 4000, thorough: 250_000, bus: BusOpts { capture_mem: true, max_steps: 20_000 }, opts: &opts, monitors: &mons, after: None };
    let mut rep = drive(cfg, &d);
    if cfg.replay.is_none() {
        let total = cfg.budget(1500, 80_000);
        let per = total / cfg.threads as u64;
        let r2 = par(cfg.threads, |w| {
            let mut r = Report::new();
            for i in 0..per {
                predicate_case(cfg, w as u64, i, &mut r);
            }
            for i in 0..per {
                reuse_case(cfg, w as u64, i, &mut r);
            }
            r
        });
        rep.merge(r2);
        rep.gate("predicate_cases", rep.counter("predicate_cases"), 100);
        rep.gate("active_context_checks", rep.counter("active_context_checks"), 100);
        rep.gate("contract_table_accesses_judged", rep.evaluations, 1000);
    }
    rep.rule = "recording storage wrapper attributes every access to ContractsRawCode/ContractsState/ContractsAssets to the single-stepped instruction that made it; the contract id must be one of the transaction's contract inputs; active frame's contract must be an input; predicate estimation/verification over a recording storage must not touch contract tables. class = (opcode, id class, table, access kind)".into();
    rep.assume("default verifier (verification::Normal); storage accesses observed at the InterpreterStorage trait boundary");
    rep
}
