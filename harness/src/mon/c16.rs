//! C16 The two secp256k1 backends agree on every signature.
//!
//! Differential monitor: every generated case goes through
//! `fuel_crypto::verif_hooks::secp256k1::*` (libsecp256k1, the `std` backend) and
//! `fuel_crypto::verif_hooks::k256::*` (the portable backend) inside one build; the two
//! results must be equal (same bytes, or both fail; error kinds are not judged).
use super::be256::{
    self as b,
    B32,
};
use crate::{
    Cfg,
    Panicked,
    Report,
    Rng,
    guarded,
    hx,
    par,
    unhx,
};
use fuel_crypto::{
    Error,
    Message,
    PublicKey,
    SecretKey,
    verif_hooks::{
        k256 as bk,
        secp256k1 as bs,
    },
};
use k256::elliptic_curve::sec1::ToEncodedPoint;
use serde_json::{
    Value,
    json,
};

/// What one backend answered.
#[derive(Clone, Debug, PartialEq)]
enum Out {
    Ok(Vec<u8>),
    Err(String),
    Panic(String),
    /// not executed (ffi-only mode)
    Skipped,
}

impl Out {
    fn tag(&self) -> &'static str {
        match self {
            Out::Ok(_) => "Ok",
            Out::Err(_) => "Err",
            Out::Panic(_) => "Panic",
            Out::Skipped => "-",
        }
    }
    fn show(&self) -> String {
        match self {
            Out::Ok(v) if v.is_empty() => "Ok(())".into(),
            Out::Ok(v) => format!("Ok({})", hx(v)),
            Out::Err(e) => format!("Err({e})"),
            Out::Panic(p) => format!("PANIC({p})"),
            Out::Skipped => "-".into(),
        }
    }
    fn key(&self) -> Option<[u8; 64]> {
        match self {
            Out::Ok(v) if v.len() == 64 => Some(v.as_slice().try_into().unwrap()),
            _ => None,
        }
    }
}

fn out_key(r: Result<Result<PublicKey, Error>, Panicked>) -> Out {
    match r {
        Ok(Ok(k)) => Out::Ok(k.as_ref().to_vec()),
        Ok(Err(e)) => Out::Err(format!("{e:?}")),
        Err(p) => Out::Panic(p.text),
    }
}

fn out_unit(r: Result<Result<(), Error>, Panicked>) -> Out {
    match r {
        Ok(Ok(())) => Out::Ok(vec![]),
        Ok(Err(e)) => Out::Err(format!("{e:?}")),
        Err(p) => Out::Panic(p.text),
    }
}

fn out_bytes(r: Result<Vec<u8>, Panicked>) -> Out {
    match r {
        Ok(v) => Out::Ok(v),
        Err(p) => Out::Panic(p.text),
    }
}

struct Ctx {
    ffi_only: bool,
    /// x-coordinates of k*G, k = 1..=16 (computed with the k256 crate, workload only)
    xg: Vec<B32>,
    /// the generator as an uncompressed public key (a valid key for `verify` cases)
    g_pub: [u8; 64],
    half_n: B32,
    p_minus_n: B32,
}

/// workload construction only: public key of a scalar through the k256 crate directly
fn ref_pub(sk: &B32) -> Option<[u8; 64]> {
    let sk = k256::SecretKey::from_slice(sk).ok()?;
    let pt = sk.public_key().to_encoded_point(false);
    let mut o = [0u8; 64];
    o[..32].copy_from_slice(pt.x()?);
    o[32..].copy_from_slice(pt.y()?);
    Some(o)
}

/// workload construction only: is `x` the x-coordinate of a curve point?
fn is_x_coordinate(x: &B32) -> bool {
    let mut c = [0u8; 33];
    c[0] = 2;
    c[1..].copy_from_slice(x);
    k256::PublicKey::from_sec1_bytes(&c).is_ok()
}

impl Ctx {
    fn new(cfg: &Cfg) -> Self {
        let xg: Vec<B32> = (1..=16u64)
            .map(|k| {
                let p = ref_pub(&b::from_u64(k)).expect("k*G");
                let mut x = [0u8; 32];
                x.copy_from_slice(&p[..32]);
                x
            })
            .collect();
        assert_eq!(xg[0], b::K1_GX, "generator constant");
        Ctx {
            ffi_only: cfg.opt("ffi-only").is_some(),
            g_pub: ref_pub(&b::from_u64(1)).unwrap(),
            xg,
            half_n: b::shr1(&b::K1_N),
            p_minus_n: b::sub(&b::K1_P, &b::K1_N).0,
        }
    }
}

/// compact encoding: r || s with the top bit of byte 32 carrying the y-parity bit.
/// Returns the encoding and whether s did not fit (value >= 2^255, truncated).
fn encode(r: &B32, s: &B32, v: bool) -> ([u8; 64], bool) {
    let mut o = [0u8; 64];
    o[..32].copy_from_slice(r);
    o[32..].copy_from_slice(s);
    let aliased = s[0] & 0x80 != 0;
    o[32] = (o[32] & 0x7f) | ((v as u8) << 7);
    (o, aliased)
}

fn split(sig: &[u8; 64]) -> (B32, B32, bool) {
    let mut r = [0u8; 32];
    let mut s = [0u8; 32];
    r.copy_from_slice(&sig[..32]);
    s.copy_from_slice(&sig[32..]);
    let v = s[0] & 0x80 != 0;
    s[0] &= 0x7f;
    (r, s, v)
}

/// Range class of an encoded signature (own arithmetic); the violation signature is built
/// from it so that it does not depend on random values.
fn range_class(cx: &Ctx, sig: &[u8; 64]) -> String {
    let (r, s, _) = split(sig);
    let sc = if b::is_zero(&s) {
        "s=0"
    } else if s <= cx.half_n {
        "s in [1, n/2]"
    } else {
        "s in (n/2, 2^255)"
    };
    let rc = if b::is_zero(&r) {
        "r=0"
    } else if r < b::K1_N {
        "r in [1, n)"
    } else if r < b::K1_P {
        "r in [n, p)"
    } else {
        "r>=p"
    };
    if rc == "r in [1, n)" { sc.to_string() } else { format!("{sc},{rc}") }
}

const N_R: u64 = 15;
const N_S: u64 = 16;
const N_M: u64 = 8;

fn gen_r(cx: &Ctx, rng: &mut Rng, k: u64) -> (&'static str, B32) {
    match k {
        0 => ("r=0", b::ZERO),
        1 => ("r=1", b::from_u64(1)),
        2 => ("r=n-1", b::sub_u64(&b::K1_N, 1)),
        3 => ("r=n", b::K1_N),
        4 => ("r=n+1", b::add_u64(&b::K1_N, 1)),
        5 => ("r=p-1", b::sub_u64(&b::K1_P, 1)),
        6 => ("r=p", b::K1_P),
        7 => ("r=2^256-1", b::MAX),
        8 => ("r=G.x", b::K1_GX),
        9 => ("r=x(kG),k<=16", *rng.pick(&cx.xg)),
        10 => {
            // x-coordinate of a random point
            loop {
                let x: B32 = rng.arr();
                if x < b::K1_N && is_x_coordinate(&x) {
                    return ("r=x(random point)", x);
                }
            }
        }
        11 => loop {
            let x: B32 = rng.arr();
            if x < b::K1_N && !b::is_zero(&x) && !is_x_coordinate(&x) {
                return ("r=not an x-coordinate", x);
            }
        },
        12 => {
            let mut x: B32 = rng.arr();
            let z = rng.range(1, 31) as usize;
            x[..z].fill(0);
            ("r=zero top bytes", x)
        }
        13 => {
            // candidates for the reduced-x case: r + n < p
            let mut x = [0u8; 32];
            let t: [u8; 16] = rng.arr();
            x[16..].copy_from_slice(&t);
            x[16] &= 0x7f;
            if !(x < cx.p_minus_n) {
                x = b::from_u64(rng.u64());
            }
            ("r<p-n", x)
        }
        _ => ("r=random", rng.arr()),
    }
}

fn gen_s(cx: &Ctx, rng: &mut Rng, k: u64) -> (&'static str, B32) {
    let half = &cx.half_n;
    match k {
        0 => ("s=0", b::ZERO),
        1 => ("s=1", b::from_u64(1)),
        2 => ("s=2", b::from_u64(2)),
        3 => ("s=n/2-1", b::sub_u64(half, 1)),
        4 => ("s=n/2", *half),
        5 => ("s=n/2+1", b::add_u64(half, 1)),
        6 => ("s=n/2+2", b::add_u64(half, 2)),
        7 => {
            // uniform-ish in the window (n/2, 2^255): n/2 + 1 + d, d < 2^127 < 2^255 - n/2 - 1
            let mut d = [0u8; 32];
            let t: [u8; 16] = rng.arr();
            d[16..].copy_from_slice(&t);
            d[16] &= 0x7f;
            let s = b::add(&b::add_u64(half, 1), &d).0;
            debug_assert!(s < b::TOP && s > *half);
            ("s in (n/2, 2^255) random", s)
        }
        8 => ("s=2^255-1", b::sub_u64(&b::TOP, 1)),
        9 => ("s=2^255-2", b::sub_u64(&b::TOP, 2)),
        10 => ("s=n-1 (aliased)", b::sub_u64(&b::K1_N, 1)),
        11 => ("s=n (aliased)", b::K1_N),
        12 => ("s=n+1 (aliased)", b::add_u64(&b::K1_N, 1)),
        13 => ("s=2^255 (aliased)", b::TOP),
        14 => {
            let mut x: B32 = rng.arr();
            let z = rng.range(1, 31) as usize;
            x[..z].fill(0);
            ("s=zero top bytes", x)
        }
        _ => {
            let mut x: B32 = rng.arr();
            x[0] &= 0x7f;
            if x > *half {
                x[0] &= 0x3f;
            }
            ("s=random low", x)
        }
    }
}

fn gen_msg(rng: &mut Rng, k: u64) -> (&'static str, B32) {
    match k {
        0 => ("m=random", rng.arr()),
        1 => ("m=0", b::ZERO),
        2 => ("m=ff..ff", b::MAX),
        3 => ("m=n", b::K1_N),
        4 => ("m=n-1", b::sub_u64(&b::K1_N, 1)),
        5 => ("m=1", b::from_u64(1)),
        6 => ("m=n+1", b::add_u64(&b::K1_N, 1)),
        _ => {
            // random value in [n, 2^256): the top 127 bits of n are ones
            let mut x: B32 = rng.arr();
            x[..16].fill(0xff);
            if x < b::K1_N {
                x = b::MAX;
            }
            ("m>=n random", x)
        }
    }
}

fn gen_sk(rng: &mut Rng, k: u64) -> (&'static str, B32) {
    match k {
        0 => ("sk=1", b::from_u64(1)),
        1 => ("sk=2", b::from_u64(2)),
        2 => ("sk=n-1", b::sub_u64(&b::K1_N, 1)),
        3 => ("sk=n-2", b::sub_u64(&b::K1_N, 2)),
        4 => {
            let mut x: B32 = rng.arr();
            let z = rng.range(1, 31) as usize;
            x[..z].fill(0);
            if b::is_zero(&x) {
                x[31] = 3;
            }
            ("sk=zero top bytes", x)
        }
        _ => loop {
            let x: B32 = rng.arr();
            if !b::is_zero(&x) && x < b::K1_N {
                return ("sk=random", x);
            }
        },
    }
}

/// malformed / unusual public keys for `verify`
fn gen_bad_pk(cx: &Ctx, rng: &mut Rng, good: &[u8; 64], k: u64) -> (&'static str, [u8; 64]) {
    let mut pk = *good;
    match k {
        0 => ("pk=zero", [0u8; 64]),
        1 => {
            // y + 1: off the curve
            let mut y = [0u8; 32];
            y.copy_from_slice(&pk[32..]);
            pk[32..].copy_from_slice(&b::add_u64(&y, 1));
            ("pk=off-curve (y+1)", pk)
        }
        2 => {
            pk[..32].copy_from_slice(&b::K1_P);
            ("pk=x=p", pk)
        }
        3 => {
            let mut x: B32 = [0xff; 32];
            x[31] = rng.u8() | 0x30;
            x[30] = 0xfc | (rng.u8() & 3);
            if x < b::K1_P {
                x = b::MAX;
            }
            pk[..32].copy_from_slice(&x);
            ("pk=x>p", pk)
        }
        4 => {
            pk[32..].copy_from_slice(&b::K1_P);
            ("pk=y=p", pk)
        }
        5 => {
            // negated y: a valid point, the key of -d
            let mut y = [0u8; 32];
            y.copy_from_slice(&pk[32..]);
            pk[32..].copy_from_slice(&b::sub(&b::K1_P, &y).0);
            ("pk=(x,-y)", pk)
        }
        6 => ("pk=random 64 bytes", rng.arr()),
        7 => {
            pk[32..].fill(0);
            ("pk=y=0", pk)
        }
        8 => {
            // x + p does not fit, but x of a point with y swapped into x is off-curve
            let (a, bb) = pk.split_at_mut(32);
            a.swap_with_slice(bb);
            ("pk=(y,x)", pk)
        }
        9 => ("pk=ff..ff", [0xff; 64]),
        10 => {
            let i = rng.usize_below(64);
            pk[i] ^= 1 << rng.below(8);
            ("pk=bit flipped", pk)
        }
        _ => ("pk=G", cx.g_pub),
    }
}
const N_BAD_PK: u64 = 12;

struct Case<'a> {
    op: &'static str,
    /// coverage class of the generator
    genc: String,
    /// range class for the violation signature
    range: String,
    replay: &'a dyn Fn() -> Value,
}

fn judge(cx: &Ctx, rep: &mut Report, c: Case, so: &Out, ko: &Out) {
    rep.eval();
    rep.count(&format!("op_{}", c.op));
    if cx.ffi_only {
        rep.count(&format!("ffi_{}_{}", c.op, so.tag()));
        rep.class(format!("{}|{}|secp256k1={}", c.op, c.genc, so.tag()));
        return;
    }
    let same = match (so, ko) {
        (Out::Ok(a), Out::Ok(bb)) => a == bb,
        (Out::Err(_), Out::Err(_)) => true,
        (Out::Panic(_), Out::Panic(_)) => {
            rep.count("both_backends_panicked");
            rep.note(format!("both backends panicked on {}: {}", c.op, so.show()));
            true
        }
        _ => false,
    };
    let pair = if !same && so.tag() == "Ok" && ko.tag() == "Ok" {
        "secp256k1=Ok,k256=Ok(different value)".to_string()
    } else {
        format!("secp256k1={},k256={}", so.tag(), ko.tag())
    };
    rep.class(format!("{}|{}|{}", c.op, c.genc, pair));
    rep.count(&format!("{}_{}", c.op, if same { so.tag() } else { "DISAGREE" }));
    if matches!((so, ko), (Out::Err(a), Out::Err(bb)) if a != bb) {
        // error kinds are not judged
        rep.count("both_err_different_kind");
    }
    if !same {
        let rec = (c.replay)();
        rep.violation(
            format!("C16|{}|{}|{}", c.op, c.range, pair),
            format!(
                "{} [{}]: secp256k1 backend -> {}, k256 backend -> {}; inputs {}",
                c.op,
                c.genc,
                so.show(),
                ko.show(),
                rec
            ),
            || rec.clone(),
        );
    } else if rep.samples.len() < crate::MAX_SAMPLES && rep.evaluations % 37 == 1 {
        let rec = (c.replay)();
        rep.sample(|| json!({"case": rec, "class": c.genc, "secp256k1": so.show(), "k256": ko.show()}));
    }
}

fn do_recover(cx: &Ctx, rep: &mut Report, genc: &str, sig: [u8; 64], msg: B32) -> (Out, Out) {
    let m = Message::from_bytes(msg);
    let so = out_key(guarded(|| bs::recover(sig, &m)));
    let ko = if cx.ffi_only { Out::Skipped } else { out_key(guarded(|| bk::recover(sig, &m))) };
    let range = range_class(cx, &sig);
    if range.starts_with("s in (n/2") {
        rep.count("recover_high_s_window_cases");
    }
    judge(
        cx,
        rep,
        Case {
            op: "recover",
            genc: genc.to_string(),
            range,
            replay: &|| json!({"op": "recover", "sig": hx(sig), "msg": hx(msg)}),
        },
        &so,
        &ko,
    );
    (so, ko)
}

fn do_verify(cx: &Ctx, rep: &mut Report, genc: &str, pkc: &str, sig: [u8; 64], pk: [u8; 64], msg: B32) -> (Out, Out) {
    let m = Message::from_bytes(msg);
    let so = out_unit(guarded(|| bs::verify(sig, pk, &m)));
    let ko = if cx.ffi_only { Out::Skipped } else { out_unit(guarded(|| bk::verify(sig, pk, &m))) };
    judge(
        cx,
        rep,
        Case {
            op: "verify",
            genc: format!("{genc}|{pkc}"),
            range: format!("{},{}", range_class(cx, &sig), pkc),
            replay: &|| json!({"op": "verify", "sig": hx(sig), "pk": hx(pk), "msg": hx(msg), "pk_class": pkc}),
        },
        &so,
        &ko,
    );
    (so, ko)
}

fn do_sign(cx: &Ctx, rep: &mut Report, skc: &str, mc: &str, sk: B32, msg: B32) -> (Out, Out) {
    let Ok(secret) = SecretKey::try_from(&sk[..]) else {
        rep.count("secret_key_rejected");
        return (Out::Skipped, Out::Skipped);
    };
    let m = Message::from_bytes(msg);
    let so = out_bytes(guarded(|| bs::sign(&secret, &m).to_vec()));
    let ko = if cx.ffi_only { Out::Skipped } else { out_bytes(guarded(|| bk::sign(&secret, &m).to_vec())) };
    judge(
        cx,
        rep,
        Case {
            op: "sign",
            genc: format!("{skc},{mc}"),
            // the digest reduced mod n or not is the only input feature that matters here
            range: (if msg < b::K1_N { "m<n" } else { "m>=n" }).to_string(),
            replay: &|| json!({"op": "sign", "sk": hx(sk), "msg": hx(msg), "sk_class": skc, "msg_class": mc}),
        },
        &so,
        &ko,
    );
    if let (Some(a), Some(k), Some(pk)) = (so.key(), ko.key(), ref_pub(&sk)) {
        if a != k {
            // are both results valid ECDSA signatures? each one is checked by the *other* backend
            let v1 = out_unit(guarded(|| bk::verify(a, pk, &m)));
            let v2 = out_unit(guarded(|| bs::verify(k, pk, &m)));
            if v1.tag() == "Ok" && v2.tag() == "Ok" {
                rep.count("sign_disagreements_both_signatures_valid");
                rep.note("sign disagreements: in every cross-checked case each backend's signature verifies under the other backend (different deterministic nonces, both signatures valid) unless the counter sign_disagreements_with_invalid_signature is non-zero");
            } else {
                rep.count("sign_disagreements_with_invalid_signature");
            }
        }
    }
    (so, ko)
}

fn do_public_key(cx: &Ctx, rep: &mut Report, skc: &str, sk: B32) -> (Out, Out) {
    let Ok(secret) = SecretKey::try_from(&sk[..]) else {
        rep.count("secret_key_rejected");
        return (Out::Skipped, Out::Skipped);
    };
    let so = out_bytes(guarded(|| bs::public_key(&secret).as_ref().to_vec()));
    let ko = if cx.ffi_only {
        Out::Skipped
    } else {
        out_bytes(guarded(|| bk::public_key(&secret).as_ref().to_vec()))
    };
    judge(
        cx,
        rep,
        Case {
            op: "public_key",
            genc: skc.to_string(),
            range: "any key".to_string(),
            replay: &|| json!({"op": "public_key", "sk": hx(sk), "sk_class": skc}),
        },
        &so,
        &ko,
    );
    (so, ko)
}

/// recover through both, then verify through both with a suitable key, sometimes with a
/// malformed key as well
fn recover_then_verify(cx: &Ctx, rep: &mut Report, rng: &mut Rng, genc: &str, sig: [u8; 64], msg: B32, signer: Option<[u8; 64]>) {
    let (so, ko) = do_recover(cx, rep, genc, sig, msg);
    let rec = so.key().or(ko.key());
    if let Some(pk) = rec {
        do_verify(cx, rep, genc, "pk=recovered", sig, pk, msg);
    }
    if let Some(pk) = signer {
        if rec != Some(pk) {
            do_verify(cx, rep, genc, "pk=signer", sig, pk, msg);
        }
    } else if rec.is_none() {
        do_verify(cx, rep, genc, "pk=G", sig, cx.g_pub, msg);
    }
    if rng.chance(1, 4) {
        let good = rec.or(signer).unwrap_or(cx.g_pub);
        let k = rng.below(N_BAD_PK);
        let (pkc, pk) = gen_bad_pk(cx, rng, &good, k);
        do_verify(cx, rep, genc, pkc, sig, pk, msg);
    }
}

/// one structured (r class, s class, parity, message class) case
fn structured(cx: &Ctx, rep: &mut Report, rng: &mut Rng, ri: u64, si: u64, v: bool, mi: u64) {
    let (rc, r) = gen_r(cx, rng, ri);
    let (sc, s) = gen_s(cx, rng, si);
    let (_mc, msg) = gen_msg(rng, mi);
    let (sig, _aliased) = encode(&r, &s, v);
    recover_then_verify(cx, rep, rng, &format!("{rc},{sc}"), sig, msg, None);
}

/// valid signatures from both signers and mutations of them
fn valid_and_mutated(cx: &Ctx, rep: &mut Report, rng: &mut Rng, ski: u64, mi: u64, mutation: u64) {
    let (skc, sk) = gen_sk(rng, ski);
    let (mc, msg) = gen_msg(rng, mi);
    let (ps, pk_) = do_public_key(cx, rep, skc, sk);
    let (ss, ks) = do_sign(cx, rep, skc, mc, sk, msg);
    let signer = ps.key().or(pk_.key());
    let mut sigs: Vec<[u8; 64]> = vec![];
    for o in [&ss, &ks] {
        if let Some(k) = o.key() {
            if !sigs.contains(&k) {
                sigs.push(k);
            }
        }
    }
    for sig in sigs {
        recover_then_verify(cx, rep, rng, "valid", sig, msg, signer);
        if let Some(pk) = signer {
            // malformed keys against a valid signature
            let k = rng.below(N_BAD_PK);
            let (pkc, bad) = gen_bad_pk(cx, rng, &pk, k);
            do_verify(cx, rep, "valid", pkc, sig, bad, msg);
        }
        let (r, s, v) = split(&sig);
        let neg_s = b::sub(&b::K1_N, &s).0;
        let (label, msig, mmsg): (&str, [u8; 64], B32) = match mutation {
            0 => ("valid:parity flipped", encode(&r, &s, !v).0, msg),
            1 => ("valid:s->n-s", encode(&r, &neg_s, v).0, msg),
            2 => ("valid:s->n-s,parity flipped", encode(&r, &neg_s, !v).0, msg),
            3 => {
                let mut x = sig;
                x[rng.usize_below(32)] ^= 1 << rng.below(8);
                ("valid:bit flip in r", x, msg)
            }
            4 => {
                let mut x = sig;
                let i = 32 + rng.usize_below(32);
                // keep the parity bit: that is mutation 0
                x[i] ^= 1 << rng.below(if i == 32 { 7 } else { 8 });
                ("valid:bit flip in s", x, msg)
            }
            5 => {
                let mut x = sig;
                x[0] = 0;
                ("valid:r top byte zeroed", x, msg)
            }
            6 => {
                let mut x = sig;
                x[32] &= 0x80;
                ("valid:s top byte zeroed", x, msg)
            }
            7 => {
                let mut x = [0u8; 64];
                x[..32].copy_from_slice(&sig[32..]);
                x[32..].copy_from_slice(&sig[..32]);
                ("valid:r and s swapped", x, msg)
            }
            8 => {
                let mut m2 = msg;
                m2[rng.usize_below(32)] ^= 1 << rng.below(8);
                ("valid:other message", sig, m2)
            }
            _ => ("valid:replayed", sig, msg),
        };
        recover_then_verify(cx, rep, rng, label, msig, mmsg, signer);
    }
}
const N_MUT: u64 = 10;

/// A signature that is *valid* for some key and has s in the window (n/2, 2^255): choose r
/// as the x-coordinate of a point and any s; the key it belongs to is whatever a backend
/// recovers. Also the low-s twin (r, n-s, !v), which must recover the same key.
fn crafted_high_s(cx: &Ctx, rep: &mut Report, rng: &mut Rng) {
    let k = *rng.pick(&[8u64, 9, 10]);
    let (rc, r) = gen_r(cx, rng, k);
    let k = *rng.pick(&[5u64, 6, 7, 8, 9]);
    let (sc, s) = gen_s(cx, rng, k);
    let k = rng.below(N_M);
    let (_mc, msg) = gen_msg(rng, k);
    let v = rng.bool();
    let (sig, _) = encode(&r, &s, v);
    recover_then_verify(cx, rep, rng, &format!("{rc},{sc}"), sig, msg, None);
    let twin = encode(&r, &b::sub(&b::K1_N, &s).0, !v).0;
    recover_then_verify(cx, rep, rng, &format!("{rc},low-s twin of {sc}"), twin, msg, None);
}

fn sweep_len() -> u64 {
    N_R * N_S * 2 * 3 + 6 * N_M * N_MUT + N_BAD_PK * 2
}

fn one_case(cx: &Ctx, rep: &mut Report, seed: u64, idx: u64) {
    let mut rng = Rng::derive(seed, 0x16, idx);
    let rng = &mut rng;
    let a = N_R * N_S * 2 * 3;
    let bb = a + 6 * N_M * N_MUT;
    if idx < a {
        // deterministic sweep: every (r class, s class, parity) with three message classes
        let ri = idx % N_R;
        let si = (idx / N_R) % N_S;
        let v = (idx / (N_R * N_S)) % 2 == 1;
        let mi = idx / (N_R * N_S * 2);
        structured(cx, rep, rng, ri, si, v, mi);
    } else if idx < bb {
        let j = idx - a;
        valid_and_mutated(cx, rep, rng, j % 6, (j / 6) % N_M, j / (6 * N_M));
    } else if idx < sweep_len() {
        // every malformed public key class against a valid and a crafted signature
        let j = idx - bb;
        let k = j % N_BAD_PK;
        let (_, sk) = gen_sk(rng, 5);
        let (_, msg) = gen_msg(rng, 0);
        if j < N_BAD_PK {
            if let (Ok(secret), Some(good)) = (SecretKey::try_from(&sk[..]), ref_pub(&sk)) {
                let m = Message::from_bytes(msg);
                if let Ok(sig) = guarded(|| bs::sign(&secret, &m)) {
                    let (pkc, pk) = gen_bad_pk(cx, rng, &good, k);
                    do_verify(cx, rep, "valid", pkc, sig, pk, msg);
                }
            }
        } else {
            let (sig, _) = encode(&b::K1_GX, &b::from_u64(1), false);
            let (pkc, pk) = gen_bad_pk(cx, rng, &cx.g_pub, k);
            do_verify(cx, rep, "r=G.x,s=1", pkc, sig, pk, msg);
        }
    } else {
        match rng.below(20) {
            0..=6 => {
                let (a1, a2, a3, a4) = (rng.below(N_R), rng.below(N_S), rng.bool(), rng.below(N_M));
                structured(cx, rep, rng, a1, a2, a3, a4)
            }
            7..=13 => {
                let (a1, a2, a3) = (rng.below(8), rng.below(N_M), rng.below(N_MUT));
                valid_and_mutated(cx, rep, rng, a1, a2, a3)
            }
            14 | 15 => crafted_high_s(cx, rep, rng),
            16 | 17 => {
                let sig: [u8; 64] = rng.arr();
                let msg: B32 = rng.arr();
                recover_then_verify(cx, rep, rng, "random 64 bytes", sig, msg, None);
            }
            _ => {
                // random r that is an x-coordinate with random low s: recoverable by
                // construction, the bulk "valid for some key" class
                let (rc, r) = gen_r(cx, rng, 10);
                let (sc, s) = gen_s(cx, rng, 15);
                let msg: B32 = rng.arr();
                let sig = encode(&r, &s, rng.bool()).0;
                recover_then_verify(cx, rep, rng, &format!("{rc},{sc}"), sig, msg, None);
            }
        }
    }
}

fn arr<const N: usize>(v: &Value, k: &str) -> Option<[u8; N]> {
    let s = v.get(k)?.as_str()?;
    unhx(s).as_slice().try_into().ok()
}

fn replay(cx: &Ctx, rec: &Value) -> Report {
    let mut rep = Report::new();
    let op = rec.get("op").and_then(|x| x.as_str()).unwrap_or("");
    let done = match op {
        "recover" => match (arr::<64>(rec, "sig"), arr::<32>(rec, "msg")) {
            (Some(sig), Some(msg)) => {
                let (so, ko) = do_recover(cx, &mut rep, "replay", sig, msg);
                rep.note(format!("replay recover: secp256k1 -> {}, k256 -> {}", so.show(), ko.show()));
                true
            }
            _ => false,
        },
        "verify" => match (arr::<64>(rec, "sig"), arr::<64>(rec, "pk"), arr::<32>(rec, "msg")) {
            (Some(sig), Some(pk), Some(msg)) => {
                // the key class is part of the signature: recompute the generator's label
                let pkc = rec.get("pk_class").and_then(|x| x.as_str()).unwrap_or("pk=replay");
                let (so, ko) = do_verify(cx, &mut rep, "replay", pkc, sig, pk, msg);
                rep.note(format!("replay verify: secp256k1 -> {}, k256 -> {}", so.show(), ko.show()));
                true
            }
            _ => false,
        },
        "sign" => match (arr::<32>(rec, "sk"), arr::<32>(rec, "msg")) {
            (Some(sk), Some(msg)) => {
                let skc = rec.get("sk_class").and_then(|x| x.as_str()).unwrap_or("sk=replay");
                let mc = rec.get("msg_class").and_then(|x| x.as_str()).unwrap_or("m=replay");
                let (so, ko) = do_sign(cx, &mut rep, skc, mc, sk, msg);
                rep.note(format!("replay sign: secp256k1 -> {}, k256 -> {}", so.show(), ko.show()));
                true
            }
            _ => false,
        },
        "public_key" => match arr::<32>(rec, "sk") {
            Some(sk) => {
                let skc = rec.get("sk_class").and_then(|x| x.as_str()).unwrap_or("sk=replay");
                let (so, ko) = do_public_key(cx, &mut rep, skc, sk);
                rep.note(format!("replay public_key: secp256k1 -> {}, k256 -> {}", so.show(), ko.show()));
                true
            }
            None => false,
        },
        _ => false,
    };
    if !done {
        rep.inconclusive = Some(format!("C16: unusable replay record {rec}"));
    }
    rep
}

pub fn run(cfg: &Cfg) -> Report {
    let cx = Ctx::new(cfg);
    if let Some(rec) = &cfg.replay {
        let mut rep = replay(&cx, rec);
        rep.rule = "replay of one recorded case through both backends".into();
        return rep;
    }
    let sweep = sweep_len();
    let total = if cx.ffi_only {
        cfg.budget(1500, 1500).max(1)
    } else {
        sweep + cfg.budget(14_000, 1_200_000)
    };
    let threads = cfg.threads.max(1) as u64;
    let mut rep = par(cfg.threads, |w| {
        let mut rep = Report::new();
        let mut idx = w as u64;
        while idx < total {
            // ffi-only: a thin slice of the sweep plus random cases
            let i = if cx.ffi_only && idx % 2 == 1 { sweep + idx } else if cx.ffi_only { (idx * 7) % sweep } else { idx };
            one_case(&cx, &mut rep, cfg.seed, i);
            idx += threads;
        }
        rep
    });
    rep.assume("hook H1 (feature verif-hooks) re-exports the two backend modules unchanged; no behaviour is added");
    rep.assume("k256 crate used directly only to construct workload values (x-coordinates of points, public keys of scalars); 256-bit constants n, p, G.x and their arithmetic are hand-written (mon/be256.rs)");
    if cx.ffi_only {
        rep.rule = "ffi-only: the libsecp256k1 half (public_key, sign, recover, verify) of a small structured workload is executed and counted, nothing is compared (memcheck stage)".into();
        rep.gate("ffi_calls", rep.evaluations, 500);
        return rep;
    }
    rep.rule = "every case through verif_hooks::secp256k1::* and verif_hooks::k256::*; results must be byte-equal or both fail (error kinds not judged). deterministic sweep of 15 r classes x 16 s classes x 2 parity bits x 3 message classes, 6 key x 6 message x 10 mutation classes of valid signatures, 12 public-key classes; then random mix (structured, valid+mutated, crafted high-s with low-s twin, random 64 bytes). class = (operation, generator class, verdict pair); violation signature = (operation, range class of the encoded (r,s) by own arithmetic [+ key class], verdict pair)".into();
    for op in ["recover", "verify", "sign", "public_key"] {
        rep.gate(&format!("op_{op}"), rep.counter(&format!("op_{op}")), 100);
    }
    rep.gate("recover_both_ok", rep.counter("recover_Ok"), 200);
    rep.gate("verify_both_ok", rep.counter("verify_Ok"), 200);
    rep.gate("verify_both_err", rep.counter("verify_Err"), 200);
    rep.gate("recover_high_s_window_cases", rep.counter("recover_high_s_window_cases"), 100);
    rep.gate("classes", rep.classes.len() as u64, 300);
    rep
}
