//! C23 VM memory behaves like a zero-initialized array with two regions.
//!
//! Histories of operations on one `MemoryInstance` (owned by an `Interpreter`, so that
//! MCP/MCPI can be executed on it) run side by side with `refmodel::mem::RefMem`.
//! Every result (Ok / error class / bytes) is compared with the model; after every state
//! change the affected window and a set of boundary probes are compared, small memories
//! are compared completely. A history is a plain list of operations (replayable).
use crate::{
    Cfg,
    Panicked,
    Report,
    Rng,
    guarded,
    par,
    refmodel::mem::{
        Access,
        MEM_SIZE,
        RefMem,
    },
};
use fuel_asm::{
    PanicReason,
    RegId,
    op,
};
use fuel_tx::Script;
use fuel_vm::{
    constraints::reg_key::{
        HP,
        Reg,
        RegMut,
        SP,
    },
    error::InterpreterError,
    interpreter::{
        Interpreter,
        MemoryInstance,
    },
    state::ExecuteState,
    storage::MemoryStorage,
};
use serde_json::{
    Value,
    json,
};

const MEM: u64 = MEM_SIZE;
/// memories up to this accessible size are compared completely after every state change
const FULL_CHECK_LIMIT: u64 = 96 << 10;
const GAS: u64 = 1 << 60;

type Vm = Interpreter<MemoryInstance, MemoryStorage, Script>;

#[derive(Clone, Debug, PartialEq)]
enum Op {
    GrowStack(u64),
    /// lower/raise the tracked `$sp` without touching the memory (CFS)
    SetSp(u64),
    GrowHeap { sp: u64, amount: u64 },
    Verify(u64, u64),
    Read(u64, u64),
    Read8(u64),
    Write { addr: u64, len: u64, pat: u64 },
    Write8 { addr: u64, pat: u64 },
    Reset,
    Snap,
    Rollback(usize),
    EqSnap(usize),
    Mcp { dst: u64, src: u64, len: u64, imm: bool },
    Check,
}

impl Op {
    fn kind(&self) -> &'static str {
        match self {
            Op::GrowStack(_) => "grow_stack",
            Op::SetSp(_) => "set_sp",
            Op::GrowHeap { .. } => "grow_heap_by",
            Op::Verify(..) => "verify",
            Op::Read(..) => "read",
            Op::Read8(_) => "read_bytes",
            Op::Write { .. } => "write_noownerchecks",
            Op::Write8 { .. } => "write_bytes_noownerchecks",
            Op::Reset => "reset",
            Op::Snap => "snapshot",
            Op::Rollback(_) => "rollback",
            Op::EqSnap(_) => "eq",
            Op::Mcp { imm: false, .. } => "MCP",
            Op::Mcp { imm: true, .. } => "MCPI",
            Op::Check => "check",
        }
    }

    fn to_json(&self) -> Value {
        match self {
            Op::GrowStack(n) => json!({"op": "grow_stack", "new_sp": n}),
            Op::SetSp(n) => json!({"op": "set_sp", "sp": n}),
            Op::GrowHeap { sp, amount } => json!({"op": "grow_heap_by", "sp": sp, "amount": amount}),
            Op::Verify(a, l) => json!({"op": "verify", "addr": a, "len": l}),
            Op::Read(a, l) => json!({"op": "read", "addr": a, "len": l}),
            Op::Read8(a) => json!({"op": "read_bytes8", "addr": a}),
            Op::Write { addr, len, pat } => json!({"op": "write", "addr": addr, "len": len, "pat": pat}),
            Op::Write8 { addr, pat } => json!({"op": "write_bytes8", "addr": addr, "pat": pat}),
            Op::Reset => json!({"op": "reset"}),
            Op::Snap => json!({"op": "snapshot"}),
            Op::Rollback(i) => json!({"op": "rollback", "snapshot": i}),
            Op::EqSnap(i) => json!({"op": "eq", "snapshot": i}),
            Op::Mcp { dst, src, len, imm } => json!({"op": if *imm { "mcpi" } else { "mcp" }, "dst": dst, "src": src, "len": len}),
            Op::Check => json!({"op": "check"}),
        }
    }

    fn from_json(v: &Value) -> Option<Op> {
        let u = |k: &str| v.get(k).and_then(|x| x.as_u64());
        Some(match v.get("op")?.as_str()? {
            "grow_stack" => Op::GrowStack(u("new_sp")?),
            "set_sp" => Op::SetSp(u("sp")?),
            "grow_heap_by" => Op::GrowHeap { sp: u("sp")?, amount: u("amount")? },
            "verify" => Op::Verify(u("addr")?, u("len")?),
            "read" => Op::Read(u("addr")?, u("len")?),
            "read_bytes8" => Op::Read8(u("addr")?),
            "write" => Op::Write { addr: u("addr")?, len: u("len")?, pat: u("pat")? },
            "write_bytes8" => Op::Write8 { addr: u("addr")?, pat: u("pat")? },
            "reset" => Op::Reset,
            "snapshot" => Op::Snap,
            "rollback" => Op::Rollback(u("snapshot")? as usize),
            "eq" => Op::EqSnap(u("snapshot")? as usize),
            "mcp" => Op::Mcp { dst: u("dst")?, src: u("src")?, len: u("len")?, imm: false },
            "mcpi" => Op::Mcp { dst: u("dst")?, src: u("src")?, len: u("len")?, imm: true },
            "check" => Op::Check,
            _ => return None,
        })
    }
}

/// the bytes written by a `write` operation: never zero, so that a lost write or a
/// missing zeroing is visible
fn pattern(pat: u64, len: usize) -> Vec<u8> {
    let mut v = Vec::with_capacity(len);
    let mut x = pat ^ 0x5bd1_e995_9e37_79b9;
    for i in 0..len {
        if i % 8 == 0 {
            x = x.wrapping_mul(0x2545_f491_4f6c_dd1d).wrapping_add(0x9e37_79b9_7f4a_7c15);
            x ^= x >> 29;
        }
        v.push(((x >> ((i % 8) * 8)) as u8) | 1);
    }
    v
}

struct Snapshot {
    mem: MemoryInstance,
    model: RefMem,
    sp: u64,
}

struct St {
    vm: Vm,
    model: RefMem,
    sp: u64,
    hp_reg: u64,
    snaps: Vec<Snapshot>,
    after_reset: bool,
    done: Vec<Op>,
    /// a library panic left the instance in an unknown state: stop the history
    dead: std::cell::Cell<bool>,
    info: Value,
}

impl St {
    fn new(vm: Vm, info: Value) -> St {
        let mut st = St {
            vm,
            model: RefMem::new(),
            sp: 0,
            hp_reg: MEM,
            snaps: vec![],
            after_reset: false,
            done: vec![],
            dead: std::cell::Cell::new(false),
            info,
        };
        *st.vm.memory_mut() = MemoryInstance::new();
        st
    }

    fn replay(&self) -> Value {
        json!({"kind": "history", "info": self.info,
               "ops": self.done.iter().map(|o| o.to_json()).collect::<Vec<_>>()})
    }

    fn tag(&self) -> &'static str {
        if self.after_reset { "after reset" } else { "fresh" }
    }
}

/// region relation of `[start, start+len)` in the model state
fn relation(m: &RefMem, start: u64, len: u64) -> &'static str {
    let Some(end) = start.checked_add(len) else { return "beyond" };
    if end > MEM {
        "beyond"
    } else if end <= m.stack_extent {
        "stack"
    } else if start >= m.hp {
        "heap"
    } else if start >= m.stack_extent && end <= m.hp {
        "gap"
    } else {
        "straddle"
    }
}

fn reason_name(r: PanicReason) -> String {
    format!("{r:?}")
}

fn access_name(a: &Access) -> &'static str {
    match a {
        Access::Ok => "ok",
        Access::Overflow => "MemoryOverflow",
        Access::Uninit => "UninitalizedMemoryAccess",
    }
}

/// an empty range strictly inside the gap: the statement does not say whether it is
/// accessible (the model's formula says no; an empty range "lies entirely" anywhere)
fn unspecified_empty(m: &RefMem, start: u64, len: u64) -> bool {
    len == 0 && start > m.stack_extent && start < m.hp
}

fn outcome_of<T>(r: &Result<Result<T, PanicReason>, Panicked>) -> String {
    match r {
        Ok(Ok(_)) => "ok".into(),
        Ok(Err(e)) => reason_name(*e),
        Err(_) => "panic".into(),
    }
}

/// report a refutation; model and implementation may have diverged, so the history ends
/// here (one defect, one report, no follow-up noise)
fn viol(rep: &mut Report, st: &St, sig: String, what: String) {
    rep.violation(sig, what, || st.replay());
    st.dead.set(true);
}

/// compare the implementation's view of `[lo, hi)` (clipped to the accessible regions of
/// the model) with the model
fn check_window(rep: &mut Report, st: &St, opk: &str, lo: u64, hi: u64) {
    let m = &st.model;
    let hi = hi.min(MEM);
    let parts = [
        ("stack", lo.min(m.stack_extent), hi.min(m.stack_extent)),
        ("heap", lo.max(m.hp), hi.max(m.hp)),
    ];
    for (region, a, b) in parts {
        if a >= b {
            continue;
        }
        let mem = st.vm.memory();
        let r = guarded(|| mem.read(a as usize, (b - a) as usize).map(|s| (s.len(), m.first_diff(a, s))));
        rep.count("window_reads");
        match r {
            Ok(Ok((n, None))) if n as u64 == b - a => {}
            Ok(Ok((n, d))) => {
                let at = d.unwrap_or(a);
                let zero_expected = m.get(at) == 0;
                viol(
                    rep,
                    st,
                    format!(
                        "C23|{opk}|contents differ from model in {region}{}|{}",
                        if zero_expected { " (expected zero)" } else { "" },
                        st.tag()
                    ),
                    format!(
                        "after {opk}: read({a},{}) returned {n} bytes, first difference at {at}: model {:#04x} (extent {}, hp {})",
                        b - a,
                        m.get(at),
                        m.stack_extent,
                        m.hp
                    ),
                );
            }
            Ok(Err(e)) => viol(
                rep,
                st,
                format!("C23|{opk}|accessible {region} range refused: {}|{}", reason_name(e), st.tag()),
                format!("after {opk}: read({a},{}) = {e:?} but the model has extent {} hp {}", b - a, m.stack_extent, m.hp),
            ),
            Err(p) => viol(
                rep,
                st,
                format!("C23|read|panic|{}", p.site()),
                format!("after {opk}: read({a},{}) panicked: {}", b - a, p.text),
            ),
        }
    }
}

fn check_all(rep: &mut Report, st: &St, opk: &str) {
    rep.count("full_compares");
    check_window(rep, st, opk, 0, MEM);
}

/// verify() at the region boundaries
fn probes(rep: &mut Report, st: &St, opk: &str) {
    let m = &st.model;
    let (e, h) = (m.stack_extent, m.hp);
    let cand: [(u64, u64); 12] = [
        (0, e),
        (0, e + 1),
        (e.saturating_sub(1), 1),
        (e, 1),
        (e, 0),
        (h, MEM - h),
        (h.saturating_sub(1), MEM - h + 1),
        (h.saturating_sub(1), 1),
        (h, 0),
        (MEM - 1, 1),
        (MEM, 0),
        (MEM, 1),
    ];
    let mem = st.vm.memory();
    for (a, l) in cand {
        let want = m.access(a, l);
        let got = guarded(|| mem.verify(a, l).map(|r| (r.start() as u64, r.end() as u64)));
        rep.count("probe_verifies");
        let ok = match (&want, &got) {
            (Access::Ok, Ok(Ok((s, en)))) => *s == a && *en == a + l,
            (Access::Overflow, Ok(Err(PanicReason::MemoryOverflow))) => true,
            (Access::Uninit, Ok(Err(PanicReason::UninitalizedMemoryAccess))) => true,
            _ => false,
        };
        if !ok {
            let rel = relation(m, a, l);
            viol(
                rep,
                st,
                format!("C23|verify|{} expected, got {}|{rel}|after {opk}|{}", access_name(&want), outcome_of(&got), st.tag()),
                format!("after {opk}: verify({a},{l}) = {got:?}, model (extent {e}, hp {h}) says {want:?}"),
            );
        }
    }
}

fn after_change(rep: &mut Report, st: &St, opk: &str, lo: u64, hi: u64) {
    probes(rep, st, opk);
    let m = &st.model;
    if m.stack_extent + (MEM - m.hp) <= FULL_CHECK_LIMIT {
        check_all(rep, st, opk);
    } else {
        check_window(rep, st, opk, lo.saturating_sub(64), hi.saturating_add(64));
    }
}

fn interp_reason<E>(e: &InterpreterError<E>) -> Option<PanicReason> {
    match e {
        InterpreterError::PanicInstruction(pi) => Some(*pi.reason()),
        InterpreterError::Panic(r) => Some(*r),
        _ => None,
    }
}

/// execute one operation on both sides and judge it
fn exec(rep: &mut Report, st: &mut St, op: Op) {
    st.done.push(op.clone());
    let opk = op.kind();
    rep.count(&format!("op_{opk}"));
    let reset_tag = if st.after_reset { "reused" } else { "fresh" };
    match op {
        Op::GrowStack(n) => {
            rep.eval();
            let old_ext = st.model.stack_extent;
            let rel = if n <= old_ext { "stack" } else { relation(&st.model, old_ext, n - old_ext) };
            let want = st.model.grow_stack(n);
            let got = guarded(|| st.vm.memory_mut().grow_stack(n));
            rep.class(format!("{opk}|{rel}|{reset_tag}|{}", outcome_of(&got)));
            let ok = match (&want, &got) {
                (Ok(()), Ok(Ok(()))) => true,
                (Err(true), Ok(Err(PanicReason::MemoryOverflow))) => true,
                (Err(false), Ok(Err(PanicReason::MemoryGrowthOverlap))) => true,
                _ => false,
            };
            if !ok {
                viol(
                    rep,
                    st,
                    format!("C23|grow_stack|model {} got {}|{rel}|{}", gs_name(&want), outcome_of(&got), st.tag()),
                    format!("grow_stack({n}) = {got:?}; model (extent {old_ext}, hp {}) says {want:?}", st.model.hp),
                );
                if got.is_err() {
                    st.dead.set(true);
                }
                // resynchronise on a plain disagreement is not possible
                st.dead.set(true);
                return;
            }
            if want.is_ok() {
                st.sp = n;
            }
            after_change(rep, st, opk, old_ext, st.model.stack_extent);
        }
        Op::SetSp(n) => {
            st.sp = n;
        }
        Op::GrowHeap { sp, amount } => {
            rep.eval();
            let (old_hp, old_ext) = (st.model.hp, st.model.stack_extent);
            let rel = if amount > old_hp { "beyond" } else { relation(&st.model, old_hp - amount, amount) };
            let want = st.model.grow_heap(sp, amount);
            let mut hpw = st.hp_reg;
            let got = guarded(|| {
                st.vm
                    .memory_mut()
                    .grow_heap_by(Reg::<SP>::new(&sp), RegMut::<HP>::new(&mut hpw), amount)
            });
            rep.class(format!("{opk}|{rel}|{reset_tag}|{}", outcome_of(&got)));
            if rel == "straddle" && want.is_ok() {
                rep.count("heap_overtook_stack_extent");
            }
            let ok = match (&want, &got) {
                (Ok(()), Ok(Ok(()))) => true,
                (Err(true), Ok(Err(PanicReason::MemoryOverflow))) => true,
                (Err(false), Ok(Err(PanicReason::MemoryGrowthOverlap))) => true,
                _ => false,
            };
            if !ok {
                viol(
                    rep,
                    st,
                    format!("C23|grow_heap_by|model {} got {}|{rel}|{}", gs_name(&want), outcome_of(&got), st.tag()),
                    format!("grow_heap_by(sp={sp}, amount={amount}) = {got:?}; model (extent {old_ext}, hp {old_hp}) says {want:?}"),
                );
                st.dead.set(true);
                return;
            }
            if hpw != st.model.hp {
                viol(
                    rep,
                    st,
                    format!("C23|grow_heap_by|hp register != model hp|{rel}|{}", st.tag()),
                    format!("grow_heap_by(sp={sp}, amount={amount}): $hp = {hpw}, model hp = {}", st.model.hp),
                );
                st.dead.set(true);
                return;
            }
            st.hp_reg = hpw;
            after_change(rep, st, opk, st.model.hp, old_hp);
        }
        Op::Verify(a, l) => {
            rep.eval();
            let rel = relation(&st.model, a, l);
            let want = st.model.access(a, l);
            let mem = st.vm.memory();
            let got = guarded(|| mem.verify(a, l).map(|r| (r.start() as u64, r.end() as u64)));
            rep.class(format!("{opk}|{rel}|{reset_tag}|{}", outcome_of(&got)));
            if unspecified_empty(&st.model, a, l) && got.is_ok() {
                rep.count("unspecified_empty_range_in_gap");
                return;
            }
            let ok = match (&want, &got) {
                (Access::Ok, Ok(Ok((s, e)))) => *s == a && *e == a + l,
                (Access::Overflow, Ok(Err(PanicReason::MemoryOverflow))) => true,
                (Access::Uninit, Ok(Err(PanicReason::UninitalizedMemoryAccess))) => true,
                _ => false,
            };
            if !ok {
                viol(
                    rep,
                    st,
                    format!("C23|verify|{} expected, got {}|{rel}|{}", access_name(&want), outcome_of(&got), st.tag()),
                    format!("verify({a},{l}) = {got:?}; model (extent {}, hp {}) says {want:?}", st.model.stack_extent, st.model.hp),
                );
            }
        }
        Op::Read(a, l) => {
            rep.eval();
            let rel = relation(&st.model, a, l);
            let want = st.model.access(a, l);
            let mem = st.vm.memory();
            let m = &st.model;
            // `usize` arguments here, `Word` arguments in verify/read_bytes
            let got = guarded(|| {
                let (au, lu) = (a as usize, l as usize);
                mem.read(au, lu).map(|s| (s.len() as u64, if want == Access::Ok { m.first_diff(a, s) } else { None }))
            });
            rep.class(format!("{opk}|{rel}|{reset_tag}|{}", outcome_of(&got)));
            if unspecified_empty(&st.model, a, l) && got.is_ok() {
                rep.count("unspecified_empty_range_in_gap");
                return;
            }
            let ok = match (&want, &got) {
                (Access::Ok, Ok(Ok((n, None)))) => *n == l,
                (Access::Overflow, Ok(Err(PanicReason::MemoryOverflow))) => true,
                (Access::Uninit, Ok(Err(PanicReason::UninitalizedMemoryAccess))) => true,
                _ => false,
            };
            if !ok {
                let detail = match &got {
                    Ok(Ok((_, Some(_)))) => "bytes differ from model".to_string(),
                    Ok(Ok((_, None))) => "wrong length".to_string(),
                    _ => format!("{} expected, got {}", access_name(&want), outcome_of(&got)),
                };
                viol(
                    rep,
                    st,
                    format!("C23|read|{detail}|{rel}|{}", st.tag()),
                    format!("read({a},{l}) = {got:?} (len, first differing address); model (extent {}, hp {}) says {want:?}", m.stack_extent, m.hp),
                );
            }
        }
        Op::Read8(a) => {
            rep.eval();
            let rel = relation(&st.model, a, 8);
            let want = st.model.access(a, 8);
            let mem = st.vm.memory();
            let got = guarded(|| mem.read_bytes::<u64, 8>(a));
            rep.class(format!("{opk}|{rel}|{reset_tag}|{}", outcome_of(&got)));
            let ok = match (&want, &got) {
                (Access::Ok, Ok(Ok(b))) => b[..] == st.model.read_vec(a, 8)[..],
                (Access::Overflow, Ok(Err(PanicReason::MemoryOverflow))) => true,
                (Access::Uninit, Ok(Err(PanicReason::UninitalizedMemoryAccess))) => true,
                _ => false,
            };
            if !ok {
                viol(
                    rep,
                    st,
                    format!(
                        "C23|read_bytes|{}|{rel}|{}",
                        if want == Access::Ok && matches!(got, Ok(Ok(_))) { "bytes differ from model".to_string() } else { format!("{} expected, got {}", access_name(&want), outcome_of(&got)) },
                        st.tag()
                    ),
                    format!("read_bytes::<8>({a}) = {got:?}; model says {want:?}"),
                );
            }
        }
        Op::Write { addr, len, pat } => {
            rep.eval();
            let rel = relation(&st.model, addr, len);
            let want = st.model.access(addr, len);
            let data = if want == Access::Ok { pattern(pat, len as usize) } else { vec![] };
            let got = guarded(|| {
                st.vm.memory_mut().write_noownerchecks(addr as usize, len as usize).map(|s| {
                    let n = s.len();
                    if n == data.len() {
                        s.copy_from_slice(&data);
                    }
                    n as u64
                })
            });
            rep.class(format!("{opk}|{rel}|{reset_tag}|{}", outcome_of(&got)));
            if unspecified_empty(&st.model, addr, len) && got.is_ok() {
                rep.count("unspecified_empty_range_in_gap");
                return;
            }
            let ok = match (&want, &got) {
                (Access::Ok, Ok(Ok(n))) => *n == len,
                (Access::Overflow, Ok(Err(PanicReason::MemoryOverflow))) => true,
                (Access::Uninit, Ok(Err(PanicReason::UninitalizedMemoryAccess))) => true,
                _ => false,
            };
            if !ok {
                viol(
                    rep,
                    st,
                    format!("C23|write_noownerchecks|{} expected, got {}|{rel}|{}", access_name(&want), outcome_of(&got), st.tag()),
                    format!("write_noownerchecks({addr},{len}) = {got:?}; model (extent {}, hp {}) says {want:?}", st.model.stack_extent, st.model.hp),
                );
                if got.is_err() {
                    st.dead.set(true);
                }
                return;
            }
            if want == Access::Ok {
                st.model.write_bulk(addr, &data);
                after_change(rep, st, opk, addr, addr + len);
            }
        }
        Op::Write8 { addr, pat } => {
            rep.eval();
            let rel = relation(&st.model, addr, 8);
            let want = st.model.access(addr, 8);
            let mut data = [0u8; 8];
            data.copy_from_slice(&pattern(pat, 8));
            let got = guarded(|| st.vm.memory_mut().write_bytes_noownerchecks(addr, data));
            rep.class(format!("{opk}|{rel}|{reset_tag}|{}", outcome_of(&got)));
            let ok = match (&want, &got) {
                (Access::Ok, Ok(Ok(()))) => true,
                (Access::Overflow, Ok(Err(PanicReason::MemoryOverflow))) => true,
                (Access::Uninit, Ok(Err(PanicReason::UninitalizedMemoryAccess))) => true,
                _ => false,
            };
            if !ok {
                viol(
                    rep,
                    st,
                    format!("C23|write_bytes_noownerchecks|{} expected, got {}|{rel}|{}", access_name(&want), outcome_of(&got), st.tag()),
                    format!("write_bytes_noownerchecks({addr}, 8 bytes) = {got:?}; model says {want:?}"),
                );
                if got.is_err() {
                    st.dead.set(true);
                }
                return;
            }
            if want == Access::Ok {
                st.model.write_bulk(addr, &data);
                after_change(rep, st, opk, addr, addr + 8);
            }
        }
        Op::Reset => {
            rep.eval();
            let got = guarded(|| st.vm.memory_mut().reset());
            st.model.reset();
            st.sp = 0;
            st.hp_reg = MEM;
            st.snaps.clear();
            st.after_reset = true;
            rep.class(format!("{opk}|-|reused|{}", if got.is_ok() { "ok" } else { "panic" }));
            if let Err(p) = got {
                viol(rep, st, format!("C23|reset|panic|{}", p.site()), p.text);
                st.dead.set(true);
                return;
            }
            probes(rep, st, opk);
        }
        Op::Snap => {
            let mem = st.vm.memory().clone();
            st.snaps.push(Snapshot { mem, model: st.model.clone(), sp: st.sp });
        }
        Op::EqSnap(i) => {
            let Some(s) = st.snaps.get(i) else {
                rep.count("skipped_no_such_snapshot");
                return;
            };
            rep.eval();
            let want = st.model.same_as(&s.model);
            let mem = st.vm.memory();
            let got = guarded(|| mem == &s.mem);
            rep.class(format!("{opk}|-|{reset_tag}|{}", match &got { Ok(b) => b.to_string(), Err(_) => "panic".into() }));
            match got {
                Ok(b) if b == want => {}
                Ok(b) => viol(
                    rep,
                    st,
                    format!("C23|eq|== returned {b}, model {want}|{}", st.tag()),
                    format!("memory == snapshot[{i}] returned {b}; model: extent {} vs {}, hp {} vs {}, same contents: {want}",
                        st.model.stack_extent, s.model.stack_extent, st.model.hp, s.model.hp),
                ),
                Err(p) => viol(rep, st, format!("C23|eq|panic|{}", p.site()), p.text),
            }
        }
        Op::Rollback(i) => {
            let Some(s) = st.snaps.get(i) else {
                rep.count("skipped_no_such_snapshot");
                return;
            };
            // documented precondition: the heap only shrinks on rollback
            if s.model.hp < st.model.hp {
                rep.count("skipped_rollback_precondition");
                return;
            }
            rep.eval();
            let shape = if st.model.stack_extent < s.model.stack_extent {
                rep.count("rollback_after_heap_overtook_snapshot_stack");
                "heap overtook snapshot stack extent"
            } else if st.model.stack_extent > s.model.stack_extent {
                "stack grew since snapshot"
            } else {
                "same stack extent"
            };
            let heap_shape = if st.model.hp < s.model.hp { "heap grew" } else { "same hp" };
            let mem = st.vm.memory();
            let data = guarded(|| mem.collect_rollback_data(&s.mem));
            let data = match data {
                Ok(d) => d,
                Err(p) => {
                    rep.class(format!("{opk}|{shape},{heap_shape}|{reset_tag}|panic in collect_rollback_data"));
                    viol(
                        rep,
                        st,
                        format!("C23|collect_rollback_data|panic|{shape}"),
                        format!(
                            "collect_rollback_data(&snapshot[{i}]) panicked ({}) although snapshot hp {} >= current hp {}; current stack extent {}, snapshot stack extent {}",
                            p.text, s.model.hp, st.model.hp, st.model.stack_extent, s.model.stack_extent
                        ),
                    );
                    // &self call: the instance is untouched, the history continues
                    // without the rollback
                    st.dead.set(false);
                    return;
                }
            };
            let had_data = data.is_some();
            if let Some(d) = data {
                let r = guarded(|| st.vm.memory_mut().rollback(&d));
                if let Err(p) = r {
                    rep.class(format!("{opk}|{shape},{heap_shape}|{reset_tag}|panic in rollback"));
                    viol(
                        rep,
                        st,
                        format!("C23|rollback|panic|{shape}"),
                        format!("rollback(data) panicked: {}; current (extent {}, hp {}), snapshot (extent {}, hp {})",
                            p.text, st.model.stack_extent, st.model.hp, s.model.stack_extent, s.model.hp),
                    );
                    st.dead.set(true);
                    return;
                }
            }
            rep.count("rollbacks_done");
            rep.class(format!("{opk}|{shape},{heap_shape}|{reset_tag}|{}", if had_data { "restored" } else { "no data (equal)" }));
            let s = &st.snaps[i];
            st.model = s.model.clone();
            st.sp = s.sp;
            st.hp_reg = st.model.hp;
            let eq = {
                let mem = st.vm.memory();
                guarded(|| mem == &s.mem)
            };
            match eq {
                Ok(true) => {}
                Ok(false) => viol(
                    rep,
                    st,
                    format!("C23|rollback|result != snapshot (==)|{shape}"),
                    format!("after rollback to snapshot[{i}] (data present: {had_data}) memory != snapshot"),
                ),
                Err(p) => viol(rep, st, format!("C23|eq|panic|{}", p.site()), p.text),
            }
            st.snaps.truncate(i + 1);
            probes(rep, st, opk);
            check_all(rep, st, opk);
        }
        Op::Mcp { dst, src, len, imm } => {
            rep.eval();
            let m = &st.model;
            let (d, s) = (m.access(dst, len), m.access(src, len));
            let rel = relation(m, dst, len);
            let share = len > 0
                && dst.checked_add(len).is_some()
                && src.checked_add(len).is_some()
                && dst < src + len
                && src < dst + len;
            {
                let (ext, hp) = (m.stack_extent, m.hp);
                let regs = st.vm.registers_mut();
                regs[RegId::SSP.to_u8() as usize] = 0;
                regs[RegId::SP.to_u8() as usize] = ext;
                regs[RegId::HP.to_u8() as usize] = hp;
                regs[RegId::FP.to_u8() as usize] = 0;
                regs[RegId::PC.to_u8() as usize] = 0;
                regs[RegId::IS.to_u8() as usize] = 0;
                regs[RegId::CGAS.to_u8() as usize] = GAS;
                regs[RegId::GGAS.to_u8() as usize] = GAS;
                regs[0x10] = dst;
                regs[0x11] = src;
                regs[0x12] = len;
            }
            let ins = if imm { op::mcpi(0x10, 0x11, (len & 0xfff) as u16) } else { op::mcp(0x10, 0x11, 0x12) };
            let got = guarded(|| st.vm.instruction::<_, false>(ins));
            let got: Result<Result<(), PanicReason>, Panicked> = match got {
                Err(p) => Err(p),
                Ok(Ok(ExecuteState::Proceed)) => Ok(Ok(())),
                Ok(Ok(other)) => {
                    viol(rep, st, format!("C23|{opk}|unexpected execute state"), format!("{other:?}"));
                    return;
                }
                Ok(Err(e)) => match interp_reason(&e) {
                    Some(r) => Ok(Err(r)),
                    None => {
                        rep.count("unspecified_mcp_non_panic_error");
                        return;
                    }
                },
            };
            let relation_kind = if d != Access::Ok || s != Access::Ok {
                "inaccessible"
            } else if share {
                "share a byte"
            } else if len == 0 {
                "empty"
            } else {
                "disjoint"
            };
            rep.class(format!("{opk}|dst {rel},{relation_kind}|{reset_tag}|{}", outcome_of(&got)));
            let m = &st.model;
            if len > (1 << 28) && matches!(got, Ok(Err(PanicReason::OutOfGas))) {
                rep.count("unspecified_mcp_out_of_gas");
                return;
            }
            match relation_kind {
                "inaccessible" => {
                    let mut allowed = vec![];
                    for a in [&d, &s] {
                        match a {
                            Access::Overflow => allowed.push(PanicReason::MemoryOverflow),
                            Access::Uninit => allowed.push(PanicReason::UninitalizedMemoryAccess),
                            Access::Ok => {}
                        }
                    }
                    let empty_gap = unspecified_empty(m, dst, len) || unspecified_empty(m, src, len);
                    match &got {
                        Ok(Err(r)) if allowed.contains(r) => {}
                        Ok(_) if empty_gap => rep.count("unspecified_empty_range_in_gap"),
                        _ => viol(
                            rep,
                            st,
                            format!("C23|{opk}|inaccessible range: expected {allowed:?}, got {}|{}", outcome_of(&got), st.tag()),
                            format!("{opk} dst={dst} src={src} len={len}: {got:?}; model dst {d:?}, src {s:?} (extent {}, hp {})", m.stack_extent, m.hp),
                        ),
                    }
                }
                "share a byte" => match &got {
                    Ok(Err(PanicReason::MemoryWriteOverlap)) => {}
                    _ => viol(
                        rep,
                        st,
                        format!("C23|{opk}|ranges sharing a byte not refused with MemoryWriteOverlap: {}|{}|{}",
                            outcome_of(&got), if src > dst { "src above dst" } else if src < dst { "src below dst" } else { "identical" }, st.tag()),
                        format!("{opk} dst={dst} src={src} len={len}: {got:?}"),
                    ),
                },
                "empty" => match &got {
                    // ownership of empty ranges is C24's subject
                    Ok(Ok(())) | Ok(Err(PanicReason::MemoryOwnership)) => rep.count("mcp_empty"),
                    _ => viol(
                        rep,
                        st,
                        format!("C23|{opk}|empty accessible copy: {}|{}", outcome_of(&got), st.tag()),
                        format!("{opk} dst={dst} src={src} len=0: {got:?}"),
                    ),
                },
                _ => match &got {
                    Ok(Ok(())) => {
                        let data = st.model.read_vec(src, len);
                        st.model.write_bulk(dst, &data);
                        rep.count("mcp_copied");
                    }
                    _ => {
                        viol(
                            rep,
                            st,
                            format!("C23|{opk}|disjoint accessible copy refused: {}|{}", outcome_of(&got), st.tag()),
                            format!("{opk} dst={dst} src={src} len={len}: {got:?} (ssp=0, sp=extent {}, hp {})", st.model.stack_extent, st.model.hp),
                        );
                        if got.is_err() {
                            st.dead.set(true);
                        }
                        return;
                    }
                },
            }
            if got.is_err() {
                st.dead.set(true);
                return;
            }
            // success or refusal: the memory must now equal the model
            let (lo, hi) = (dst.min(MEM), dst.saturating_add(len).min(MEM));
            after_change(rep, st, opk, lo, hi);
        }
        Op::Check => {
            probes(rep, st, opk);
            check_all(rep, st, opk);
        }
    }
}

fn gs_name(r: &Result<(), bool>) -> &'static str {
    match r {
        Ok(()) => "ok",
        Err(true) => "MemoryOverflow",
        Err(false) => "MemoryGrowthOverlap",
    }
}

// ------------------------------------------------------------------ generation

#[derive(Clone, Copy, PartialEq)]
enum Scale {
    Small,
    Medium,
    Big,
}

impl Scale {
    fn cap(self) -> u64 {
        match self {
            Scale::Small => 48 << 10,
            Scale::Medium => 1 << 20,
            Scale::Big => MEM,
        }
    }
}

/// a size near 0, 8, 256, 2^k, the cap
fn size(rng: &mut Rng, cap: u64) -> u64 {
    let cap = cap.max(1);
    let v = match rng.below(10) {
        0 => 0,
        1 => *rng.pick(&[1u64, 7, 8, 9, 15, 16, 17, 31, 32, 33]),
        2 => *rng.pick(&[255u64, 256, 257, 511, 512, 513]),
        3 | 4 => {
            let kmax = 63 - cap.leading_zeros() as u64;
            let k = rng.range(0, kmax);
            ((1u64 << k) as i128 + rng.range(0, 2) as i128 - 1) as u64
        }
        5 => cap - rng.below(cap.min(10)),
        6 => rng.below(64),
        7 => rng.below(4096.min(cap)),
        _ => rng.below(cap),
    };
    v.min(cap)
}

/// a range of a chosen relation to the regions of `m`
fn gen_range(rng: &mut Rng, m: &RefMem, max_len: u64, want_ok: bool) -> (u64, u64) {
    let (e, h) = (m.stack_extent, m.hp);
    let kind = if want_ok { rng.below(2) } else { rng.below(10) };
    match kind {
        // stack
        0 | 6 if e > 0 => {
            let len = size(rng, e.min(max_len));
            let start = match rng.below(4) {
                0 => e - len,
                1 => 0,
                _ => rng.range(0, e - len),
            };
            (start, len)
        }
        // heap
        1 | 7 if h < MEM => {
            let len = size(rng, (MEM - h).min(max_len));
            let start = match rng.below(4) {
                0 => MEM - len,
                1 => h,
                _ => rng.range(h, MEM - len),
            };
            (start, len)
        }
        // gap
        2 if h > e => {
            let len = size(rng, (h - e).min(max_len));
            let start = match rng.below(4) {
                0 => e,
                1 => h - len,
                _ => rng.range(e, h - len),
            };
            (start, len)
        }
        // straddling the stack extent or the heap pointer by a little
        3 => {
            let b = if rng.bool() { e } else { h };
            let before = rng.range(0, 16.min(b));
            let after = rng.range(1, 16);
            (b - before, before + after)
        }
        // straddling by a lot / covering everything
        4 => match rng.below(3) {
            0 => (0, MEM),
            1 => (0, h.saturating_add(size(rng, 64)).min(MEM)),
            _ => {
                let s = rng.range(0, e);
                (s, (h - s).saturating_add(size(rng, 64)).min(max_len.max(1)))
            }
        },
        // beyond
        5 => match rng.below(6) {
            0 => (MEM, 1),
            1 => (MEM - rng.range(0, 8), 9),
            2 => (rng.word(), rng.word()),
            3 => (MEM + 1, 0),
            4 => (0, MEM + 1),
            _ => (u64::MAX - rng.below(3), rng.below(3)),
        },
        8 => (rng.below(MEM + 2), size(rng, max_len)),
        _ => {
            // nothing of the wanted kind exists (empty stack / heap): boundary points
            match rng.below(4) {
                0 => (e, 0),
                1 => (h, 0),
                2 => (MEM, 0),
                _ => (rng.below(MEM), size(rng, 64)),
            }
        }
    }
}

fn gen_op(rng: &mut Rng, st: &St, scale: Scale) -> Op {
    let m = &st.model;
    let (e, h) = (m.stack_extent, m.hp);
    let cap = scale.cap();
    let big = scale == Scale::Big;
    let mut roll = rng.below(100);
    if big && !st.snaps.is_empty() && matches!(roll, 57..=59 | 77..=79) {
        // more rollbacks in the histories in which the heap can reach the stack
        roll = 94;
    }
    match roll {
        0..=13 => {
            // grow the stack
            let n = match rng.below(12) {
                0 => h,
                1 => h + 1,
                2 => h.saturating_sub(size(rng, 64)),
                3 => MEM + rng.below(3),
                4 => rng.word(),
                5 => st.sp.saturating_sub(size(rng, 64)),
                _ => {
                    let room = cap.saturating_sub(e).min(h.saturating_sub(e));
                    e + size(rng, room.max(1))
                }
            };
            // only the 64 MiB histories may really allocate a lot
            let n = if !big && n <= h && n > e && n > cap { MEM + 1 + n % 5 } else { n };
            Op::GrowStack(n)
        }
        14..=19 => {
            // CFS: lower $sp (the extent stays), sometimes raise it back
            let n = match rng.below(4) {
                0 => 0,
                1 => e,
                _ => rng.range(0, st.sp.min(e)),
            };
            Op::SetSp(n)
        }
        20..=34 => {
            let sp = match rng.below(10) {
                0 => rng.word(),
                1 => e,
                _ => st.sp,
            };
            let overtake_target = st
                .snaps
                .iter()
                .map(|s| s.model.stack_extent)
                .chain([e])
                .max()
                .unwrap_or(e);
            let amount = match rng.below(14) {
                0 => h.wrapping_sub(sp),
                1 => h.wrapping_sub(sp).wrapping_add(1),
                2 => h + 1,
                3 => rng.word(),
                // grow across the (snapshot's) stack extent down to somewhere above $sp
                4..=6 if sp < overtake_target && overtake_target <= h && (big || h - sp <= 2 * cap) => {
                    h - rng.range(sp, overtake_target)
                }
                7 => 0,
                _ => {
                    let room = cap.saturating_sub(MEM - h).min(h.saturating_sub(sp));
                    size(rng, room.max(1))
                }
            };
            let succeeds = amount <= h && h - amount >= sp;
            let amount = if !big && succeeds && MEM - (h - amount) > cap { h + 1 + amount % 5 } else { amount };
            Op::GrowHeap { sp, amount }
        }
        35..=44 => {
            let max = if rng.chance(1, 10) { MEM } else { 1 << 20 };
            let (a, l) = gen_range(rng, m, max, false);
            Op::Verify(a, l)
        }
        45..=56 => {
            let max = if rng.chance(1, 20) { MEM } else { 1 << 20 };
            let (a, l) = gen_range(rng, m, max, false);
            Op::Read(a, l)
        }
        57..=59 => {
            let ok = rng.chance(2, 3);
            let (a, _) = gen_range(rng, m, 64, ok);
            Op::Read8(a)
        }
        60..=76 => {
            let max = if rng.chance(1, 30) { 1 << 20 } else { 4096 };
            let ok = rng.chance(5, 6);
            let (addr, len) = gen_range(rng, m, max, ok);
            Op::Write { addr, len, pat: rng.u64() }
        }
        77..=79 => {
            let ok = rng.chance(2, 3);
            let (a, _) = gen_range(rng, m, 64, ok);
            Op::Write8 { addr: a, pat: rng.u64() }
        }
        80..=86 => {
            let imm = rng.chance(1, 3);
            let lmax = if imm { 4095 } else if rng.chance(1, 20) { 1 << 20 } else { 2048 };
            let ok = rng.chance(7, 8);
            let (dst, len) = gen_range(rng, m, lmax, ok);
            let src = match rng.below(10) {
                // overlapping from above / below, adjacent, identical
                0 => dst.saturating_add(rng.range(0, len.saturating_sub(1))),
                1 => dst.saturating_sub(rng.range(0, len.saturating_sub(1))),
                2 => dst.saturating_add(len),
                3 => dst.saturating_sub(len),
                4 => dst,
                5 => dst.saturating_add(len.saturating_sub(1)),
                6 => dst.saturating_sub(len.saturating_sub(1)),
                _ => {
                    let ok = rng.chance(7, 8);
                    let (s, _) = gen_range(rng, m, len.max(1), ok);
                    s
                }
            };
            Op::Mcp { dst, src, len: if imm { len & 0xfff } else { len }, imm }
        }
        87..=89 => Op::Reset,
        90..=93 => {
            let limit = if big { 1 } else { 4 };
            if st.snaps.len() < limit { Op::Snap } else { Op::EqSnap(rng.usize_below(st.snaps.len())) }
        }
        94..=97 => {
            let ok: Vec<usize> = (0..st.snaps.len()).filter(|i| st.snaps[*i].model.hp >= h).collect();
            if ok.is_empty() { Op::Check } else { Op::Rollback(*rng.pick(&ok)) }
        }
        98 => {
            if st.snaps.is_empty() { Op::Check } else { Op::EqSnap(rng.usize_below(st.snaps.len())) }
        }
        _ => Op::Check,
    }
}

fn scale_of(index: u64, thorough: bool) -> Scale {
    // deterministic in the history index; the 64 MiB histories are a minority
    let big_every = if thorough { 160 } else { 80 };
    if index % big_every == 7 {
        Scale::Big
    } else if index % 8 == 3 {
        Scale::Medium
    } else {
        Scale::Small
    }
}

fn run_history(rep: &mut Report, vm: Vm, seed: u64, index: u64, thorough: bool) -> Vm {
    let mut rng = Rng::derive(seed, 23, index);
    let scale = scale_of(index, thorough);
    let n_ops = match scale {
        Scale::Big => rng.range(1, 30),
        _ => {
            if rng.chance(1, 4) { rng.range(1, 20) } else { rng.range(1, 200) }
        }
    };
    let info = json!({"seed": seed, "index": index, "scale": match scale { Scale::Small => "small", Scale::Medium => "medium", Scale::Big => "big" }});
    let mut st = St::new(vm, info);
    let framed = scale == Scale::Big && rng.chance(1, 2);
    if framed {
        // a frame is pushed, written, snapshotted and popped before the random part
        let a = 1 + size(&mut rng, 1 << 16);
        let wl = size(&mut rng, a);
        let pre = [
            Op::GrowStack(a),
            Op::Write { addr: a - wl, len: wl, pat: rng.u64() },
            Op::Snap,
            Op::SetSp(rng.range(0, a)),
        ];
        for op in pre {
            exec(rep, &mut st, op);
        }
    }
    for _ in 0..n_ops {
        let op = gen_op(&mut rng, &st, scale);
        exec(rep, &mut st, op);
        if st.dead.get() {
            rep.count("histories_aborted");
            break;
        }
    }
    if framed && !st.dead.get() && !st.snaps.is_empty() {
        // finale of a framed history: allocate down into the popped frame (when the random
        // part has not done so and it is still possible), then roll back to the oldest
        // snapshot if the documented precondition allows it
        let target = st.snaps[0].model.stack_extent;
        let (sp, h) = (st.sp, st.model.hp);
        if rng.bool() && sp < target && target <= h {
            let new_hp = rng.range(sp, target - 1);
            exec(rep, &mut st, Op::GrowHeap { sp, amount: h - new_hp });
        }
        if !st.dead.get() && !st.snaps.is_empty() && st.snaps[0].model.hp >= st.model.hp {
            exec(rep, &mut st, Op::Rollback(0));
        }
    }
    if !st.dead.get() {
        exec(rep, &mut st, Op::Check);
    }
    rep.count("histories");
    rep.count(match scale {
        Scale::Small => "histories_small",
        Scale::Medium => "histories_medium",
        Scale::Big => "histories_big_64MiB",
    });
    rep.max("max_history_len", st.done.len() as u64);
    if st.done.len() <= 14 && st.done.len() >= 6 && st.after_reset {
        rep.sample(|| st.replay());
    }
    // release the big buffers
    *st.vm.memory_mut() = MemoryInstance::new();
    st.vm
}

fn run_replay(rec: &Value) -> Report {
    let mut rep = Report::new();
    let ops: Vec<Op> = rec
        .get("ops")
        .and_then(|o| o.as_array())
        .map(|a| a.iter().filter_map(Op::from_json).collect())
        .unwrap_or_default();
    if ops.is_empty() {
        rep.inconclusive = Some("replay record has no operations".into());
        return rep;
    }
    let mut st = St::new(Vm::with_memory_storage(), rec.get("info").cloned().unwrap_or(Value::Null));
    let n = ops.len();
    for op in ops {
        exec(&mut rep, &mut st, op);
        if st.dead.get() {
            break;
        }
    }
    rep.note(format!(
        "replayed {} of {n} operations; final model state: stack extent {}, hp {}",
        st.done.len(),
        st.model.stack_extent,
        st.model.hp
    ));
    rep
}

const RULE: &str = "histories of 1..200 operations on one MemoryInstance (grow_stack, grow_heap_by, verify, read, read_bytes, write_noownerchecks, write_bytes_noownerchecks, MCP/MCPI through Interpreter::instruction, reset, clone-snapshots, collect_rollback_data+rollback, ==) against refmodel::mem; class = (operation, region relation of the range in {stack, heap, gap, straddle, beyond} resp. state relation for rollback/copy, fresh|reused instance, outcome)";

pub fn run(cfg: &Cfg) -> Report {
    if let Some(rec) = &cfg.replay {
        let mut rep = run_replay(rec);
        rep.rule = RULE.into();
        return rep;
    }
    let n = cfg.budget(5_000, 200_000);
    // histories are handed out dynamically (each one is a function of (seed, index) only)
    // the expensive 64 MiB histories are started first
    let mut order: Vec<u64> = (0..n).collect();
    order.sort_by_key(|i| match scale_of(*i, cfg.thorough) {
        Scale::Big => 0,
        Scale::Medium => 1,
        Scale::Small => 2,
    });
    let next = std::sync::atomic::AtomicU64::new(0);
    let mut rep = par(cfg.threads, |_w| {
        let mut rep = Report::new();
        let mut vm = Vm::with_memory_storage();
        loop {
            let k = next.fetch_add(1, std::sync::atomic::Ordering::Relaxed);
            if k >= n {
                break;
            }
            let i = order[k as usize];
            let sc = scale_of(i, cfg.thorough);
            let skip = match cfg.opt("only") {
                Some("big") => sc != Scale::Big,
                Some("medium") => sc != Scale::Medium,
                Some("small") => sc != Scale::Small,
                Some("nobig") => sc == Scale::Big,
                _ => false,
            };
            if skip {
                continue;
            }
            vm = run_history(&mut rep, vm, cfg.seed, i, cfg.thorough);
        }
        rep
    });
    rep.rule = RULE.into();
    rep.assume("reference: refmodel::mem (flat 64 MiB zero-initialised array, accessible(start,len) <=> start+len <= 2^26 and (end <= stack_extent or start >= hp); heap growth zeroes the new bytes and clips the stack extent; reset = (0, 2^26))");
    rep.assume("rollback is only requested to snapshots taken since the last reset, in stack discipline (snapshots younger than the rollback target are dropped), and only when snapshot.hp >= current hp (documented precondition)");
    rep.assume("MCP/MCPI are executed with $ssp=0, $sp=stack extent, $hp=hp so that every accessible non-empty destination is owned; ownership itself is C24's subject");
    rep.note("empty ranges strictly inside the gap are counted as unspecified (unspecified_empty_range_in_gap), not judged");
    rep.note("with equal lengths each of the four clauses of memcopy's overlap test is implied by another one (1 by 4, 2 by 3), so removing a single clause is not observable; removing such a pair is (validated)");
    for k in [
        "grow_stack", "grow_heap_by", "verify", "read", "read_bytes", "write_noownerchecks",
        "write_bytes_noownerchecks", "reset", "rollback", "eq", "MCP", "MCPI",
    ] {
        let c = rep.counter(&format!("op_{k}"));
        rep.gate(&format!("op_{k}"), c, 1);
    }
    let c = rep.counter("rollback_after_heap_overtook_snapshot_stack");
    rep.gate("rollback_after_heap_overtook_snapshot_stack", c, 1);
    let c = rep.counter("mcp_copied");
    rep.gate("mcp_copied", c, 1);
    let c = rep.counter("histories_big_64MiB");
    rep.gate("histories_big_64MiB", c, 1);
    rep.gate("classes", rep.classes.len() as u64, 60);
    rep
}
