//! C32 Breakpoints and single-stepping do not change execution results.
use super::grp_e::{
    Drive,
    drive,
    outcomes_equal,
    replay_record,
};
use crate::{
    Cfg,
    Report,
    Rng,
    guarded,
    par,
    scenario::{
        self,
        ScenarioOpts,
    },
    stepbus::{
        BusOpts,
        Step,
        StepEnd,
        StepMonitor,
    },
    world::{
        World,
        new_vm,
        outcome_of,
        run_plain,
    },
};
use fuel_types::ContractId;
use fuel_vm::state::{
    Breakpoint,
    DebugEval,
    ProgramState,
};
use serde_json::json;

/// checks on single-stepping events: the event location is the location of the next
/// instruction (contract of the active frame, `$pc - $is`)
struct EventLoc;

fn active_contract(s: &crate::stepbus::Snap) -> Option<ContractId> {
    if s.fp() == 0 {
        return Some(ContractId::zeroed());
    }
    let b = s.bytes(s.fp(), 32)?;
    Some(ContractId::new(b.try_into().ok()?))
}

impl StepMonitor for EventLoc {
    fn on_step(&mut self, _w: &World, s: &Step, rep: &mut Report) {
        if !matches!(s.end, StepEnd::Continue) {
            return;
        }
        let Some((c, pc)) = s.event else {
            rep.violation("C32|single-stepping|suspended without a breakpoint location", format!("step {}", s.index), || json!(null));
            return;
        };
        rep.count("events_checked");
        let want_pc = s.post.pc().saturating_sub(s.post.is());
        if pc != want_pc {
            rep.violation("C32|single-stepping|event pc != $pc-$is of the next instruction", format!("event pc {pc}, registers give {want_pc} at step {}", s.index), || json!(null));
        }
        if let Some(ac) = active_contract(s.post) {
            if ac != c {
                rep.violation("C32|single-stepping|event contract != active contract", format!("event {c}, frame {ac} at step {}", s.index), || json!(null));
            }
        }
    }
}

/// breakpoint mode: random breakpoint sets, resume until completion, compare with the
/// plain run; every event must be at a location that is in the set and two consecutive
/// events at the same location need an executed instruction in between
fn breakpoint_case(cfg: &Cfg, worker: u64, idx: u64, rep: &mut Report) {
    let mut rng = Rng::derive(cfg.seed ^ (0x32b << 32), worker, idx);
    let o = ScenarioOpts { schedule: if idx % 4 == 3 { 1 } else { 0 }, ..Default::default() };
    let sc = scenario::build(&mut rng, &o);
    let replay = replay_record(cfg.seed, 0x32b, worker, idx, &sc);
    let Ok(ready) = sc.spec.ready(&sc.world, idx) else {
        rep.count("generated_tx_rejected_by_checks");
        return;
    };
    rep.eval();
    let (plain, _) = run_plain(&sc.world, ready.clone());
    // breakpoint set: script offsets (dense near the start, incl. loop heads), and
    // offsets inside every contract
    let mut bps: Vec<Breakpoint> = vec![];
    let n_script = sc.spec.script.len() as u64 / 4;
    let nb = 1 + rng.below(8);
    for _ in 0..nb {
        bps.push(Breakpoint::script(rng.below(n_script.clamp(1, 200))));
    }
    for c in sc.world.contracts.iter() {
        let n = (c.code.len() as u64 / 4).max(1);
        for _ in 0..rng.below(4) {
            bps.push(Breakpoint::new(c.id, rng.below(n.min(120))));
        }
    }
    let mut vm = new_vm(&sc.world);
    for b in &bps {
        vm.set_breakpoint(*b);
    }
    let mut events = 0u64;
    let mut last: Option<(Breakpoint, u64)> = None; // (location, $ggas at the event)
    let mut cur = match guarded(|| vm.transact(ready).map(|s| *s.state())) {
        Ok(Ok(s)) => Ok(s),
        Ok(Err(e)) => Err(format!("{e:?}")),
        Err(p) => Err(format!("HOST PANIC: {}", p.text)),
    };
    let default_schedule = o.schedule == 0;
    loop {
        match &cur {
            Ok(ProgramState::RunProgram(DebugEval::Breakpoint(b))) => {
                events += 1;
                if !bps.contains(b) {
                    rep.violation("C32|breakpoints|event at a location that is not a breakpoint", format!("{b:?}"), || replay.clone());
                }
                let ggas = vm.registers()[fuel_asm::RegId::GGAS];
                if let Some((lb, lg)) = last {
                    if lb == *b && lg == ggas && default_schedule {
                        rep.violation("C32|breakpoints|same location reported twice without an executed instruction", format!("{b:?} ggas {ggas}"), || replay.clone());
                    }
                }
                last = Some((*b, ggas));
                if events > 20_000 {
                    rep.count("runs_truncated_at_event_cap");
                    return;
                }
                cur = match guarded(|| vm.resume()) {
                    Ok(Ok(s)) => Ok(s),
                    Ok(Err(e)) => Err(format!("{e:?}")),
                    Err(p) => Err(format!("HOST PANIC: {}", p.text)),
                };
            }
            Ok(ProgramState::RunProgram(DebugEval::Continue)) | Ok(ProgramState::VerifyPredicate(_)) => {
                rep.violation("C32|breakpoints|suspended without a breakpoint", format!("{cur:?}"), || replay.clone());
                return;
            }
            _ => break,
        }
    }
    let dbg = outcome_of(&sc.world, &vm, cur);
    rep.count_n("breakpoint_events", events);
    rep.class(format!("breakpoints|events={}|{}", crate::bucket(events), if sc.world.contracts.len() > 1 { "calls" } else { "script-only" }));
    if let Some(diff) = outcomes_equal(&plain, &dbg) {
        rep.violation("C32|breakpoints|final result differs from plain run", diff, || replay.clone());
    }
    if idx == 0 && worker == 0 {
        rep.sample(|| json!({"mode":"breakpoints","case":replay,"breakpoints":bps.iter().map(|b| format!("{b:?}")).collect::<Vec<_>>(),"events":events}));
    }
}

pub fn run(cfg: &Cfg) -> Report {
    let opts = |idx: u64, _rng: &mut Rng| ScenarioOpts { schedule: (idx % 3 == 2) as u8, ..Default::default() };
    let mons = |_sc: &scenario::Scenario| -> Vec<Box<dyn StepMonitor>> { vec![Box::new(EventLoc)] };
    let d = Drive { prop: "C32", stream: 32, quick: 2500, thorough: 120_000, bus: BusOpts { capture_mem: true, max_steps: 30_000 }, opts: &opts, monitors: &mons, after: None };
    let mut rep = drive(cfg, &d);
    if cfg.replay.is_none() {
        let total = cfg.budget(2500, 120_000);
        let per = total / cfg.threads as u64;
        let r2 = par(cfg.threads, |w| {
            let mut r = Report::new();
            for i in 0..per {
                breakpoint_case(cfg, w as u64, i, &mut r);
            }
            r
        });
        rep.merge(r2);
        rep.gate("events_checked", rep.counter("events_checked"), 1000);
        rep.gate("breakpoint_events", rep.counter("breakpoint_events"), 100);
    }
    rep.rule = "generated scripts+contracts; mode A: single-stepping resumed to completion vs plain run (state, receipts, output tx, storage fingerprint) + event location = next instruction; mode B: random breakpoint sets (script and contract offsets) resumed to completion vs plain run, events only at set locations and never twice without progress. class = (mode, end state / events bucket)".into();
    rep
}
