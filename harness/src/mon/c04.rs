//! C04 Reported field offsets locate the field's bytes in the encoding.
use crate::{
    Cfg,
    Report,
    Rng,
    gen_tx::{
        self as g,
        FreeOpts,
    },
    guarded,
    hx,
    par,
    refmodel::canon::{
        self,
        Layout,
    },
    unhx,
};
use fuel_tx::{
    Cacheable,
    Input,
    InputRepr,
    Output,
    OutputRepr,
    Transaction,
    Witness,
    field::*,
};
use fuel_types::{
    ChainId,
    canonical::{
        Deserialize,
        Serialize,
    },
};
use serde_json::{
    Value,
    json,
};

struct Ctx<'a> {
    rep: &'a mut Report,
    kind: &'static str,
    cached: bool,
    layout: &'a Layout,
    bytes: &'a [u8],
    replay: &'a Value,
}

impl Ctx<'_> {
    /// offset API `api` returned `got`; the reference walker places the field at span `name`
    fn off(&mut self, api: &str, elem: &str, got: Option<usize>, name: &str) {
        self.rep.eval();
        let want = self.layout.get(name).map(|s| s.0);
        self.rep.class(format!("{}|{api}|{elem}|cached={}", self.kind, self.cached));
        if got != want {
            let kind = self.kind;
            let cached = self.cached;
            let replay = self.replay.clone();
            self.rep.violation(
                format!("C04|{kind}|{api}|{elem}|offset differs from the reference layout|cached={cached}"),
                format!("{api} -> {got:?}, reference places `{name}` at {want:?}"),
                || replay,
            );
        }
    }
    fn len(&mut self, api: &str, elem: &str, got: usize, name: &str) {
        self.rep.eval();
        let want = self.layout.get(name).map(|s| s.1);
        if Some(got) != want {
            let kind = self.kind;
            let replay = self.replay.clone();
            self.rep.violation(
                format!("C04|{kind}|{api}|{elem}|padded length differs from the reference layout"),
                format!("{api} length {got}, reference {want:?} for `{name}`"),
                || replay,
            );
        }
    }
    /// the bytes at the offset decode to the element
    fn decodes<T: Deserialize + PartialEq + std::fmt::Debug>(&mut self, api: &str, elem: &str, off: Option<usize>, want: &T) {
        let Some(o) = off else { return };
        self.rep.eval();
        let ok = o <= self.bytes.len() && matches!(guarded(|| T::from_bytes(&self.bytes[o..])), Ok(Ok(v)) if &v == want);
        if !ok {
            let kind = self.kind;
            let replay = self.replay.clone();
            self.rep.violation(
                format!("C04|{kind}|{api}|{elem}|bytes at the offset do not decode to the element"),
                format!("{api} -> {o}, expected {want:?}"),
                || replay,
            );
        }
    }
    fn raw(&mut self, api: &str, elem: &str, off: Option<usize>, want: &[u8]) {
        let Some(o) = off else { return };
        self.rep.eval();
        let ok = o.checked_add(want.len()).map(|e| e <= self.bytes.len() && &self.bytes[o..e] == want).unwrap_or(false);
        if !ok {
            let kind = self.kind;
            let replay = self.replay.clone();
            self.rep.violation(
                format!("C04|{kind}|{api}|{elem}|bytes at the offset are not the field's bytes"),
                format!("{api} -> {o}, expected {}", hx(&want[..want.len().min(48)])),
                || replay,
            );
        }
    }
}

fn check_input(c: &mut Ctx, i: usize, base: Option<usize>, inp: &Input) {
    let v = g::input_variant_name(inp);
    let r = InputRepr::from(inp);
    let rel = |o: Option<usize>| match (base, o) {
        (Some(b), Some(o)) => Some(b + o),
        _ => None,
    };
    let p = format!("inputs[{i}].");
    let is_coin = matches!(r, InputRepr::Coin);
    let is_msg = matches!(r, InputRepr::Message);
    let is_con = matches!(r, InputRepr::Contract);
    if is_coin || is_con {
        c.off("InputRepr::utxo_id_offset", v, rel(r.utxo_id_offset()), &format!("{p}utxo_id"));
        c.off("InputRepr::tx_pointer_offset", v, rel(r.tx_pointer_offset()), &format!("{p}tx_pointer"));
    }
    if is_coin {
        c.off("InputRepr::owner_offset", v, rel(r.owner_offset()), &format!("{p}owner"));
        c.off("InputRepr::asset_id_offset", v, rel(r.asset_id_offset()), &format!("{p}asset_id"));
        c.off("InputRepr::coin_predicate_offset", v, rel(r.coin_predicate_offset()), &format!("{p}predicate"));
        c.raw("InputRepr::owner_offset", v, rel(r.owner_offset()), inp.input_owner().unwrap().as_ref());
    }
    if is_msg {
        c.off("InputRepr::owner_offset", v, rel(r.owner_offset()), &format!("{p}recipient"));
        c.off("InputRepr::message_sender_offset", v, rel(r.message_sender_offset()), &format!("{p}sender"));
        c.off("InputRepr::message_recipient_offset", v, rel(r.message_recipient_offset()), &format!("{p}recipient"));
        c.off("InputRepr::message_nonce_offset", v, rel(r.message_nonce_offset()), &format!("{p}nonce"));
        c.off("InputRepr::data_offset", v, rel(r.data_offset()), &format!("{p}data"));
        c.raw("InputRepr::message_nonce_offset", v, rel(r.message_nonce_offset()), inp.nonce().unwrap().as_ref());
        c.raw("InputRepr::data_offset", v, rel(r.data_offset()), inp.input_data().unwrap_or(&[]));
    }
    if is_con {
        c.off("InputRepr::contract_balance_root_offset", v, rel(r.contract_balance_root_offset()), &format!("{p}balance_root"));
        c.off("InputRepr::contract_state_root_offset", v, rel(r.contract_state_root_offset()), &format!("{p}state_root"));
        c.off("InputRepr::contract_id_offset", v, rel(r.contract_id_offset()), &format!("{p}contract_id"));
        c.raw("InputRepr::contract_id_offset", v, rel(r.contract_id_offset()), inp.contract_id().unwrap().as_ref());
    }
    if inp.input_predicate().is_some() {
        c.off("Input::predicate_offset", v, rel(inp.predicate_offset()), &format!("{p}predicate"));
        c.off("Input::predicate_data_offset", v, rel(inp.predicate_data_offset()), &format!("{p}predicate_data"));
        c.raw("Input::predicate_offset", v, rel(inp.predicate_offset()), inp.input_predicate().unwrap());
        c.raw("Input::predicate_data_offset", v, rel(inp.predicate_data_offset()), inp.input_predicate_data().unwrap());
    } else {
        c.rep.eval();
        if inp.predicate_offset().is_some() || inp.predicate_data_offset().is_some() {
            let replay = c.replay.clone();
            c.rep.violation(format!("C04|{}|Input::predicate_offset|{v}|offset reported for an input without predicate", c.kind), String::new(), || replay);
        }
    }
}

fn check_output(c: &mut Ctx, i: usize, base: Option<usize>, o: &Output) {
    let v = g::output_variant_name(o);
    let r = OutputRepr::from(o);
    let rel = |x: Option<usize>| match (base, x) {
        (Some(b), Some(x)) => Some(b + x),
        _ => None,
    };
    let p = format!("outputs[{i}].");
    match o {
        Output::Coin { to, asset_id, .. } | Output::Change { to, asset_id, .. } | Output::Variable { to, asset_id, .. } => {
            c.off("OutputRepr::to_offset", v, rel(r.to_offset()), &format!("{p}to"));
            c.off("OutputRepr::asset_id_offset", v, rel(r.asset_id_offset()), &format!("{p}asset_id"));
            c.raw("OutputRepr::to_offset", v, rel(r.to_offset()), to.as_ref());
            c.raw("OutputRepr::asset_id_offset", v, rel(r.asset_id_offset()), asset_id.as_ref());
        }
        Output::Contract(_) => {
            c.off("OutputRepr::contract_balance_root_offset", v, rel(r.contract_balance_root_offset()), &format!("{p}balance_root"));
            c.off("OutputRepr::contract_state_root_offset", v, rel(r.contract_state_root_offset()), &format!("{p}state_root"));
        }
        Output::ContractCreated { contract_id, .. } => {
            c.off("OutputRepr::contract_id_offset", v, rel(r.contract_id_offset()), &format!("{p}contract_id"));
            c.off("OutputRepr::contract_created_state_root_offset", v, rel(r.contract_created_state_root_offset()), &format!("{p}state_root"));
            c.raw("OutputRepr::contract_id_offset", v, rel(r.contract_id_offset()), contract_id.as_ref());
        }
    }
}

fn check_common<T>(c: &mut Ctx, t: &T)
where
    T: Inputs + Outputs + Witnesses + Policies,
{
    c.off("policies_offset", "-", Some(t.policies_offset()), "policies");
    if !t.inputs().is_empty() {
        c.off("inputs_offset", "-", Some(t.inputs_offset()), "inputs[0]");
    } else {
        c.off("inputs_offset", "empty", Some(t.inputs_offset()), "inputs");
    }
    for (i, inp) in t.inputs().iter().enumerate() {
        let v = g::input_variant_name(inp);
        let o = t.inputs_offset_at(i);
        c.off("inputs_offset_at", v, o, &format!("inputs[{i}]"));
        c.decodes("inputs_offset_at", v, o, inp);
        match t.inputs_predicate_offset_at(i) {
            Some((po, plen)) => {
                c.off("inputs_predicate_offset_at", v, Some(po), &format!("inputs[{i}].predicate"));
                c.len("inputs_predicate_offset_at", v, plen, &format!("inputs[{i}].predicate"));
                if inp.input_predicate().is_none() {
                    let replay = c.replay.clone();
                    c.rep.violation(format!("C04|{}|inputs_predicate_offset_at|{v}|offset reported for an input without predicate", c.kind), String::new(), || replay);
                }
            }
            None => {
                c.rep.eval();
                if inp.input_predicate().is_some() {
                    let replay = c.replay.clone();
                    c.rep.violation(format!("C04|{}|inputs_predicate_offset_at|{v}|no offset for a predicate input", c.kind), String::new(), || replay);
                }
            }
        }
        check_input(c, i, o, inp);
    }
    c.off("inputs_offset_at", "out-of-range", t.inputs_offset_at(t.inputs().len()), "inputs[none]");
    if !t.outputs().is_empty() {
        c.off("outputs_offset", "-", Some(t.outputs_offset()), "outputs[0]");
    } else {
        c.off("outputs_offset", "empty", Some(t.outputs_offset()), "outputs");
    }
    for (i, out) in t.outputs().iter().enumerate() {
        let v = g::output_variant_name(out);
        let o = t.outputs_offset_at(i);
        c.off("outputs_offset_at", v, o, &format!("outputs[{i}]"));
        c.decodes("outputs_offset_at", v, o, out);
        check_output(c, i, o, out);
    }
    c.off("outputs_offset_at", "out-of-range", t.outputs_offset_at(t.outputs().len()), "outputs[none]");
    if !t.witnesses().is_empty() {
        c.off("witnesses_offset", "-", Some(t.witnesses_offset()), "witnesses[0]");
    } else {
        c.off("witnesses_offset", "empty", Some(t.witnesses_offset()), "witnesses");
    }
    for (i, w) in t.witnesses().iter().enumerate() {
        let o = t.witnesses_offset_at(i);
        c.off("witnesses_offset_at", "Witness", o, &format!("witnesses[{i}]"));
        c.decodes::<Witness>("witnesses_offset_at", "Witness", o, w);
    }
    c.off("witnesses_offset_at", "out-of-range", t.witnesses_offset_at(t.witnesses().len()), "witnesses[none]");
}

fn check_tx(rep: &mut Report, tx: &Transaction, cached: bool, layout: &Layout, bytes: &[u8], replay: &Value) {
    let kind = g::tx_kind_name(tx);
    let mut c = Ctx { rep, kind, cached, layout, bytes, replay };
    match tx {
        Transaction::Script(t) => {
            c.off("script_gas_limit_offset", "-", Some(t.script_gas_limit_offset()), "script_gas_limit");
            c.off("receipts_root_offset", "-", Some(t.receipts_root_offset()), "receipts_root");
            c.off("script_offset", "-", Some(t.script_offset()), "script");
            c.off("script_data_offset", "-", Some(t.script_data_offset()), "script_data");
            c.raw("script_offset", "-", Some(t.script_offset()), t.script());
            c.raw("script_data_offset", "-", Some(t.script_data_offset()), t.script_data());
            c.raw("receipts_root_offset", "-", Some(t.receipts_root_offset()), t.receipts_root().as_ref());
            check_common(&mut c, t);
        }
        Transaction::Create(t) => {
            c.off("bytecode_witness_index_offset", "-", Some(t.bytecode_witness_index_offset()), "bytecode_witness_index");
            c.off("salt_offset", "-", Some(t.salt_offset()), "salt");
            c.raw("salt_offset", "-", Some(t.salt_offset()), t.salt().as_ref());
            for (i, s) in t.storage_slots().iter().enumerate() {
                let o = t.storage_slots_offset_at(i);
                c.off("storage_slots_offset_at", "StorageSlot", o, &format!("storage_slots[{i}]"));
                c.decodes("storage_slots_offset_at", "StorageSlot", o, s);
            }
            c.off("storage_slots_offset_at", "out-of-range", t.storage_slots_offset_at(t.storage_slots().len()), "storage_slots[none]");
            check_common(&mut c, t);
        }
        Transaction::Upgrade(t) => {
            c.off("upgrade_purpose_offset", "-", Some(t.upgrade_purpose_offset()), "upgrade_purpose");
            c.decodes("upgrade_purpose_offset", "-", Some(t.upgrade_purpose_offset()), t.upgrade_purpose());
            check_common(&mut c, t);
        }
        Transaction::Upload(t) => {
            c.off("bytecode_root_offset", "-", Some(t.bytecode_root_offset()), "bytecode_root");
            c.raw("bytecode_root_offset", "-", Some(t.bytecode_root_offset()), t.bytecode_root().as_ref());
            c.off("bytecode_witness_index_offset", "-", Some(t.bytecode_witness_index_offset()), "bytecode_witness_index");
            c.off("subsection_index_offset", "-", Some(t.subsection_index_offset()), "subsection_index");
            c.off("subsections_number_offset", "-", Some(t.subsections_number_offset()), "subsections_number");
            c.off("proof_set_offset", "-", Some(t.proof_set_offset()), "proof_set");
            for (i, p) in t.proof_set().iter().enumerate() {
                let o = t.proof_set_offset_at(i);
                c.off("proof_set_offset_at", "Bytes32", o, &format!("proof_set[{i}]"));
                c.raw("proof_set_offset_at", "Bytes32", o, p.as_ref());
            }
            c.off("proof_set_offset_at", "out-of-range", t.proof_set_offset_at(t.proof_set().len()), "proof_set[none]");
            check_common(&mut c, t);
        }
        Transaction::Blob(t) => {
            c.off("blob_id_offset", "-", Some(t.blob_id_offset()), "blob_id");
            c.raw("blob_id_offset", "-", Some(t.blob_id_offset()), t.blob_id().as_ref());
            c.off("bytecode_witness_index_offset", "-", Some(t.bytecode_witness_index_offset()), "bytecode_witness_index");
            check_common(&mut c, t);
        }
        Transaction::Mint(t) => {
            c.off("tx_pointer_offset", "-", Some(t.tx_pointer_offset()), "tx_pointer");
            c.off("input_contract_offset", "-", Some(t.input_contract_offset()), "input_contract");
            c.off("output_contract_offset", "-", Some(t.output_contract_offset()), "output_contract");
            c.off("mint_amount_offset", "-", Some(t.mint_amount_offset()), "mint_amount");
            c.off("mint_asset_id_offset", "-", Some(t.mint_asset_id_offset()), "mint_asset_id");
            c.off("gas_price_offset", "-", Some(t.gas_price_offset()), "gas_price");
            c.raw("mint_asset_id_offset", "-", Some(t.mint_asset_id_offset()), t.mint_asset_id().as_ref());
        }
    }
}

/// size-changing in-place edit (metadata, if any, stays attached)
fn grow(tx: &mut Transaction, rng: &mut Rng) {
    macro_rules! common {
        ($t:expr) => {{
            match rng.below(3) {
                0 => $t.witnesses_mut().insert(0, rng.bytes_len_class(40).into()),
                1 => {
                    let v = rng.usize_below(7);
                    $t.inputs_mut().insert(0, g::input(rng, v, 40, false))
                }
                _ => {
                    let v = rng.usize_below(5);
                    $t.outputs_mut().insert(0, g::output(rng, v))
                }
            }
        }};
    }
    match tx {
        Transaction::Script(t) => {
            if rng.bool() {
                let n = 1 + rng.usize_below(30);
                t.script_mut().extend(rng.bytes(n));
            } else if rng.bool() {
                let n = 1 + rng.usize_below(30);
                t.script_data_mut().extend(rng.bytes(n));
            } else {
                common!(t)
            }
        }
        Transaction::Create(t) => common!(t),
        Transaction::Upgrade(t) => common!(t),
        Transaction::Upload(t) => {
            if rng.bool() {
                t.proof_set_mut().insert(0, g::bytes32(rng));
            } else {
                common!(t)
            }
        }
        Transaction::Blob(t) => common!(t),
        Transaction::Mint(_) => {}
    }
}

fn one_case(rep: &mut Report, rng: &mut Rng, info: &Value, kind: usize, replay_tx: Option<Vec<u8>>) {
    let tx = match replay_tx {
        Some(b) => Transaction::from_bytes(&b).expect("replay tx"),
        None => {
            let o = FreeOpts { cap: 300, max_inputs: 8, max_outputs: 8, max_witnesses: 8, allow_empty_distinguishing: false };
            let t = g::free_tx(rng, kind, &o);
            // metadata-free value
            Transaction::from_bytes(&t.to_bytes()).expect("round trip of a generated tx")
        }
    };
    let bytes = tx.to_bytes();
    let (ref_bytes, layout) = canon::encode_tx(&tx);
    let replay = json!({"info": info, "tx": hx(&bytes)});
    if ref_bytes != bytes {
        rep.violation(
            format!("C04|{}|encoding differs from the reference canonical encoding", g::tx_kind_name(&tx)),
            format!("library {} reference {}", hx(&bytes[..bytes.len().min(200)]), hx(&ref_bytes[..ref_bytes.len().min(200)])),
            || replay.clone(),
        );
        return;
    }
    rep.count("reference_encoding_agrees");
    check_tx(rep, &tx, false, &layout, &bytes, &replay);
    // with cached metadata
    let mut cached = tx.clone();
    match guarded(|| cached.precompute(&ChainId::new(rng.word()))) {
        Ok(Ok(())) => {
            rep.count("cached_variants_checked");
            check_tx(rep, &cached, true, &layout, &bytes, &replay);
            // edit the cached transaction so that encoded sizes change, precompute again:
            // the offsets must be those of the new content
            let mut t2 = cached.clone();
            grow(&mut t2, rng);
            if let Ok(Ok(())) = guarded(|| t2.precompute(&ChainId::new(rng.word()))) {
                let plain = Transaction::from_bytes(&t2.to_bytes()).expect("round trip");
                let bytes2 = plain.to_bytes();
                let (ref2, layout2) = canon::encode_tx(&plain);
                if ref2 == bytes2 {
                    rep.count("reprecomputed_variants_checked");
                    let replay2 = json!({"info": info, "tx": hx(&bytes), "after_edit": hx(&bytes2), "what": "precompute, size-changing edit, precompute again"});
                    let before = rep.violations.len();
                    check_tx(rep, &t2, true, &layout2, &bytes2, &replay2);
                    for v in rep.violations.iter_mut().skip(before) {
                        v.signature = format!("{}|after edit + second precompute", v.signature);
                    }
                }
            }
        }
        Ok(Err(e)) => rep.count(&format!("precompute_error_{e:?}").chars().take(60).collect::<String>()),
        Err(p) => rep.violation(format!("C04|precompute panics|{}", p.site()), p.text, || replay.clone()),
    }
    rep.sample(|| json!({"kind": g::tx_kind_name(&tx), "tx": hx(&bytes), "spans": layout.spans.iter().take(12).collect::<Vec<_>>()}));
}

pub fn run(cfg: &Cfg) -> Report {
    if let Some(r) = &cfg.replay {
        let mut rep = Report::new();
        let mut rng = Rng::derive(cfg.seed, 4, 0);
        one_case(&mut rep, &mut rng, &r["info"], 0, Some(unhx(r["tx"].as_str().unwrap_or(""))));
        return rep;
    }
    let total = cfg.budget(20_000, 1_000_000);
    let per = total / cfg.threads as u64;
    let mut rep = par(cfg.threads, |w| {
        let mut rep = Report::new();
        let info = json!({"seed": cfg.seed, "worker": w});
        for k in 0..per {
            let mut rng = Rng::derive(cfg.seed, 400 + w as u64, k);
            one_case(&mut rep, &mut rng, &info, k as usize % 6, None);
        }
        rep
    });
    rep.rule = "free-form transactions of all kinds with 0..8 inputs/outputs/witnesses in mixed layouts; every offset API evaluated without and with cached metadata and compared with the reference layout walker (refmodel::canon) + decode-at-offset / raw-bytes-at-offset on the library's own encoding. class = (tx kind, offset API, element variant, cached?)".into();
    rep.assume("reference layout walker refmodel::canon (hand-written transcription of the tx format); per-input/output offsets are relative to the element start as the API documents");
    rep.gate("reference_encoding_agrees", rep.counter("reference_encoding_agrees"), 100);
    rep.gate("cached_variants_checked", rep.counter("cached_variants_checked"), 100);
    rep.gate("classes", rep.classes.len() as u64, 150);
    rep
}
