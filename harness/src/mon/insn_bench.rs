//! Single-instruction bench (DESIGN 2.3 item 2) shared by C21 and C22: a script-context
//! `Interpreter` whose registers / memory are set directly and on which exactly one
//! instruction word is executed with `Interpreter::instruction::<_, false>`.
use crate::{
    Panicked,
    guarded,
};
use fuel_asm::{
    Instruction,
    PanicReason,
    RegId,
    op,
};
use fuel_tx::{
    ConsensusParameters,
    Finalizable,
    Script,
    TransactionBuilder,
};
use fuel_vm::{
    checked_transaction::IntoChecked,
    interpreter::{
        Interpreter,
        InterpreterParams,
        MemoryInstance,
    },
    storage::MemoryStorage,
};

pub type Vm = Interpreter<MemoryInstance, MemoryStorage, Script>;

pub const R_OF: usize = 2;
pub const R_PC: usize = 3;
pub const R_SSP: usize = 4;
pub const R_SP: usize = 5;
pub const R_HP: usize = 7;
pub const R_ERR: usize = 8;
pub const R_GGAS: usize = 9;
pub const R_CGAS: usize = 10;
pub const R_FLAG: usize = 15;
pub const GAS: u64 = 1 << 40;
pub const VM_MAX_RAM: u64 = 1 << 26;

/// Outcome of one executed instruction.
#[derive(Clone, Debug, PartialEq, Eq)]
pub enum Outcome {
    /// `Ok(ExecuteState::Proceed)`
    Proceed,
    /// `Ok(other state)` (never expected for ALU instructions)
    OtherState(String),
    /// VM panic with a reason
    Panic(PanicReason),
    /// an error that is not a VM panic (storage error, ...)
    OtherError(String),
    /// the library itself panicked (Rust panic)
    RustPanic(String),
}

impl Outcome {
    pub fn tag(&self) -> String {
        match self {
            Outcome::Proceed => "ok".into(),
            Outcome::OtherState(s) => format!("state:{s}"),
            Outcome::Panic(r) => format!("{r:?}"),
            Outcome::OtherError(s) => format!("error:{s}"),
            Outcome::RustPanic(s) => format!("rustpanic:{s}"),
        }
    }
}

/// A VM initialised with a trivial script transaction (script context, `$fp = 0`,
/// `$ssp = $sp` just after the transaction image, `$hp = VM_MAX_RAM`).
pub fn new_vm() -> Vm {
    let params = ConsensusParameters::standard();
    let mut vm = Vm::with_storage(
        MemoryInstance::new(),
        MemoryStorage::default(),
        InterpreterParams::new(0, &params),
    );
    let script = op::ret(RegId::ONE).to_bytes().to_vec();
    let tx = TransactionBuilder::script(script, vec![])
        .script_gas_limit(1_000_000)
        .add_fee_input()
        .finalize();
    let ready = tx
        .into_checked(Default::default(), &params)
        .expect("trivial script checks")
        .into_ready(0, vm.gas_costs(), params.fee_params(), None)
        .expect("trivial script is ready");
    vm.init_script(ready).expect("init_script");
    vm
}

/// Execute exactly one instruction.
pub fn exec(vm: &mut Vm, ins: Instruction) -> Outcome {
    let raw: u32 = ins.into();
    exec_raw(vm, raw)
}

pub fn exec_raw(vm: &mut Vm, raw: u32) -> Outcome {
    let r: Result<_, Panicked> = guarded(|| vm.instruction::<_, false>(raw));
    match r {
        Err(p) => Outcome::RustPanic(p.text),
        Ok(Ok(fuel_vm::state::ExecuteState::Proceed)) => Outcome::Proceed,
        Ok(Ok(s)) => Outcome::OtherState(format!("{s:?}")),
        Ok(Err(e)) => match e.panic_reason() {
            Some(r) => Outcome::Panic(r),
            None => Outcome::OtherError(format!("{e:?}")),
        },
    }
}

/// indices of registers that differ between two snapshots, ignoring `$cgas/$ggas` and
/// the indices in `allowed`
pub fn changed_regs(pre: &[u64], post: &[u64], allowed: &[usize]) -> Vec<usize> {
    (0..64)
        .filter(|&i| {
            pre[i] != post[i] && i != R_GGAS && i != R_CGAS && !allowed.contains(&i)
        })
        .collect()
}
