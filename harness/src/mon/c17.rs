//! C17 Signing, recovery and verification are mutually consistent.
//!
//! * secp256k1 (`Signature::{sign,recover,verify}`, `SecretKey::public_key`) and secp256r1
//!   (`secp256r1::{sign_prehashed,recover,encode_pubkey}`): library signatures are
//!   normalised, recover exactly the signer's key (computed independently with the
//!   k256/p256 crates), verify, and do not recover that key for another message or after a
//!   mutation; a recovered key always verifies the signature it was recovered from.
//! * Ed25519: `fuel_crypto::ed25519::verify` verdict == `VerifyingKey::verify_strict`
//!   called directly on the same triple.
//! * VM: `ECK1`/`ECR1`/`ED19` executed in real scripts leave `$err` and the 64 result
//!   bytes exactly as the library call says.
use super::be256::{
    self as b,
    B32,
};
use crate::{
    Cfg,
    Report,
    Rng,
    guarded,
    hx,
    par,
    unhx,
};
use ed25519_dalek::{
    Signer as _,
    Verifier as _,
};
use fuel_asm::{
    GTFArgs,
    Instruction,
    RegId,
    op,
};
use fuel_crypto::{
    Message,
    SecretKey,
    Signature,
};
use fuel_tx::{
    Receipt,
    ScriptExecutionResult,
    TransactionBuilder,
};
use fuel_types::{
    Bytes32,
    Bytes64,
};
use fuel_vm::prelude::*;
use k256::elliptic_curve::sec1::ToEncodedPoint as _;
use serde_json::{
    Value,
    json,
};

// ---------------------------------------------------------------------------------------
// independent references (k256 / p256 / ed25519-dalek called directly)
// ---------------------------------------------------------------------------------------

#[derive(Clone, Copy, PartialEq, Eq, Debug)]
enum Curve {
    K1,
    R1,
}

impl Curve {
    fn name(self) -> &'static str {
        match self {
            Curve::K1 => "secp256k1",
            Curve::R1 => "secp256r1",
        }
    }
    fn n(self) -> B32 {
        match self {
            Curve::K1 => b::K1_N,
            Curve::R1 => b::R1_N,
        }
    }
    fn gx(self) -> B32 {
        match self {
            Curve::K1 => b::K1_GX,
            Curve::R1 => R1_GX,
        }
    }
    fn opname(self) -> &'static str {
        match self {
            Curve::K1 => "ECK1",
            Curve::R1 => "ECR1",
        }
    }
}

const R1_GX: B32 = b::hex32("6B17D1F2E12C4247F8BCE6E563A440F277037D812DEB33A0F4A13945D898C296");

fn ref_pub(c: Curve, sk: &B32) -> Option<[u8; 64]> {
    let mut o = [0u8; 64];
    match c {
        Curve::K1 => {
            let sk = k256::SecretKey::from_slice(sk).ok()?;
            let pt = sk.public_key().to_encoded_point(false);
            o[..32].copy_from_slice(pt.x()?);
            o[32..].copy_from_slice(pt.y()?);
        }
        Curve::R1 => {
            let sk = p256::SecretKey::from_slice(sk).ok()?;
            let pt = sk.public_key().to_encoded_point(false);
            o[..32].copy_from_slice(pt.x()?);
            o[32..].copy_from_slice(pt.y()?);
        }
    }
    Some(o)
}

fn strip(sig: &[u8; 64]) -> [u8; 64] {
    let mut s = *sig;
    s[32] &= 0x7f;
    s
}

/// reference ECDSA verification of (r, s) (parity bit removed) by the k256 / p256 crate
fn ref_verify(c: Curve, pk: &[u8; 64], msg: &B32, sig: &[u8; 64]) -> bool {
    let raw = strip(sig);
    match c {
        Curve::K1 => {
            use k256::ecdsa::signature::hazmat::PrehashVerifier;
            let Ok(vk) = k256::ecdsa::VerifyingKey::from_encoded_point(&k256::EncodedPoint::from_untagged_bytes(&(*pk).into())) else {
                return false;
            };
            let Ok(s) = k256::ecdsa::Signature::from_slice(&raw) else { return false };
            vk.verify_prehash(msg, &s).is_ok()
        }
        Curve::R1 => {
            use p256::ecdsa::signature::hazmat::PrehashVerifier;
            let Ok(vk) = p256::ecdsa::VerifyingKey::from_encoded_point(&p256::EncodedPoint::from_untagged_bytes(&(*pk).into())) else {
                return false;
            };
            let Ok(s) = p256::ecdsa::Signature::from_slice(&raw) else { return false };
            vk.verify_prehash(msg, &s).is_ok()
        }
    }
}

fn ref_ed_strict(pk: &[u8; 32], sig: &[u8; 64], msg: &[u8]) -> bool {
    match ed25519_dalek::VerifyingKey::from_bytes(pk) {
        Ok(vk) => vk.verify_strict(msg, &ed25519_dalek::Signature::from_bytes(sig)).is_ok(),
        Err(_) => false,
    }
}

fn ref_ed_loose(pk: &[u8; 32], sig: &[u8; 64], msg: &[u8]) -> bool {
    match ed25519_dalek::VerifyingKey::from_bytes(pk) {
        Ok(vk) => vk.verify(msg, &ed25519_dalek::Signature::from_bytes(sig)).is_ok(),
        Err(_) => false,
    }
}

// ---------------------------------------------------------------------------------------
// library calls (code under test), all guarded
// ---------------------------------------------------------------------------------------

/// `Ok(Some(key))`, `Ok(None)` for an error result, `Err(text)` for a panic
type Rec = Result<Option<[u8; 64]>, String>;

fn lib_recover(c: Curve, sig: &[u8; 64], msg: &B32) -> Rec {
    let m = Message::from_bytes(*msg);
    match c {
        Curve::K1 => match guarded(|| Signature::from_bytes(*sig).recover(&m)) {
            Ok(Ok(k)) => Ok(Some(*k)),
            Ok(Err(_)) => Ok(None),
            Err(p) => Err(p.text),
        },
        Curve::R1 => match guarded(|| fuel_crypto::secp256r1::recover(&Bytes64::from(*sig), &m)) {
            Ok(Ok(k)) => Ok(Some(*k)),
            Ok(Err(_)) => Ok(None),
            Err(p) => Err(p.text),
        },
    }
}

/// verification of a signature against a key: the library's `Signature::verify` for k1;
/// the library has no r1 verify, the p256 crate is the reference there
fn verify_with(c: Curve, sig: &[u8; 64], pk: &[u8; 64], msg: &B32) -> Result<bool, String> {
    match c {
        Curve::K1 => {
            let m = Message::from_bytes(*msg);
            let mut pkk = fuel_crypto::PublicKey::default();
            pkk.as_mut().copy_from_slice(pk);
            match guarded(|| Signature::from_bytes(*sig).verify(&pkk, &m)) {
                Ok(r) => Ok(r.is_ok()),
                Err(p) => Err(p.text),
            }
        }
        Curve::R1 => Ok(ref_verify(c, pk, msg, sig)),
    }
}

fn lib_sign(c: Curve, sk: &B32, msg: &B32) -> Result<Option<[u8; 64]>, String> {
    let m = Message::from_bytes(*msg);
    match c {
        Curve::K1 => {
            let Ok(secret) = SecretKey::try_from(&sk[..]) else { return Ok(None) };
            match guarded(|| Signature::sign(&secret, &m)) {
                Ok(s) => Ok(Some(*s)),
                Err(p) => Err(p.text),
            }
        }
        Curve::R1 => {
            let Ok(key) = p256::ecdsa::SigningKey::from_slice(sk) else { return Ok(None) };
            match guarded(|| fuel_crypto::secp256r1::sign_prehashed(&key, &m)) {
                Ok(Ok(s)) => Ok(Some(*s)),
                Ok(Err(_)) => Ok(None),
                Err(p) => Err(p.text),
            }
        }
    }
}

/// the library's own derivation of the public key bytes
fn lib_pub(c: Curve, sk: &B32) -> Result<Option<[u8; 64]>, String> {
    match c {
        Curve::K1 => {
            let Ok(secret) = SecretKey::try_from(&sk[..]) else { return Ok(None) };
            match guarded(|| secret.public_key()) {
                Ok(k) => Ok(Some(*k)),
                Err(p) => Err(p.text),
            }
        }
        Curve::R1 => {
            let Ok(key) = p256::ecdsa::SigningKey::from_slice(sk) else { return Ok(None) };
            match guarded(|| fuel_crypto::secp256r1::encode_pubkey(*key.verifying_key())) {
                Ok(k) => Ok(Some(k)),
                Err(p) => Err(p.text),
            }
        }
    }
}

// ---------------------------------------------------------------------------------------
// secp256k1 / secp256r1 library part
// ---------------------------------------------------------------------------------------

#[derive(Clone, Copy, Debug)]
struct Mutation {
    kind: u64,
    byte: usize,
    bit: u8,
}
const N_MUT: u64 = 13;

impl Mutation {
    fn gen_(rng: &mut Rng, kind: u64) -> Self {
        let (byte, bit) = match kind {
            1 => (0, rng.below(8)),
            2 => (rng.range(1, 30) as usize, rng.below(8)),
            3 => (31, rng.below(8)),
            4 => (32, rng.below(7)),
            5 => (rng.range(33, 62) as usize, rng.below(8)),
            6 => (63, rng.below(8)),
            12 => (rng.below(64) as usize, rng.below(8)),
            _ => (0, 0),
        };
        Mutation { kind, byte, bit: bit as u8 }
    }
    fn json(&self) -> Value {
        json!({"kind": self.kind, "byte": self.byte, "bit": self.bit})
    }
    fn from_json(v: &Value) -> Option<Self> {
        Some(Mutation {
            kind: v.get("kind")?.as_u64()?,
            byte: v.get("byte")?.as_u64()? as usize % 64,
            bit: (v.get("bit")?.as_u64()? % 8) as u8,
        })
    }
    /// (label, mutated signature, `twin`: the mutation is the exact (r, n-s, !v)
    /// malleation, which is a mathematically valid signature of the same key)
    fn apply(&self, c: Curve, sig: &[u8; 64]) -> (&'static str, [u8; 64], bool) {
        let mut x = *sig;
        let mut s = [0u8; 32];
        s.copy_from_slice(&sig[32..]);
        let v = s[0] & 0x80;
        s[0] &= 0x7f;
        let neg = b::sub(&c.n(), &s).0;
        let fits = neg[0] & 0x80 == 0;
        match self.kind {
            0 => {
                x[32] ^= 0x80;
                ("parity bit flipped", x, false)
            }
            1 => {
                x[self.byte] ^= 1 << self.bit;
                ("bit flip in r[0]", x, false)
            }
            2 => {
                x[self.byte] ^= 1 << self.bit;
                ("bit flip in r[1..31]", x, false)
            }
            3 => {
                x[self.byte] ^= 1 << self.bit;
                ("bit flip in r[31]", x, false)
            }
            4 => {
                x[self.byte] ^= 1 << self.bit;
                ("bit flip in s[0] (below the parity bit)", x, false)
            }
            5 => {
                x[self.byte] ^= 1 << self.bit;
                ("bit flip in s[1..31]", x, false)
            }
            6 => {
                x[self.byte] ^= 1 << self.bit;
                ("bit flip in s[31]", x, false)
            }
            7 => {
                x[32..].copy_from_slice(&neg);
                x[32] = (x[32] & 0x7f) | v;
                (if fits { "s -> n-s (fits), same parity" } else { "s -> n-s (truncated), same parity" }, x, false)
            }
            8 => {
                x[32..].copy_from_slice(&neg);
                x[32] = (x[32] & 0x7f) | (v ^ 0x80);
                (if fits { "s -> n-s (fits), parity flipped" } else { "s -> n-s (truncated), parity flipped" }, x, fits)
            }
            9 => {
                x[..32].copy_from_slice(&sig[32..]);
                x[32..].copy_from_slice(&sig[..32]);
                ("r and s swapped", x, false)
            }
            10 => {
                x[0] = 0;
                if x == *sig {
                    x[0] = 1;
                }
                ("r top byte replaced", x, false)
            }
            12 => {
                // r kept (the x coordinate of a curve point), s replaced by a value in the
                // window (n/2, 2^255) - the only high-s values the 64-byte form can carry.
                // Whatever key a backend recovers from it must verify it.
                let half = b::shr1(&c.n());
                let s2 = b::add_u64(&half, 1 + (self.byte as u64) * 8 + self.bit as u64);
                x[32..].copy_from_slice(&s2);
                x[32] = (x[32] & 0x7f) | if self.bit & 1 == 1 { 0x80 } else { 0 };
                ("s replaced by a value in the window (n/2, 2^255)", x, false)
            }
            _ => {
                x[33] = !x[33];
                ("s[1] inverted", x, false)
            }
        }
    }
}

fn gen_sk(rng: &mut Rng, c: Curve, k: u64) -> (&'static str, B32) {
    let n = c.n();
    match k {
        0 => ("sk=1", b::from_u64(1)),
        1 => ("sk=2", b::from_u64(2)),
        2 => ("sk=n-1", b::sub_u64(&n, 1)),
        _ => loop {
            let x: B32 = rng.arr();
            if !b::is_zero(&x) && x < n {
                return ("sk=random", x);
            }
        },
    }
}

fn gen_msg(rng: &mut Rng, k: u64) -> (&'static str, B32) {
    match k {
        0 => ("m=0", b::ZERO),
        1 => ("m=ff..ff", b::MAX),
        _ => ("m=random", rng.arr()),
    }
}

struct SecpCase {
    curve: Curve,
    skc: String,
    mc: String,
    sk: B32,
    msg: B32,
    other: B32,
    mutation: Mutation,
}

impl SecpCase {
    fn json(&self) -> Value {
        json!({"kind": "secp", "curve": self.curve.name(), "sk_class": self.skc, "msg_class": self.mc,
            "sk": hx(self.sk), "msg": hx(self.msg), "other_msg": hx(self.other), "mutation": self.mutation.json()})
    }
    fn from_json(v: &Value) -> Option<Self> {
        let curve = match v.get("curve")?.as_str()? {
            "secp256k1" => Curve::K1,
            "secp256r1" => Curve::R1,
            _ => return None,
        };
        Some(SecpCase {
            curve,
            skc: v.get("sk_class")?.as_str()?.to_string(),
            mc: v.get("msg_class")?.as_str()?.to_string(),
            sk: arr(v, "sk")?,
            msg: arr(v, "msg")?,
            other: arr(v, "other_msg")?,
            mutation: Mutation::from_json(v.get("mutation")?)?,
        })
    }
}

fn arr<const N: usize>(v: &Value, k: &str) -> Option<[u8; N]> {
    unhx(v.get(k)?.as_str()?).as_slice().try_into().ok()
}

fn gen_secp(rng: &mut Rng, curve: Curve, ski: u64, mi: u64, muti: u64) -> SecpCase {
    let (skc, sk) = gen_sk(rng, curve, ski);
    let (mc, msg) = gen_msg(rng, mi);
    let other = if rng.bool() {
        let mut o = msg;
        o[rng.usize_below(32)] ^= 1 << rng.below(8);
        o
    } else {
        let mut o: B32 = rng.arr();
        if o == msg {
            o[0] ^= 1;
        }
        o
    };
    SecpCase { curve, skc: skc.into(), mc: mc.into(), sk, msg, other, mutation: Mutation::gen_(rng, muti) }
}

/// Judge one secp case; returns the library signature (for the VM part).
fn judge_secp(rep: &mut Report, cs: &SecpCase) -> Option<[u8; 64]> {
    let c = cs.curve;
    let cn = c.name();
    let n = c.n();
    let half = b::shr1(&n);
    let keyc = format!("{},{}", cs.skc, cs.mc);
    let replay = || cs.json();
    macro_rules! bad {
        ($op:expr, $shape:expr, $what:expr) => {{
            rep.violation(format!("C17|{cn}|{}|{}", $op, $shape), format!("{cn} [{keyc}]: {}", $what), replay)
        }};
    }

    // ---- public key derivation
    let Some(pk) = ref_pub(c, &cs.sk) else {
        rep.count("generator_bad_secret");
        return None;
    };
    rep.eval();
    match lib_pub(c, &cs.sk) {
        Ok(Some(k)) if k == pk => rep.class(format!("{cn}|public_key|{}|equal to reference", cs.skc)),
        Ok(Some(k)) => {
            rep.class(format!("{cn}|public_key|{}|DIFFERENT", cs.skc));
            bad!("public_key", "differs from the reference derivation", format!("library public key {} != reference {} for sk {}", hx(k), hx(pk), hx(cs.sk)))
        }
        Ok(None) => {
            rep.class(format!("{cn}|public_key|{}|rejected", cs.skc));
            bad!("public_key", "valid secret key rejected", format!("sk {}", hx(cs.sk)))
        }
        Err(p) => bad!("public_key", "panic", p),
    }

    // ---- sign
    rep.eval();
    let sig = match lib_sign(c, &cs.sk, &cs.msg) {
        Ok(Some(s)) => s,
        Ok(None) => {
            // the statement quantifies over signatures the library produced
            rep.count("unspecified_sign_returned_error");
            rep.class(format!("{cn}|sign|{keyc}|error"));
            return None;
        }
        Err(p) => {
            rep.class(format!("{cn}|sign|{keyc}|PANIC"));
            let shape = if p.contains("Non-normalized") { "encode_signature assertion: top bit of byte 32 not free".to_string() } else { format!("panic|{}", crate::Panicked { text: p.clone() }.site()) };
            bad!("sign", shape, format!("signing panicked: {p}; sk {} msg {}", hx(cs.sk), hx(cs.msg)));
            return None;
        }
    };
    rep.class(format!("{cn}|sign|{keyc}|signed,parity={}", sig[32] >> 7));
    rep.count(&format!("{cn}_signed"));
    let mut r = [0u8; 32];
    let mut s = [0u8; 32];
    r.copy_from_slice(&sig[..32]);
    s.copy_from_slice(&sig[32..]);
    s[0] &= 0x7f;
    // normalised: with the parity bit removed, s is in [1, n/2] and r in [1, n)
    let norm = !b::is_zero(&s) && s <= half && !b::is_zero(&r) && r < n;
    if !norm {
        bad!("sign", "signature not normalised (s > n/2 or out of range)", format!("signature {} for sk {} msg {}", hx(sig), hx(cs.sk), hx(cs.msg)));
    }
    if !ref_verify(c, &pk, &cs.msg, &sig) {
        bad!("sign", "reference verification rejects the library signature", format!("signature {} pk {} msg {}", hx(sig), hx(pk), hx(cs.msg)));
    }

    // ---- recover / verify of the library signature
    rep.eval();
    match lib_recover(c, &sig, &cs.msg) {
        Ok(Some(k)) if k == pk => {
            rep.class(format!("{cn}|recover|valid|signer key"));
            rep.count(&format!("{cn}_recovered_signer"));
        }
        Ok(Some(k)) => {
            rep.class(format!("{cn}|recover|valid|OTHER KEY"));
            bad!("recover", "valid signature recovers another key", format!("sig {} msg {} -> {} expected {}", hx(sig), hx(cs.msg), hx(k), hx(pk)))
        }
        Ok(None) => {
            rep.class(format!("{cn}|recover|valid|ERROR"));
            bad!("recover", "valid signature does not recover", format!("sig {} msg {} signer {}", hx(sig), hx(cs.msg), hx(pk)))
        }
        Err(p) => bad!("recover", "panic", p),
    }
    if c == Curve::K1 {
        rep.eval();
        match verify_with(c, &sig, &pk, &cs.msg) {
            Ok(true) => {
                rep.class(format!("{cn}|verify|valid|accept"));
                rep.count("secp256k1_verified");
            }
            Ok(false) => {
                rep.class(format!("{cn}|verify|valid|REJECT"));
                bad!("verify", "valid signature rejected", format!("sig {} pk {} msg {}", hx(sig), hx(pk), hx(cs.msg)))
            }
            Err(p) => bad!("verify", "panic", p),
        }
    }

    // ---- another message
    rep.eval();
    match lib_recover(c, &sig, &cs.other) {
        Ok(Some(k)) if k == pk => {
            rep.class(format!("{cn}|recover|other message|SIGNER KEY"));
            bad!("recover", "signer's key recovered for another message", format!("sig {} signed {} recovered signer {} for {}", hx(sig), hx(cs.msg), hx(pk), hx(cs.other)))
        }
        Ok(Some(_)) => rep.class(format!("{cn}|recover|other message|other key")),
        Ok(None) => rep.class(format!("{cn}|recover|other message|error")),
        Err(p) => {
            rep.count("panic_not_judged");
            rep.note(format!("{cn} recover panicked on another message: {p}"));
        }
    }
    if c == Curve::K1 {
        rep.eval();
        match verify_with(c, &sig, &pk, &cs.other) {
            Ok(true) => {
                rep.class(format!("{cn}|verify|other message|ACCEPT"));
                bad!("verify", "signature verifies for another message", format!("sig {} pk {} signed {} verified {}", hx(sig), hx(pk), hx(cs.msg), hx(cs.other)))
            }
            Ok(false) => rep.class(format!("{cn}|verify|other message|reject")),
            Err(p) => {
                rep.count("panic_not_judged");
                rep.note(format!("{cn} verify panicked on another message: {p}"));
            }
        }
    }

    // ---- one mutation of the signature, same message
    let (label, msig, twin) = cs.mutation.apply(c, &sig);
    rep.eval();
    let rec = lib_recover(c, &msig, &cs.msg);
    match &rec {
        Ok(Some(k)) if *k == pk => {
            if twin {
                // (r, n-s, !v) is the malleated form of the same signature; whether a
                // backend accepts the high s is the subject of C16, not judged here
                rep.count(&format!("unspecified_{cn}_malleated_twin_recovers_signer"));
                rep.class(format!("{cn}|recover|{label}|signer key (twin)"));
            } else {
                rep.class(format!("{cn}|recover|{label}|SIGNER KEY"));
                bad!("recover", format!("mutated signature recovers the signer's key|{label}"), format!("sig {} -> {} msg {} recovers {}", hx(sig), hx(msig), hx(cs.msg), hx(pk)))
            }
        }
        Ok(Some(_)) => rep.class(format!("{cn}|recover|{label}|other key")),
        Ok(None) => rep.class(format!("{cn}|recover|{label}|error")),
        Err(p) => {
            rep.count("panic_not_judged");
            rep.note(format!("{cn} recover panicked on a mutated signature ({label}): {p}"));
        }
    }
    // a key recovered from (sig', msg) verifies (sig', msg) when sig' is in range and low-s
    if let Ok(Some(k)) = &rec {
        let mut mr = [0u8; 32];
        let mut ms = [0u8; 32];
        mr.copy_from_slice(&msig[..32]);
        ms.copy_from_slice(&msig[32..]);
        ms[0] &= 0x7f;
        let in_range = !b::is_zero(&mr) && mr < n && !b::is_zero(&ms) && (ms <= half || (c == Curve::R1 && ms < n));
        if in_range && c == Curve::R1 {
            // which key a secp256r1 signature belongs to is decided by (r, s, parity) alone:
            // the p256 crate's recovery on the same triple is the reference (verification
            // cannot tell the two candidate keys of a malleated pair apart)
            let mut raw = msig;
            raw[32] &= 0x7f;
            let v = msig[32] & 0x80 != 0;
            if let (Ok(sg), Some(id)) = (p256::ecdsa::Signature::from_slice(&raw), k256::ecdsa::RecoveryId::from_byte(v as u8)) {
                if let Ok(vk) = p256::ecdsa::VerifyingKey::recover_from_prehash(&cs.msg, &sg, id) {
                    let pt = vk.to_encoded_point(false);
                    rep.eval();
                    rep.count("secp256r1_recovered_key_compared_with_reference_recovery");
                    if pt.as_bytes().len() == 65 && pt.as_bytes()[1..] != k[..] {
                        bad!("recover", format!("recovered key differs from the reference recovery of the same (r, s, parity)|{label}"), format!("sig {} msg {}: library {} reference {}", hx(msig), hx(cs.msg), hx(k), hx(&pt.as_bytes()[1..])))
                    }
                }
            }
        }
        if in_range {
            rep.eval();
            match verify_with(c, &msig, k, &cs.msg) {
                Ok(true) => {
                    rep.class(format!("{cn}|verify(recovered key)|{label}|accept"));
                    rep.count(&format!("{cn}_recovered_key_verifies"));
                }
                Ok(false) => {
                    rep.class(format!("{cn}|verify(recovered key)|{label}|REJECT"));
                    bad!("verify", format!("recovered key does not verify the signature it was recovered from|{label}"), format!("sig {} msg {} recovered {}", hx(msig), hx(cs.msg), hx(k)))
                }
                Err(p) => {
                    rep.count("panic_not_judged");
                    rep.note(format!("{cn} verify panicked: {p}"));
                }
            }
        } else {
            rep.count(&format!("unspecified_{cn}_recovered_from_out_of_range_signature"));
        }
    }
    // the mutated signature against the signer's key (k1 only: library verify)
    if c == Curve::K1 {
        match verify_with(c, &msig, &pk, &cs.msg) {
            Ok(acc) => {
                if cs.mutation.kind == 0 {
                    // verify ignores the parity bit by design ("the recovery bit position is free")
                    rep.count(if acc { "k1_verify_ignores_parity_bit" } else { "k1_verify_rejects_flipped_parity" });
                    rep.class(format!("{cn}|verify|{label}|{}", if acc { "accept" } else { "reject" }));
                } else {
                    rep.eval();
                    if acc {
                        rep.class(format!("{cn}|verify|{label}|ACCEPT"));
                        bad!("verify", format!("mutated signature verifies against the signer's key|{label}"), format!("sig {} -> {} pk {} msg {}", hx(sig), hx(msig), hx(pk), hx(cs.msg)))
                    } else {
                        rep.class(format!("{cn}|verify|{label}|reject"));
                    }
                }
            }
            Err(p) => {
                rep.count("panic_not_judged");
                rep.note(format!("{cn} verify panicked on a mutated signature: {p}"));
            }
        }
    }
    if rep.samples.len() < 2 {
        rep.sample(|| json!({"curve": cn, "sk": hx(cs.sk), "msg": hx(cs.msg), "signature": hx(sig), "public_key": hx(pk),
            "mutation": label, "mutated": hx(msig), "mutated_recovers": format!("{:?}", rec.as_ref().map(|o| o.map(hx)))}));
    }
    Some(sig)
}

// ---------------------------------------------------------------------------------------
// Ed25519
// ---------------------------------------------------------------------------------------

/// encodings of the eight small-order points and their non-canonical aliases
const ED_SMALL: &[&str] = &[
    "0100000000000000000000000000000000000000000000000000000000000000",
    "ecffffffffffffffffffffffffffffffffffffffffffffffffffffffffffff7f",
    "0000000000000000000000000000000000000000000000000000000000000000",
    "0000000000000000000000000000000000000000000000000000000000000080",
    "c7176a703d4dd84fba3c0b760d10670f2a2053fa2c39ccc64ec7fd7792ac037a",
    "c7176a703d4dd84fba3c0b760d10670f2a2053fa2c39ccc64ec7fd7792ac03fa",
    "26e8958fc2b227b045c3f489f2ef98f0d5dfac05d3c63339b13802886d53fc05",
    "26e8958fc2b227b045c3f489f2ef98f0d5dfac05d3c63339b13802886d53fc85",
    // non-canonical encodings
    "0100000000000000000000000000000000000000000000000000000000000080",
    "ecffffffffffffffffffffffffffffffffffffffffffffffffffffffffffffff",
    "eeffffffffffffffffffffffffffffffffffffffffffffffffffffffffffff7f",
    "eeffffffffffffffffffffffffffffffffffffffffffffffffffffffffffffff",
    "edffffffffffffffffffffffffffffffffffffffffffffffffffffffffffff7f",
    "edffffffffffffffffffffffffffffffffffffffffffffffffffffffffffffff",
];

fn ed_small(i: usize) -> [u8; 32] {
    b::hex32(ED_SMALL[i % ED_SMALL.len()])
}

#[derive(Clone)]
struct EdCase {
    class: String,
    pk: [u8; 32],
    sig: [u8; 64],
    msg: Vec<u8>,
}

impl EdCase {
    fn json(&self) -> Value {
        json!({"kind": "ed25519", "class": self.class, "pk": hx(self.pk), "sig": hx(self.sig), "msg": hx(&self.msg)})
    }
    fn from_json(v: &Value) -> Option<Self> {
        Some(EdCase {
            class: v.get("class")?.as_str()?.to_string(),
            pk: arr(v, "pk")?,
            sig: arr(v, "sig")?,
            msg: unhx(v.get("msg")?.as_str()?),
        })
    }
}

fn ed_len(rng: &mut Rng) -> usize {
    const L: &[usize] = &[0, 1, 2, 31, 32, 33, 63, 64, 65, 127, 128, 129, 255, 256, 257, 299, 300];
    if rng.chance(1, 3) { *rng.pick(L) } else { rng.usize_below(301) }
}

fn ed_len_class(n: usize) -> &'static str {
    match n {
        0 => "len=0",
        1..=31 => "len=1-31",
        32 => "len=32",
        33..=64 => "len=33-64",
        65..=128 => "len=65-128",
        _ => "len=129-300",
    }
}

const N_ED: u64 = 27;

fn gen_ed(rng: &mut Rng, k: u64, len: usize) -> EdCase {
    let seed: [u8; 32] = rng.arr();
    let key = ed25519_dalek::SigningKey::from_bytes(&seed);
    let mut msg = rng.bytes(len);
    let mut pk = key.verifying_key().to_bytes();
    let mut sig = key.sign(&msg).to_bytes();
    let flip = |rng: &mut Rng, x: &mut [u8], lo: usize, hi: usize| {
        let i = rng.range(lo as u64, hi as u64) as usize;
        x[i] ^= 1 << rng.below(8);
    };
    let class: &str = match k {
        0 => "valid",
        1 => {
            flip(rng, &mut sig, 0, 0);
            "bit flip in R[0]"
        }
        2 => {
            flip(rng, &mut sig, 1, 30);
            "bit flip in R[1..31]"
        }
        3 => {
            flip(rng, &mut sig, 31, 31);
            "bit flip in R[31]"
        }
        4 => {
            flip(rng, &mut sig, 32, 32);
            "bit flip in s[0]"
        }
        5 => {
            flip(rng, &mut sig, 33, 62);
            "bit flip in s[1..31]"
        }
        6 => {
            flip(rng, &mut sig, 63, 63);
            "bit flip in s[31]"
        }
        7 => {
            flip(rng, &mut pk, 0, 0);
            "bit flip in A[0]"
        }
        8 => {
            flip(rng, &mut pk, 1, 30);
            "bit flip in A[1..31]"
        }
        9 => {
            flip(rng, &mut pk, 31, 31);
            "bit flip in A[31]"
        }
        10 => {
            if msg.is_empty() {
                msg.push(rng.u8());
                "message extended"
            } else {
                let n = msg.len();
                flip(rng, &mut msg, 0, n - 1);
                "bit flip in message"
            }
        }
        11 => {
            if msg.is_empty() || rng.bool() {
                msg.push(rng.u8());
                "message extended"
            } else {
                msg.pop();
                "message truncated"
            }
        }
        12 => {
            // s + L: the same scalar, non-canonical encoding (s < L < 2^253, no overflow)
            let mut s = [0u8; 32];
            s.copy_from_slice(&sig[32..]);
            let (t, _) = b::add_le(&s, &b::ED_L_LE);
            sig[32..].copy_from_slice(&t);
            "s + L"
        }
        13 => {
            sig[32..].fill(0);
            "s = 0"
        }
        14 => {
            sig[32..].copy_from_slice(&b::ED_L_LE);
            "s = L"
        }
        15 => {
            sig[32..].copy_from_slice(&b::ED_L_LE);
            sig[32] -= 1;
            "s = L-1"
        }
        16 => {
            sig[..32].copy_from_slice(&ed_small(rng.usize_below(ED_SMALL.len())));
            "R := small-order point"
        }
        17 => {
            pk = ed_small(rng.usize_below(ED_SMALL.len()));
            "A := small-order point"
        }
        18 => {
            // small-order A and R with s = 0 that the cofactorless *non-strict* equation
            // accepts: [0]B = R + [k]A. Searched with the dalek crate's loose verify.
            let mut found = false;
            for _ in 0..64 {
                let a = ed_small(rng.usize_below(8));
                let r_ = ed_small(rng.usize_below(8));
                let mut sg = [0u8; 64];
                sg[..32].copy_from_slice(&r_);
                if ref_ed_loose(&a, &sg, &msg) {
                    pk = a;
                    sig = sg;
                    found = true;
                    break;
                }
                if !msg.is_empty() {
                    msg[0] = msg[0].wrapping_add(1);
                }
            }
            if !found {
                pk = ed_small(0);
                sig = [0u8; 64];
                sig[..32].copy_from_slice(&ed_small(0));
            }
            "small-order A and R, s=0, accepted by non-strict verification"
        }
        19 => {
            loop {
                let a: [u8; 32] = rng.arr();
                if ed25519_dalek::VerifyingKey::from_bytes(&a).is_err() {
                    pk = a;
                    break;
                }
            }
            "A not a curve point"
        }
        20 => {
            pk = [0u8; 32];
            sig = [0u8; 64];
            msg.fill(0);
            "all zero"
        }
        21 => {
            pk = rng.arr();
            sig = rng.arr();
            "random triple"
        }
        22 => {
            let other = ed25519_dalek::SigningKey::from_bytes(&rng.arr());
            pk = other.verifying_key().to_bytes();
            "valid signature, other key"
        }
        23 => {
            // R and s from two different valid signatures of the same key and message
            let other = ed25519_dalek::SigningKey::from_bytes(&rng.arr());
            let s2 = other.sign(&msg).to_bytes();
            sig[32..].copy_from_slice(&s2[32..]);
            "s of another signer"
        }
        24 => {
            sig[63] |= 0xe0;
            "s top bits set"
        }
        25 => {
            // small-order R with s of a valid signature and small-order A: mixed torsion
            pk = ed_small(rng.usize_below(8));
            sig[..32].copy_from_slice(&ed_small(rng.usize_below(8)));
            "small-order A and R, s of a valid signature"
        }
        _ => {
            // identity key, identity R, s = 0: accepted by every non-strict verifier
            pk = ed_small(0);
            sig = [0u8; 64];
            sig[..32].copy_from_slice(&ed_small(0));
            "A = R = identity, s = 0"
        }
    };
    EdCase { class: class.into(), pk, sig, msg }
}

fn lib_ed(pk: &[u8; 32], sig: &[u8; 64], msg: &[u8]) -> Result<bool, String> {
    match guarded(|| fuel_crypto::ed25519::verify(&Bytes32::from(*pk), &Bytes64::from(*sig), msg)) {
        Ok(r) => Ok(r.is_ok()),
        Err(p) => Err(p.text),
    }
}

fn judge_ed(rep: &mut Report, cs: &EdCase) {
    rep.eval();
    let want = ref_ed_strict(&cs.pk, &cs.sig, &cs.msg);
    let loose = ref_ed_loose(&cs.pk, &cs.sig, &cs.msg);
    if loose && !want {
        rep.count("ed25519_cases_accepted_only_by_non_strict_verification");
    }
    if cs.class == "valid" && !want {
        rep.count("generator_ed25519_valid_rejected_by_reference");
    }
    if let Ok(vk) = ed25519_dalek::VerifyingKey::from_bytes(&cs.pk) {
        if vk.is_weak() {
            rep.count("ed25519_weak_key_cases");
        }
    } else {
        rep.count("ed25519_undecodable_key_cases");
    }
    match lib_ed(&cs.pk, &cs.sig, &cs.msg) {
        Ok(got) => {
            rep.class(format!("ed25519|verify|{}|{}|{}", cs.class, ed_len_class(cs.msg.len()), if got { "accept" } else { "reject" }));
            rep.count(if got { "ed25519_accept" } else { "ed25519_reject" });
            if got != want {
                rep.violation(
                    format!("C17|ed25519|verify|library {} but verify_strict {}|{}", if got { "accepts" } else { "rejects" }, if want { "accepts" } else { "rejects" }, cs.class),
                    format!("ed25519::verify -> {got}, ed25519_dalek verify_strict -> {want} (non-strict verify -> {loose}); pk {} sig {} msg {}", hx(cs.pk), hx(cs.sig), hx(&cs.msg)),
                    || cs.json(),
                );
            }
        }
        Err(p) => {
            rep.count("panic_not_judged");
            rep.note(format!("ed25519::verify panicked ({}): {p}", cs.class));
        }
    }
    if rep.samples.len() < 4 && (cs.class == "s + L" || cs.class.starts_with("small-order A and R, s=0")) {
        rep.sample(|| json!({"curve": "ed25519", "class": cs.class, "pk": hx(cs.pk), "sig": hx(cs.sig), "msg": hx(&cs.msg), "verify_strict": want, "non_strict": loose}));
    }
}

// ---------------------------------------------------------------------------------------
// VM part
// ---------------------------------------------------------------------------------------

#[derive(Clone)]
struct VmCase {
    /// "ECK1" | "ECR1" | "ED19"
    op: String,
    class: String,
    /// ED19 only
    pk: Vec<u8>,
    sig: [u8; 64],
    /// 32 bytes for ECK1/ECR1; the bytes placed at the message pointer for ED19
    msg: Vec<u8>,
    /// ED19: value of the length register (0 means 32)
    len_reg: u64,
}

impl VmCase {
    fn json(&self) -> Value {
        json!({"op": self.op, "class": self.class, "pk": hx(&self.pk), "sig": hx(self.sig), "msg": hx(&self.msg), "len_reg": self.len_reg})
    }
    fn from_json(v: &Value) -> Option<Self> {
        Some(VmCase {
            op: v.get("op")?.as_str()?.to_string(),
            class: v.get("class")?.as_str()?.to_string(),
            pk: unhx(v.get("pk")?.as_str()?),
            sig: arr(v, "sig")?,
            msg: unhx(v.get("msg")?.as_str()?),
            len_reg: v.get("len_reg")?.as_u64()?,
        })
    }
}

/// structured malformed signatures for the recovery opcodes
fn structured_sig(rng: &mut Rng, c: Curve) -> (String, [u8; 64]) {
    let n = c.n();
    let half = b::shr1(&n);
    let (rl, r): (&str, B32) = match rng.below(7) {
        0 => ("r=0", b::ZERO),
        1 => ("r=1", b::from_u64(1)),
        2 => ("r=n-1", b::sub_u64(&n, 1)),
        3 => ("r=n", n),
        4 => ("r=ff..ff", b::MAX),
        5 => ("r=G.x", c.gx()),
        _ => ("r=random", rng.arr()),
    };
    let (sl, s): (&str, B32) = match rng.below(8) {
        0 => ("s=0", b::ZERO),
        1 => ("s=1", b::from_u64(1)),
        2 => ("s=n/2", half),
        3 => ("s=n/2+1", b::add_u64(&half, 1)),
        4 => ("s=2^255-1", b::sub_u64(&b::TOP, 1)),
        5 => ("s=n-1 (truncated)", b::sub_u64(&n, 1)),
        6 => ("s=n (truncated)", n),
        _ => ("s=random", rng.arr()),
    };
    let mut sig = [0u8; 64];
    sig[..32].copy_from_slice(&r);
    sig[32..].copy_from_slice(&s);
    sig[32] = (sig[32] & 0x7f) | ((rng.bool() as u8) << 7);
    (format!("{rl},{sl}"), sig)
}

fn gen_vm_case(rng: &mut Rng, rep: &mut Report) -> VmCase {
    match rng.below(3) {
        k @ (0 | 1) => {
            let c = if k == 0 { Curve::K1 } else { Curve::R1 };
            let kind = rng.below(10);
            if kind < 7 {
                let (a1, a2, a3) = (rng.below(6), rng.below(5), rng.below(N_MUT));
                let cs = gen_secp(rng, c, a1, a2, a3);
                if let Ok(Some(sig)) = lib_sign(c, &cs.sk, &cs.msg) {
                    let (class, sig, msg) = match kind {
                        0..=2 => ("valid".to_string(), sig, cs.msg),
                        3 => ("valid, other message".to_string(), sig, cs.other),
                        _ => {
                            let (l, m, _) = cs.mutation.apply(c, &sig);
                            (l.to_string(), m, cs.msg)
                        }
                    };
                    return VmCase { op: c.opname().into(), class, pk: vec![], sig, msg: msg.to_vec(), len_reg: 0 };
                }
                rep.count("vm_generator_sign_failed");
            }
            let (class, sig) = match kind {
                7 => ("all zero".to_string(), [0u8; 64]),
                8 => ("random 64 bytes".to_string(), rng.arr()),
                _ => structured_sig(rng, c),
            };
            let mk = rng.below(5);
            let (_, msg) = gen_msg(rng, mk);
            VmCase { op: c.opname().into(), class, pk: vec![], sig, msg: msg.to_vec(), len_reg: 0 }
        }
        _ => {
            // half of the cases valid so that both $err values are frequent
            let k = if rng.bool() { 0 } else { rng.below(N_ED) };
            match rng.below(8) {
                0 => {
                    // length register 0 over a 32-byte message: treated as 32
                    let e = gen_ed(rng, k, 32);
                    VmCase { op: "ED19".into(), class: format!("{}|len_reg=0 over 32 bytes", e.class), pk: e.pk.to_vec(), sig: e.sig, msg: e.msg, len_reg: 0 }
                }
                1 => {
                    // signature over the empty message, length register 0: the VM reads 32 bytes
                    let e = gen_ed(rng, k, 0);
                    VmCase { op: "ED19".into(), class: format!("{}|len_reg=0, signed empty message", e.class), pk: e.pk.to_vec(), sig: e.sig, msg: e.msg, len_reg: 0 }
                }
                _ => {
                    let l = ed_len(rng).max(1);
                    let mut e = gen_ed(rng, k, l);
                    if e.msg.is_empty() {
                        e.msg.push(0);
                    }
                    let l = e.msg.len() as u64;
                    VmCase { op: "ED19".into(), class: format!("{}|{}", e.class, ed_len_class(e.msg.len())), pk: e.pk.to_vec(), sig: e.sig, msg: e.msg, len_reg: l }
                }
            }
        }
    }
}

const FILLER: u8 = 0xA5;

/// Script, phase 1: all operand pointers and length values are put into registers (the ALU
/// instructions used for that zero `$err`). Phase 2, per case: copy a 64-byte non-zero
/// filler over the destination, run the opcode, `LOGD` the destination, `LOG $err` — no
/// instruction in phase 2 other than the three opcodes writes `$err`, so every opcode
/// starts with the `$err` its predecessor left.
/// Returns (script, script data).
fn build_script(cases: &[VmCase]) -> (Vec<Instruction>, Vec<u8>) {
    assert!(cases.len() <= MAX_PER_SCRIPT, "at most {MAX_PER_SCRIPT} cases per script");
    let mut data = vec![FILLER; 64];
    let mut ins = vec![
        op::gtf_args(0x10, 0x00, GTFArgs::ScriptData),
        op::movi(0x12, 64),
        op::aloc(0x12),
        op::move_(0x11, RegId::HP),
        op::move_(0x13, 0x10),
    ];
    let reg = |i: usize, k: u8| 0x18 + 4 * i as u8 + k;
    for (i, c) in cases.iter().enumerate() {
        let mut put = |bytes: &[u8], r: u8, ins: &mut Vec<Instruction>| {
            let off = data.len();
            data.extend_from_slice(bytes);
            ins.push(op::movi(0x14, off as u32));
            ins.push(op::add(r, 0x10, 0x14));
        };
        match c.op.as_str() {
            "ED19" => {
                put(&c.pk, reg(i, 0), &mut ins);
                put(&c.sig, reg(i, 1), &mut ins);
                // message followed by 32 bytes of padding: a zero length register makes the
                // VM read 32 bytes from the message pointer
                let mut m = c.msg.clone();
                m.extend_from_slice(&[0x5a; 32]);
                put(&m, reg(i, 2), &mut ins);
                ins.push(op::movi(reg(i, 3), c.len_reg as u32));
            }
            _ => {
                put(&c.sig, reg(i, 0), &mut ins);
                put(&c.msg, reg(i, 1), &mut ins);
            }
        }
    }
    for (i, c) in cases.iter().enumerate() {
        match c.op.as_str() {
            "ED19" => {
                ins.push(op::ed19(reg(i, 0), reg(i, 1), reg(i, 2), reg(i, 3)));
                ins.push(op::log(RegId::ERR, reg(i, 3), RegId::ZERO, RegId::ZERO));
            }
            name => {
                ins.push(op::mcpi(0x11, 0x13, 64));
                ins.push(if name == "ECK1" { op::eck1(0x11, reg(i, 0), reg(i, 1)) } else { op::ecr1(0x11, reg(i, 0), reg(i, 1)) });
                ins.push(op::logd(RegId::ZERO, RegId::ZERO, 0x11, 0x12));
                ins.push(op::log(RegId::ERR, RegId::ZERO, RegId::ZERO, RegId::ZERO));
            }
        }
    }
    ins.push(op::ret(RegId::ONE));
    (ins, data)
}
const MAX_PER_SCRIPT: usize = 10;

#[derive(Debug)]
enum Obs {
    Data(Vec<u8>),
    Log(u64),
}

/// what the library says the opcode must leave: (`$err`, 64 result bytes if any)
fn vm_expect(c: &VmCase) -> Result<(u64, Option<Vec<u8>>), String> {
    match c.op.as_str() {
        "ED19" => {
            let n = if c.len_reg == 0 { 32 } else { c.len_reg as usize };
            let mut m = c.msg.clone();
            m.extend_from_slice(&[0x5a; 32]);
            let pk: [u8; 32] = c.pk.as_slice().try_into().map_err(|_| "bad pk".to_string())?;
            let ok = lib_ed(&pk, &c.sig, &m[..n])?;
            Ok((if ok { 0 } else { 1 }, None))
        }
        name => {
            let curve = if name == "ECK1" { Curve::K1 } else { Curve::R1 };
            let msg: B32 = c.msg.as_slice().try_into().map_err(|_| "bad msg".to_string())?;
            match lib_recover(curve, &c.sig, &msg)? {
                Some(k) => Ok((0, Some(k.to_vec()))),
                None => Ok((1, Some(vec![0u8; 64]))),
            }
        }
    }
}

fn run_vm_script(rep: &mut Report, cases: &[VmCase]) {
    let (ins, data) = build_script(cases);
    let replay = || json!({"kind": "vm", "cases": cases.iter().map(|c| c.json()).collect::<Vec<_>>()});
    let script: Vec<u8> = ins.into_iter().collect();
    // building and checking the transaction is harness work (it signs the fee input with the
    // library): a failure there is not an opcode outcome
    let tx = guarded(|| {
        TransactionBuilder::script(script, data)
            .script_gas_limit(10_000_000)
            .maturity(Default::default())
            .add_fee_input()
            .finalize_checked(Default::default())
    });
    let tx = match tx {
        Ok(tx) => tx,
        Err(p) => {
            rep.count("vm_tx_build_failed");
            rep.note(format!("could not build/check the script transaction (not judged): {}", p.text));
            return;
        }
    };
    let receipts = guarded(|| {
        let mut client = MemoryClient::default();
        client.transact(tx).to_vec()
    });
    let receipts = match receipts {
        Ok(r) => r,
        Err(p) => {
            rep.violation(
                format!("C17|vm|script execution panicked|{}", p.site()),
                format!("executing a script with {} crypto opcodes panicked: {}", cases.len(), p.text),
                replay,
            );
            return;
        }
    };
    rep.count("vm_scripts");
    let mut obs = vec![];
    let mut finished = false;
    let mut panic_reason = None;
    for r in &receipts {
        match r {
            Receipt::LogData { data, len, .. } => {
                let d = data.as_ref().map(|d| d.to_vec()).unwrap_or_default();
                if *len != 64 || d.len() != 64 {
                    rep.inconclusive = Some(format!("C17 vm: unexpected LOGD length {len}"));
                }
                obs.push(Obs::Data(d));
            }
            Receipt::Log { ra, .. } => obs.push(Obs::Log(*ra)),
            Receipt::Panic { reason, .. } => panic_reason = Some(format!("{:?}", reason.reason())),
            Receipt::ScriptResult { result, .. } => finished = *result == ScriptExecutionResult::Success,
            _ => {}
        }
    }
    let mut it = obs.into_iter();
    let mut prev_err: Option<u64> = None;
    for (i, c) in cases.iter().enumerate() {
        rep.eval();
        let want = match vm_expect(c) {
            Ok(w) => w,
            Err(p) => {
                rep.count("panic_not_judged");
                rep.note(format!("library call panicked while computing the VM expectation: {p}"));
                return;
            }
        };
        let got_data = if want.1.is_some() {
            match it.next() {
                Some(Obs::Data(d)) => Some(d),
                _ => None,
            }
        } else {
            None
        };
        let got_err = match it.next() {
            Some(Obs::Log(e)) => Some(e),
            _ => None,
        };
        let Some(err) = got_err else {
            rep.violation(
                format!("C17|vm|{}|script stopped before the opcode's results were logged|{}", c.op, panic_reason.clone().unwrap_or_else(|| "no panic receipt".into())),
                format!("case {i} ({}, {}): receipts ended early; panic reason {:?}; in-bounds operands and sufficient gas were supplied", c.op, c.class, panic_reason),
                replay,
            );
            return;
        };
        rep.count(&format!("vm_{}_err{}", c.op, err.min(2)));
        rep.class(format!("vm|{}|{}|err={}", c.op, c.class, err));
        let before = prev_err;
        if let Some(p) = prev_err {
            rep.class(format!("vm|{}|err {}->{}", c.op, p, err));
            if p == 1 && err == 0 {
                rep.count("vm_err_cleared_after_failure");
            }
        }
        prev_err = Some(err);
        if err != want.0 {
            rep.violation(
                format!("C17|vm|{}|$err={} but the library call {}", c.op, err, if want.0 == 0 { "succeeds" } else { "fails" }),
                format!("case {i} ({}, {}): $err={err} ($err before the opcode: {before:?}), library expects {}; sig {} msg {} pk {} len_reg {}", c.op, c.class, want.0, hx(c.sig), hx(&c.msg), hx(&c.pk), c.len_reg),
                replay,
            );
        }
        if let Some(wd) = &want.1 {
            match got_data {
                Some(d) if d == *wd => {}
                Some(d) => {
                    let shape = if want.0 == 1 {
                        if d.iter().all(|x| *x == FILLER) { "destination not zeroed on failure" } else { "destination not zero on failure" }
                    } else {
                        "recovered key differs from the library's"
                    };
                    rep.violation(
                        format!("C17|vm|{}|{shape}", c.op),
                        format!("case {i} ({}, {}): memory {} expected {}; sig {} msg {}", c.op, c.class, hx(&d), hx(wd), hx(c.sig), hx(&c.msg)),
                        replay,
                    );
                }
                None => {
                    rep.violation(
                        format!("C17|vm|{}|no LOGD receipt", c.op),
                        format!("case {i} ({}, {})", c.op, c.class),
                        replay,
                    );
                    return;
                }
            }
        }
    }
    if !finished {
        rep.violation(
            format!("C17|vm|script did not finish successfully|{}", panic_reason.clone().unwrap_or_else(|| "no panic receipt".into())),
            format!("all results logged but the script result is not Success ({panic_reason:?})"),
            replay,
        );
    }
    if rep.samples.len() < 6 && rep.counter("vm_scripts") <= 1 {
        rep.sample(|| json!({"kind": "vm script", "cases": cases.iter().map(|c| json!({"op": c.op, "class": c.class})).collect::<Vec<_>>(),
            "receipts": receipts.iter().map(|r| format!("{r}")).collect::<Vec<_>>()}));
    }
}

// ---------------------------------------------------------------------------------------

fn replay(rec: &Value) -> Report {
    let mut rep = Report::new();
    let ok = match rec.get("kind").and_then(|k| k.as_str()) {
        Some("secp") => SecpCase::from_json(rec).map(|c| {
            judge_secp(&mut rep, &c);
        }),
        Some("ed25519") => EdCase::from_json(rec).map(|c| judge_ed(&mut rep, &c)),
        Some("vm") => rec
            .get("cases")
            .and_then(|c| c.as_array())
            .and_then(|a| a.iter().map(VmCase::from_json).collect::<Option<Vec<_>>>())
            .filter(|cases| cases.len() <= MAX_PER_SCRIPT)
            .map(|cases| run_vm_script(&mut rep, &cases)),
        _ => None,
    };
    if ok.is_none() {
        rep.inconclusive = Some(format!("C17: unusable replay record {rec}"));
    }
    rep.rule = "replay of one recorded case".into();
    rep
}

pub fn run(cfg: &Cfg) -> Report {
    if let Some(rec) = &cfg.replay {
        return replay(rec);
    }
    let per_curve = cfg.budget(3_000, 300_000);
    let vm_cases = cfg.budget(320, 20_000);
    const PER_SCRIPT: u64 = 8;
    let scripts = vm_cases.div_ceil(PER_SCRIPT);
    let threads = cfg.threads.max(1) as u64;
    let mut rep = par(cfg.threads, |w| {
        let mut rep = Report::new();
        let mut idx = w as u64;
        while idx < per_curve {
            for (ci, curve) in [Curve::K1, Curve::R1].into_iter().enumerate() {
                let mut rng = Rng::derive(cfg.seed, 0x1700 + ci as u64, idx);
                // the first 4*3*12 indices enumerate (key class, message class, mutation)
                let (ski, mi, muti) = if idx < 4 * 3 * N_MUT {
                    (idx % 4, (idx / 4) % 3, idx / 12)
                } else {
                    (rng.below(7), rng.below(6), rng.below(N_MUT))
                };
                let cs = gen_secp(&mut rng, curve, ski, mi, muti);
                judge_secp(&mut rep, &cs);
            }
            {
                let mut rng = Rng::derive(cfg.seed, 0x1702, idx);
                let k = if idx < N_ED * 4 { idx % N_ED } else if rng.chance(1, 4) { 0 } else { rng.below(N_ED) };
                let len = if idx <= 300 { idx as usize } else { ed_len(&mut rng) };
                let cs = gen_ed(&mut rng, k, len);
                judge_ed(&mut rep, &cs);
            }
            idx += threads;
        }
        let mut si = w as u64;
        while si < scripts {
            let mut rng = Rng::derive(cfg.seed, 0x1703, si);
            let mut cases = vec![];
            for _ in 0..PER_SCRIPT {
                cases.push(gen_vm_case(&mut rng, &mut rep));
            }
            run_vm_script(&mut rep, &cases);
            si += threads;
        }
        rep
    });
    rep.rule = "secp256k1/secp256r1: keys {1,2,n-1,random} x messages {0,ff..ff,random}: library signature normalised (s in [1,n/2] after removing the parity bit), accepted by the k256/p256 crate's verifier, recovers the key derived independently with k256/p256, verifies (k1), does not recover/verify for another message; one of 13 mutations (parity flip, bit flip per byte class of r and s, s->n-s with/without parity flip, swap, s replaced by a value in the high-s window (n/2, 2^255), ...) must not recover or verify against the signer's key, and a key recovered from an in-range signature verifies it. ed25519: 27 classes (valid, bit flips in R/s/A/message, s+L, s=0/L/L-1, small-order R and A incl. non-canonical encodings and triples accepted only by non-strict verification, undecodable A, ...) x message lengths 0..300: verdict == dalek verify_strict on the same triple. VM: scripts of 8 ECK1/ECR1/ED19 cases (operands in script data, destination pre-filled with 0xA5, LOGD + LOG $err): $err and the 64 bytes equal the library call's result (key and 0, or zeroes and 1); ED19 length register 0 means 32. class = (curve, operation, mutation class, outcome)".into();
    rep.assume("k256 / p256 crates (used directly) as the reference for public-key derivation and plain ECDSA verification; ed25519-dalek verify_strict as the Ed25519 reference (the property names it)");
    rep.assume("the (r, n-s, parity flipped) twin of a signature is not judged here (acceptance of high s is C16's subject)");
    rep.note("the library has no secp256r1 verify; r1 signatures are verified with the p256 crate");
    for k in ["secp256k1_signed", "secp256r1_signed", "secp256k1_recovered_signer", "secp256r1_recovered_signer", "secp256k1_verified"] {
        rep.gate(k, rep.counter(k), per_curve * 9 / 10);
    }
    rep.gate("ed25519_accept", rep.counter("ed25519_accept"), per_curve / 10);
    rep.gate("ed25519_reject", rep.counter("ed25519_reject"), per_curve / 4);
    rep.gate("ed25519_non_strict_only_cases", rep.counter("ed25519_cases_accepted_only_by_non_strict_verification"), 4);
    rep.gate("ed25519_weak_key_cases", rep.counter("ed25519_weak_key_cases"), 8);
    for o in ["ECK1", "ECR1", "ED19"] {
        for e in [0, 1] {
            let k = format!("vm_{o}_err{e}");
            rep.gate(&k, rep.counter(&k), 10);
        }
    }
    rep.gate("vm_err_cleared_after_failure", rep.counter("vm_err_cleared_after_failure"), 10);
    rep.gate("classes", rep.classes.len() as u64, 200);
    rep
}
