//! C33 Contract storage instructions behave like a key-value map.
//!
//! Oracle: `refmodel::kv` (one `BTreeMap<key, value>` per contract, written from the
//! instruction-set definition). A step monitor applies every *completed* storage
//! instruction to the model using operands taken from the state *before* the step and
//! compares result registers, destination memory, `$err` and the panic/no-panic decision;
//! after the transaction the storage's contract state must equal the model exactly. A
//! second transaction runs against the state left by the first with the model carried
//! over. With the free gas schedule a run in which the slot cache is emptied before every
//! instruction must end exactly like the normal run.
use super::grp_e::{
    outcomes_equal,
    replay_record,
    state_class,
};
use crate::{
    Cfg,
    Report,
    Rng,
    guarded,
    hx,
    par,
    prog::{
        self,
        Mode,
        Weights,
    },
    recstore::RecStorage,
    refmodel::kv::{
        Errs,
        Key,
        Kv,
        KvErr,
        range_contains,
    },
    scenario::{
        self,
        Scenario,
        ScenarioOpts,
    },
    stepbus::{
        BusOpts,
        MEM_SIZE,
        Snap,
        Step,
        StepEnd,
        StepMonitor,
        run_stepped,
        run_stepped_on,
        BusResult,
    },
    world::{
        Outcome,
        Vm,
        World,
        new_vm,
        outcome_of,
        run_plain,
    },
};
use fuel_asm::PanicReason;
use fuel_tx::Script;
use fuel_types::ContractId;
use fuel_vm::{
    checked_transaction::Ready,
    state::ProgramState,
};
use serde_json::{
    Value,
    json,
};
use std::collections::BTreeMap;

const STREAM: u64 = 33;
const QUICK_CASES: u64 = 120_000;
/// case count the gate lower bounds below were calibrated for
const GATE_BASE_CASES: u64 = 240_000;
const THOROUGH_CASES: u64 = 4_000_000;

// opcode bytes and operand layout from the instruction-set tables (rA = bits 23..18,
// rB = 17..12, rC = 11..6, rD / imm06 = 5..0, imm12 = 11..0)
const SCWQ: u8 = 0x37;
const SRW: u8 = 0x38;
const SRWQ: u8 = 0x39;
const SWW: u8 = 0x3a;
const SWWQ: u8 = 0x3b;
const SCLR: u8 = 0xc0;
const SRDD: u8 = 0xc1;
const SRDI: u8 = 0xc2;
const SWRD: u8 = 0xc3;
const SWRI: u8 = 0xc4;
const SUPD: u8 = 0xc5;
const SUPI: u8 = 0xc6;
const SPLD: u8 = 0xc7;

pub const OPS: [&str; 13] = ["SRW", "SRWQ", "SWW", "SWWQ", "SCWQ", "SCLR", "SRDD", "SRDI", "SWRD", "SWRI", "SUPD", "SUPI", "SPLD"];

const R_OF: usize = 2;
const R_PC: usize = 3;
const R_ERR: usize = 8;
const R_GGAS: usize = 9;
const R_CGAS: usize = 10;

#[derive(Clone, Debug)]
enum Op {
    Srw { dst: usize, status: usize, kp: u64, off: u64 },
    Srwq { dp: u64, status: usize, kp: u64, n: u64 },
    Sww { kp: u64, status: usize, val: u64 },
    Swwq { kp: u64, status: usize, sp: u64, n: u64 },
    Scwq { kp: u64, status: usize, n: u64 },
    Sclr { kp: u64, n: u64 },
    Srd { dp: u64, kp: u64, off: u64, len: u64 },
    Swr { kp: u64, sp: u64, len: u64 },
    Sup { kp: u64, sp: u64, off: u64, len: u64 },
    Spld { dst: usize, kp: u64 },
}

impl Op {
    fn key_ptr(&self) -> u64 {
        match self {
            Op::Srw { kp, .. }
            | Op::Srwq { kp, .. }
            | Op::Sww { kp, .. }
            | Op::Swwq { kp, .. }
            | Op::Scwq { kp, .. }
            | Op::Sclr { kp, .. }
            | Op::Srd { kp, .. }
            | Op::Swr { kp, .. }
            | Op::Sup { kp, .. }
            | Op::Spld { kp, .. } => *kp,
        }
    }
    /// number of consecutive keys a panicking instance of this instruction might have
    /// modified before it stopped (0 = the instruction never writes)
    fn written_range(&self) -> u64 {
        match self {
            Op::Sww { .. } | Op::Swr { .. } | Op::Sup { .. } => 1,
            Op::Swwq { n, .. } | Op::Scwq { n, .. } | Op::Sclr { n, .. } => *n,
            _ => 0,
        }
    }
}

fn decode(word: u32, pre: &Snap) -> Option<(&'static str, Op)> {
    let opc = (word >> 24) as u8;
    let ia = ((word >> 18) & 0x3f) as usize;
    let ib = ((word >> 12) & 0x3f) as usize;
    let ic = ((word >> 6) & 0x3f) as usize;
    let id = (word & 0x3f) as usize;
    let imm06 = (word & 0x3f) as u64;
    let imm12 = (word & 0xfff) as u64;
    let r = |i: usize| pre.regs[i];
    Some(match opc {
        SRW => ("SRW", Op::Srw { dst: ia, status: ib, kp: r(ic), off: imm06 }),
        SRWQ => ("SRWQ", Op::Srwq { dp: r(ia), status: ib, kp: r(ic), n: r(id) }),
        SWW => ("SWW", Op::Sww { kp: r(ia), status: ib, val: r(ic) }),
        SWWQ => ("SWWQ", Op::Swwq { kp: r(ia), status: ib, sp: r(ic), n: r(id) }),
        SCWQ => ("SCWQ", Op::Scwq { kp: r(ia), status: ib, n: r(ic) }),
        SCLR => ("SCLR", Op::Sclr { kp: r(ia), n: r(ib) }),
        SRDD => ("SRDD", Op::Srd { dp: r(ia), kp: r(ib), off: r(ic), len: r(id) }),
        SRDI => ("SRDI", Op::Srd { dp: r(ia), kp: r(ib), off: r(ic), len: imm06 }),
        SWRD => ("SWRD", Op::Swr { kp: r(ia), sp: r(ib), len: r(ic) }),
        SWRI => ("SWRI", Op::Swr { kp: r(ia), sp: r(ib), len: imm12 }),
        SUPD => ("SUPD", Op::Sup { kp: r(ia), sp: r(ib), off: r(ic), len: r(id) }),
        SUPI => ("SUPI", Op::Sup { kp: r(ia), sp: r(ib), off: r(ic), len: imm06 }),
        SPLD => ("SPLD", Op::Spld { dst: ia, kp: r(ib) }),
        _ => return None,
    })
}

/// one of the *input* registers of the storage instruction is `$ggas` or `$cgas`
fn gas_register_operand(word: u32) -> bool {
    let f = [((word >> 18) & 0x3f) as usize, ((word >> 12) & 0x3f) as usize, ((word >> 6) & 0x3f) as usize, (word & 0x3f) as usize];
    let inputs: &[usize] = match (word >> 24) as u8 {
        SRW => &[2],
        SRWQ => &[0, 2, 3],
        SWW => &[0, 2],
        SWWQ => &[0, 2, 3],
        SCWQ => &[0, 2],
        SCLR => &[0, 1],
        SRDD | SUPD => &[0, 1, 2, 3],
        SRDI | SUPI | SWRD => &[0, 1, 2],
        SWRI => &[0, 1],
        SPLD => &[1],
        _ => &[],
    };
    inputs.iter().any(|i| f[*i] == R_GGAS || f[*i] == R_CGAS)
}

/// `C33_TRACE=1` prints every storage step (debugging aid for replays)
fn trace_enabled() -> bool {
    static T: std::sync::OnceLock<bool> = std::sync::OnceLock::new();
    *T.get_or_init(|| std::env::var_os("C33_TRACE").is_some())
}

fn slot_class(v: Option<&Vec<u8>>) -> &'static str {
    match v.map(|v| v.len()) {
        None => "absent",
        Some(32) => "32-byte",
        Some(n) if n < 32 => "short",
        Some(_) => "long",
    }
}

fn bytes_or_empty(s: &Snap, addr: u64, len: u64) -> Option<Vec<u8>> {
    if len == 0 { Some(vec![]) } else { s.bytes(addr, len) }
}

/// first address outside `[skip.0, skip.0+skip.1)` whose byte differs between the two
/// snapshots (compared where both have memory)
fn first_stray_write(pre: &Snap, post: &Snap, skip: (u64, u64)) -> Option<u64> {
    let (s0, s1) = (skip.0, skip.0.saturating_add(skip.1));
    let seg = |a: &[u8], b: &[u8], base: u64| -> Option<u64> {
        // a, b: equally long views starting at address `base`
        let n = a.len() as u64;
        let parts = [(base, s0.clamp(base, base + n)), (s1.clamp(base, base + n), base + n)];
        for (lo, hi) in parts {
            if lo >= hi {
                continue;
            }
            let (x, y) = (&a[(lo - base) as usize..(hi - base) as usize], &b[(lo - base) as usize..(hi - base) as usize]);
            if x != y {
                let i = x.iter().zip(y.iter()).position(|(p, q)| p != q).unwrap_or(0);
                return Some(lo + i as u64);
            }
        }
        None
    };
    let n = pre.stack.len().min(post.stack.len());
    if let Some(a) = seg(&pre.stack[..n], &post.stack[..n], 0) {
        return Some(a);
    }
    let m = pre.heap.len().min(post.heap.len());
    let base = MEM_SIZE - m as u64;
    seg(&pre.heap[pre.heap.len() - m..], &post.heap[post.heap.len() - m..], base)
}

pub type Model = BTreeMap<ContractId, Kv>;

pub fn model_of_storage(st: &fuel_vm::storage::MemoryStorage) -> Model {
    let mut m = Model::new();
    for (k, v) in st.all_contract_state() {
        let key: Key = **k.state_key();
        m.entry(*k.contract_id()).or_default().slots.insert(key, (v.as_ref() as &[u8]).to_vec());
    }
    m
}

pub struct KvMon {
    pub model: Model,
    max_len: u64,
    tx_no: u8,
    /// the model could not follow an instruction (reason); nothing is judged afterwards
    pub lost: Option<String>,
    /// key ranges a panicked writing instruction may have modified partially
    uncertain: Vec<(ContractId, Key, u64, String)>,
    /// (transaction, call serial) of the last completed write of a slot
    pub writers: BTreeMap<(ContractId, Key), (u8, u64)>,
    call_serial: u64,
    pub final_equal: bool,
    pub storage_steps_completed: u64,
}

impl KvMon {
    pub fn new(w: &World, model: Model, writers: BTreeMap<(ContractId, Key), (u8, u64)>, tx_no: u8) -> Self {
        let mut model = model;
        for kv in model.values_mut() {
            kv.begin_tx();
        }
        Self { model, max_len: w.params.script_params().max_storage_slot_length(), tx_no, lost: None, uncertain: vec![], writers, call_serial: 0, final_equal: false, storage_steps_completed: 0 }
    }

    fn lose(&mut self, why: &str, rep: &mut Report) {
        rep.count(&format!("model_lost_{why}"));
        self.lost = Some(why.to_string());
    }
}

struct Expect {
    /// (register index, value, description)
    regs: Vec<(usize, u64, &'static str)>,
    /// destination range and its expected contents
    mem: Option<(u64, Vec<u8>)>,
    err: Option<u64>,
    outcome: String,
}

impl StepMonitor for KvMon {
    fn on_step(&mut self, _w: &World, s: &Step, rep: &mut Report) {
        let Some(word) = s.word else {
            return;
        };
        if s.instr.is_none() {
            return; // not a valid instruction word
        }
        if (word >> 24) == 0x2d && s.post.fp() != s.pre.fp() {
            self.call_serial += 1; // CALL entered a new frame
        }
        let Some((name, op)) = decode(word, s.pre) else {
            return;
        };
        if gas_register_operand(word) {
            // gas is charged before the operands are read: the value the instruction
            // saw in $ggas/$cgas is not the one of the snapshot. Not judged, and the
            // model cannot follow.
            if self.lost.is_none() {
                self.lose("gas_register_operand", rep);
            }
            return;
        }
        if s.ambiguous_self_jump() || matches!(s.end, StepEnd::Error(_)) {
            rep.count("unjudged_ambiguous_or_errored_storage_steps");
            return;
        }
        if self.lost.is_some() {
            rep.count("storage_steps_after_model_lost");
            return;
        }
        if !s.pre.mem_captured {
            return;
        }
        rep.eval();
        let (pre, post) = (s.pre, s.post);
        let own = s.own_panic();
        if trace_enabled() {
            eprintln!("tx{} step {} pc {} fp {} {name} {op:?} own_panic {own:?} end {:?}", self.tx_no, s.index, pre.pc(), pre.fp(), s.end);
        }
        let tx = self.tx_no;
        // --- context
        if pre.fp() == 0 {
            match own {
                None => {
                    rep.violation(format!("C33|{name}|completed in an external (script) context"), format!("word {word:08x} at pc {}", pre.pc()), || json!(null));
                    self.lose("completed_in_external_context", rep);
                }
                Some(r) => {
                    rep.count("external_context_panics");
                    rep.class(format!("{name}|external|-|panic:{r:?}"));
                }
            }
            return;
        }
        let Some(cid) = pre.bytes(pre.fp(), 32).and_then(|b| <[u8; 32]>::try_from(b).ok()).map(ContractId::new) else {
            rep.count("unjudged_frame_unreadable");
            return;
        };
        let Some(key) = pre.bytes(op.key_ptr(), 32).and_then(|b| Key::try_from(b).ok()) else {
            match own {
                None => self.lose("completed_with_unreadable_key", rep),
                Some(r) => {
                    rep.count("bad_key_pointer_panics");
                    rep.class(format!("{name}|bad-key-pointer|-|panic:{r:?}"));
                }
            }
            return;
        };
        let max_len = self.max_len;
        let kv = self.model.entry(cid).or_default();
        let slot = slot_class(kv.get(&key));
        let cache = if kv.was_touched(&key) { "hot" } else { "cold" };
        // sequential reads/writes of more slots than memory can hold cannot complete;
        // keep the model's loops bounded
        if let Op::Srwq { n, .. } | Op::Swwq { n, .. } = &op {
            if *n > MEM_SIZE / 32 {
                match own {
                    None => self.lose("completed_huge_range", rep),
                    Some(r) => {
                        rep.count("huge_range_panics");
                        rep.class(format!("{name}|{slot}|{cache}|huge-range|panic:{r:?}"));
                        if op.written_range() > 0 {
                            self.uncertain.push((cid, key, *n, format!("{name}_panic_{r:?}")));
                        }
                    }
                }
                return;
            }
        }
        // --- what the model says about validity (without needing source bytes)
        let errs: Errs = match &op {
            Op::Srw { off, .. } => kv.read_word(&key, *off).err().unwrap_or_default(),
            Op::Srwq { n, .. } => kv.read_slots(&key, *n).err().unwrap_or_default(),
            Op::Sww { .. } => Errs::new(),
            Op::Swwq { n, .. } => kv.write_slots_errs(&key, *n),
            Op::Scwq { n, .. } | Op::Sclr { n, .. } => kv.clear_errs(&key, *n),
            Op::Srd { off, len, .. } => kv.read_dyn(&key, *off, *len).err().unwrap_or_default(),
            Op::Swr { len, .. } => kv.write_dyn_errs(*len, max_len),
            Op::Sup { off, len, .. } => kv.update_plan(&key, *off, *len, max_len).err().unwrap_or_default(),
            Op::Spld { .. } => Errs::new(),
        };
        // --- the instruction panicked
        if let Some(reason) = own {
            let as_kv = match reason {
                PanicReason::StorageOutOfBounds => Some(KvErr::OutOfBounds),
                PanicReason::TooManySlots => Some(KvErr::TooManySlots),
                _ => None,
            };
            match as_kv {
                Some(e) if !errs.contains(&e) => {
                    rep.violation(
                        format!("C33|{name}|panic {reason:?} although the reference model expects {}", if errs.is_empty() { "success".to_string() } else { format!("{errs:?}") }),
                        format!("tx{tx} contract {cid} key {} slot {slot} ({:?} bytes) op {op:?}", hx(key), kv.len_of(&key)),
                        || json!(null),
                    );
                }
                Some(_) => rep.count("storage_panics_confirmed_by_model"),
                None => {
                    rep.count("storage_steps_preempted_by_other_panic");
                    if !errs.is_empty() {
                        rep.count("model_error_preempted_by_other_panic");
                    }
                }
            }
            rep.class(format!("{name}|{slot}|{cache}|panic:{reason:?}"));
            let n = op.written_range();
            if n > 0 {
                self.uncertain.push((cid, key, n, format!("{name}_panic_{reason:?}")));
            }
            return;
        }
        // --- the instruction completed
        if !errs.is_empty() {
            rep.violation(
                format!("C33|{name}|completed although the reference model expects {errs:?}"),
                format!("tx{tx} contract {cid} key {} slot {slot} ({:?} bytes) op {op:?}", hx(key), kv.len_of(&key)),
                || json!(null),
            );
            self.lose("completed_invalid_access", rep);
            return;
        }
        self.storage_steps_completed += 1;
        rep.count(&format!("completed_{name}"));
        let mut ex = Expect { regs: vec![], mem: None, err: None, outcome: String::new() };
        let mut status_unspecified = false;
        match &op {
            Op::Srw { dst, status, off, .. } => {
                let v = kv.read_word(&key, *off).expect("checked");
                kv.touch(&key);
                if dst == status {
                    rep.count("unspecified_srw_same_destination_and_status");
                } else {
                    ex.regs.push((*dst, v.unwrap_or(0), "destination"));
                    ex.regs.push((*status, v.is_some() as u64, "status"));
                }
                if v.is_some() {
                    rep.count("reads_of_present_slots");
                }
                ex.outcome = if v.is_some() { "word".into() } else { "absent".into() };
            }
            Op::Srwq { dp, status, n, .. } => {
                let r = kv.read_slots(&key, *n).expect("checked");
                kv.touch_range(&key, *n);
                if *n == 0 {
                    status_unspecified = true;
                    ex.regs.push((*status, u64::MAX, "status"));
                } else {
                    ex.regs.push((*status, r.all_set as u64, "status"));
                }
                if r.data.iter().any(|b| *b != 0) {
                    rep.count("reads_of_present_slots");
                }
                ex.outcome = format!("n={}|all_set={}", crate::bucket(*n), r.all_set);
                ex.mem = Some((*dp, r.data));
            }
            Op::Sww { status, val, .. } => {
                let created = kv.write_word(&key, *val);
                kv.touch(&key);
                ex.regs.push((*status, created as u64, "status"));
                ex.outcome = format!("created={created}");
            }
            Op::Swwq { status, sp, n, .. } => {
                let Some(data) = bytes_or_empty(pre, *sp, 32 * *n) else {
                    self.lose("completed_with_unreadable_source", rep);
                    return;
                };
                let created = kv.write_slots(&key, *n, &data).expect("checked");
                kv.touch_range(&key, *n);
                ex.regs.push((*status, created, "status"));
                ex.outcome = format!("n={}|created={}", crate::bucket(*n), crate::bucket(created));
            }
            Op::Scwq { status, n, .. } => {
                let all = kv.clear(&key, *n).expect("checked");
                kv.touch_range(&key, *n);
                if *n == 0 {
                    status_unspecified = true;
                    ex.regs.push((*status, u64::MAX, "status"));
                } else {
                    ex.regs.push((*status, all as u64, "status"));
                }
                ex.outcome = format!("n={}|all_set={all}", crate::bucket(*n));
            }
            Op::Sclr { n, .. } => {
                let all = kv.clear(&key, *n).expect("checked");
                kv.touch_range(&key, *n);
                ex.outcome = format!("n={}|all_set={all}", crate::bucket(*n));
            }
            Op::Srd { dp, off, len, .. } => {
                let r = kv.read_dyn(&key, *off, *len).expect("checked");
                kv.touch(&key);
                match r {
                    Some(b) => {
                        rep.count("reads_of_present_slots");
                        let vlen = kv.len_of(&key).unwrap_or(0);
                        let pos = if *off as u128 + *len as u128 == vlen as u128 { "to-end" } else { "inside" };
                        ex.outcome = format!("len={}|{pos}", crate::bucket(*len));
                        ex.err = Some(0);
                        ex.mem = Some((*dp, b));
                    }
                    None => {
                        ex.outcome = "absent".into();
                        ex.err = Some(1);
                    }
                }
            }
            Op::Swr { sp, len, .. } => {
                let Some(data) = bytes_or_empty(pre, *sp, *len) else {
                    self.lose("completed_with_unreadable_source", rep);
                    return;
                };
                kv.write_dyn(&key, &data, max_len).expect("checked");
                kv.touch(&key);
                ex.outcome = format!("len={}", crate::bucket(*len));
            }
            Op::Sup { sp, off, len, .. } => {
                let Some(data) = bytes_or_empty(pre, *sp, *len) else {
                    self.lose("completed_with_unreadable_source", rep);
                    return;
                };
                let before = kv.len_of(&key);
                kv.update(&key, *off, &data, max_len).expect("checked");
                kv.touch(&key);
                let after = kv.len_of(&key).unwrap_or(0);
                let kind = if *off == u64::MAX { "append-marker" } else if Some(*off) == before || (before.is_none() && *off == 0) { "at-end" } else { "inside" };
                ex.outcome = format!("{kind}|len={}|grew={}", crate::bucket(*len), after > before.unwrap_or(0));
                if before.is_none() && *len == 0 {
                    rep.count("assumed_zero_length_update_creates_empty_slot");
                }
            }
            Op::Spld { dst, .. } => {
                let l = kv.len_of(&key);
                kv.touch(&key);
                ex.regs.push((*dst, l.unwrap_or(0), "length"));
                ex.err = Some(l.is_none() as u64);
                if l.is_some() {
                    rep.count("reads_of_present_slots");
                }
                ex.outcome = if l.is_some() { "length".into() } else { "absent".into() };
            }
        }
        rep.class(format!("{name}|{slot}|{cache}|{}", ex.outcome));
        {
            let me = (tx, self.call_serial);
            let is_read = matches!(op, Op::Srw { .. } | Op::Srwq { .. } | Op::Srd { .. } | Op::Spld { .. });
            if is_read {
                if slot != "absent" {
                    match self.writers.get(&(cid, key)) {
                        Some((t, _)) if *t != tx => rep.count("reads_of_slots_written_by_the_previous_transaction"),
                        Some((_, c)) if *c != me.1 => rep.count("reads_of_slots_written_by_an_earlier_call"),
                        Some(_) => rep.count("reads_of_slots_written_by_the_same_call"),
                        None => rep.count("reads_of_slots_of_the_initial_state"),
                    }
                }
            } else {
                let n = match &op {
                    Op::Swwq { n, .. } | Op::Scwq { n, .. } | Op::Sclr { n, .. } => (*n).min(64),
                    _ => 1,
                };
                for i in 0..n {
                    if let Some(k) = crate::refmodel::kv::key_add(&key, i) {
                        self.writers.insert((cid, k), me);
                    }
                }
            }
        }
        if status_unspecified {
            rep.count("unspecified_status_of_empty_range");
        }
        if !matches!(s.end, StepEnd::Continue) {
            // `post` includes the VM epilogue: results are not comparable
            rep.count("completed_terminal_storage_steps_results_unchecked");
            return;
        }
        // --- registers
        let detail = || format!("tx{tx} contract {cid} key {} slot {slot} {cache} op {op:?}", hx(key));
        let mut outs: Vec<usize> = vec![];
        for (i, want, what) in ex.regs.iter() {
            outs.push(*i);
            if *i < 16 {
                // cannot be written (the instruction would have panicked) or $zero
                rep.count("unjudged_reserved_result_register");
                continue;
            }
            if *want == u64::MAX && status_unspecified {
                continue;
            }
            rep.count("result_registers_checked");
            if post.regs[*i] != *want {
                rep.violation(format!("C33|{name}|{what} register differs from the reference model|{}", ex.outcome_kind()), format!("{}: register {i} = {}, expected {want}", detail(), post.regs[*i]), || json!(null));
            }
        }
        match ex.err {
            Some(e) => {
                rep.count("err_register_checked");
                if post.regs[R_ERR] != e {
                    rep.violation(format!("C33|{name}|$err differs from the reference model|{}", ex.outcome_kind()), format!("{}: $err = {}, expected {e}", detail(), post.regs[R_ERR]), || json!(null));
                }
            }
            None => {
                if post.regs[R_ERR] != pre.regs[R_ERR] && !outs.contains(&R_ERR) {
                    rep.count("unspecified_err_changed_by_instruction_without_err_result");
                }
            }
        }
        if post.regs[R_OF] != pre.regs[R_OF] {
            rep.count("unspecified_of_changed_by_storage_instruction");
        }
        for i in 0..64usize {
            if [R_OF, R_PC, R_ERR, R_GGAS, R_CGAS].contains(&i) || outs.contains(&i) {
                continue;
            }
            if post.regs[i] != pre.regs[i] {
                rep.violation(format!("C33|{name}|a register that is not a result of the instruction changed"), format!("{}: register {i} {} -> {}", detail(), pre.regs[i], post.regs[i]), || json!(null));
                break;
            }
        }
        // --- memory
        let skip = match &ex.mem {
            Some((dp, want)) => {
                match bytes_or_empty(post, *dp, want.len() as u64) {
                    Some(got) => {
                        rep.count("destination_memory_checked");
                        rep.count_n("destination_bytes_checked", want.len() as u64);
                        if &got != want {
                            let at = got.iter().zip(want.iter()).position(|(a, b)| a != b).unwrap_or(0);
                            rep.violation(
                                format!("C33|{name}|destination memory differs from the reference model"),
                                format!("{}: first difference at byte {at} of {}: got {} expected {}", detail(), want.len(), hx(&got[at..(at + 16).min(got.len())]), hx(&want[at..(at + 16).min(want.len())])),
                                || json!(null),
                            );
                        }
                    }
                    None => rep.count("unjudged_destination_unreadable_after_step"),
                }
                (*dp, want.len() as u64)
            }
            None => (0, 0),
        };
        if let Some(a) = first_stray_write(pre, post, skip) {
            rep.violation(format!("C33|{name}|memory outside the destination changed"), format!("{}: address {a}", detail()), || json!(null));
        }
        rep.sample(|| {
            json!({"tx": tx, "op": format!("{op:?}"), "name": name, "contract": cid.to_string(), "key": hx(key), "slot_before": slot, "cache": cache,
                "model_result": {"registers": ex.regs.iter().map(|(i, v, w)| json!({"reg": i, "value": v, "what": w})).collect::<Vec<_>>(), "err": ex.err, "memory": ex.mem.as_ref().map(|(p, b)| json!({"at": p, "bytes": hx(&b[..b.len().min(64)])}))},
                "observed": {"err": post.regs[R_ERR], "registers": ex.regs.iter().map(|(i, _, _)| post.regs[*i]).collect::<Vec<_>>()}})
        });
    }

    fn on_finish(&mut self, _w: &World, out: &Outcome, vm: &Vm, rep: &mut Report) {
        if self.lost.is_some() {
            rep.count("final_state_comparisons_skipped_model_lost");
            return;
        }
        let st: &RecStorage = vm.as_ref();
        let mut actual: BTreeMap<(ContractId, Key), Vec<u8>> = BTreeMap::new();
        for (k, v) in st.inner.all_contract_state() {
            actual.insert((*k.contract_id(), **k.state_key()), (v.as_ref() as &[u8]).to_vec());
        }
        let mut expected: BTreeMap<(ContractId, Key), Vec<u8>> = BTreeMap::new();
        for (c, kv) in self.model.iter() {
            for (k, v) in kv.slots.iter() {
                expected.insert((*c, *k), v.clone());
            }
        }
        let ended = match &out.state {
            Ok(s) => {
                let c = state_class(s, out);
                if c.starts_with("panic") { "panic".to_string() } else { c }
            }
            Err(_) => "error".to_string(),
        };
        let keys: std::collections::BTreeSet<(ContractId, Key)> = actual.keys().chain(expected.keys()).cloned().collect();
        let mut equal = true;
        for ck in keys.iter() {
            let (a, e) = (actual.get(ck), expected.get(ck));
            if a == e {
                continue;
            }
            if let Some(u) = self.uncertain.iter().find(|(c, start, n, _)| *c == ck.0 && range_contains(start, *n, &ck.1)) {
                rep.count("unspecified_partial_effect_of_panicked_write_instruction");
                rep.count(&format!("partial_effect_{}", u.3));
                equal = false;
                continue;
            }
            equal = false;
            let kind = match (a, e) {
                (Some(_), None) => "slot present in storage but absent in the reference model",
                (None, Some(_)) => "slot absent in storage but present in the reference model",
                _ => "slot value differs from the reference model",
            };
            rep.violation(
                format!("C33|final state|{kind}|transaction ended with {ended}"),
                format!("tx{} contract {} key {}: storage {:?} model {:?}", self.tx_no, ck.0, hx(ck.1), a.map(|x| hx(x)), e.map(|x| hx(x))),
                || json!(null),
            );
        }
        self.final_equal = equal;
        rep.count("final_state_comparisons");
        rep.count_n("final_state_slots_compared", keys.len() as u64);
        if self.storage_steps_completed > 0 {
            rep.count("final_state_comparisons_after_storage_activity");
        }
        rep.class(format!("final|{ended}|slots={}|storage-steps={}", crate::bucket(keys.len() as u64), crate::bucket(self.storage_steps_completed)));
    }
}

impl Expect {
    /// value-free part of the outcome string (signatures must not contain values)
    fn outcome_kind(&self) -> String {
        self.outcome.split('|').next().unwrap_or("").split('=').next().unwrap_or("").to_string()
    }
}

/// Differential for the cache clause: single-step and empty the slot cache before every
/// instruction. None = cut at the step cap.
fn run_cache_cleared(w: &World, ready: Ready<Script>, max_steps: u64) -> Option<Outcome> {
    let mut vm = new_vm(w);
    vm.set_single_stepping(true);
    let wrap = |r: Result<Result<ProgramState, String>, crate::Panicked>| match r {
        Ok(x) => x,
        Err(p) => Err(format!("HOST PANIC: {}", p.text)),
    };
    let mut cur = wrap(guarded(|| vm.transact(ready).map(|s| *s.state()).map_err(|e| format!("{e:?}"))));
    let mut steps = 0u64;
    while matches!(cur, Ok(ProgramState::RunProgram(_))) {
        steps += 1;
        if steps > max_steps {
            return None;
        }
        vm.bench_storage_slot_cache_mut().clear();
        cur = wrap(guarded(|| vm.resume().map_err(|e| format!("{e:?}"))));
    }
    vm.set_single_stepping(false);
    Some(outcome_of(w, &vm, cur))
}

fn case_opts(idx: u64, _rng: &mut Rng) -> ScenarioOpts {
    let schedule = [0u8, 2, 1, 2][(idx % 4) as usize];
    let mut w = Weights::default();
    w.call = 40;
    w.storage = 20; // scripts get storage/20: storage instructions outside a contract
    w.flow = 8;
    w.money = 2;
    w.query = 2;
    w.introspect = 2;
    w.crypto = 1;
    w.wide = 1;
    let mut cw = Weights::default();
    cw.storage = 70;
    cw.storage_rich = 800;
    cw.call = 8;
    cw.flow = 10;
    cw.money = 1;
    cw.query = 2;
    cw.crypto = 1;
    cw.wide = 1;
    if schedule != 0 {
        // with free / unit gas nothing bounds hostile allocation sizes and slot counts
        // (a random word decoding to EPAR with a huge element count aborts the process in
        // Vec::with_capacity when the schedule's per-element cost is zero)
        w.hostile = 0;
        w.garbage = 0;
        cw.hostile = 0;
        cw.garbage = 0;
    } else {
        w.hostile = 20;
        cw.hostile = 25;
    }
    let max_storage_slot_length = match idx % 5 {
        0 => Some(96),
        1 => Some(256),
        _ => None,
    };
    ScenarioOpts { weights: w, contract_weights: cw, schedule, script_snippets: 20, contract_snippets: 14, tight_gas: 50, max_storage_slot_length, ..Default::default() }
}

fn attach(case: &mut Report, replay: &Value) {
    for v in case.violations.iter_mut() {
        if v.replay.is_null() {
            v.replay = replay.clone();
        }
    }
}

struct TxRun {
    mon: KvMon,
    vm: Vm,
    plain: Outcome,
    ok: bool,
}

/// plain run + stepped run with the monitor (+ cache differential); merges the verdicts
/// if both runs agree
fn run_tx(w: &World, ready: Ready<Script>, model: Model, writers: BTreeMap<(ContractId, Key), (u8, u64)>, tx_no: u8, free_gas: bool, bus: &BusOpts, replay: &Value, rep: &mut Report, reuse: Option<Vm>) -> Option<TxRun> {
    // the stepped run goes first: it is cut at the step cap, whereas a plain run of a
    // generated program with an (almost) endless loop never ends under the free schedule
    let mut mon = KvMon::new(w, model, writers, tx_no);
    let mut case_rep = Report::new();
    let res = {
        let mut refs: Vec<&mut dyn StepMonitor> = vec![&mut mon];
        match reuse {
            None => run_stepped(w, ready.clone(), bus, &mut refs, &mut case_rep),
            // the interpreter instance (memory, slot cache, frames) of the previous
            // transaction is used again, as a long-lived client does; only its storage
            // is replaced by what the client would have after commit / rollback
            Some(mut vm) => {
                *AsMut::<RecStorage>::as_mut(&mut vm) = RecStorage::new(w.storage.clone());
                let p = run_stepped_on(w, &mut vm, ready.clone(), bus, &mut refs, &mut case_rep);
                BusResult { outcome: p.outcome, vm, steps: p.steps, truncated: p.truncated, host_panic: p.host_panic }
            }
        }
    };
    rep.count_n("steps_monitored", res.steps);
    if let Some(hp) = &res.host_panic {
        // a storage instruction that must end in a VM panic (or succeed) took the host down
        let site = hp.rsplit(" @ ").next().unwrap_or("").trim_start_matches("/repo/").to_string();
        let site = match site.strip_prefix("/rustc/") {
            Some(r) => r.splitn(2, '/').nth(1).unwrap_or(r).to_string(),
            None => site,
        };
        rep.violation(format!("C33|host panic while executing a storage workload|{site}"), format!("tx{tx_no}: {hp}"), || replay.clone());
    }
    attach(&mut case_rep, replay);
    // written-out examples of the not-judged partial effects (first case of each kind per worker)
    let partial: Vec<String> = case_rep.counters.keys().filter(|k| k.starts_with("partial_effect_")).cloned().collect();
    for k in partial {
        if rep.counter(&k) == 0 && replay["worker"].as_u64().unwrap_or(9) < 2 {
            rep.note(format!("example {k}: tx{tx_no} of case seed={} worker={} index={}", replay["seed"], replay["worker"], replay["index"]));
        }
    }
    if res.truncated {
        rep.count("runs_truncated_at_step_cap");
        rep.merge(case_rep);
        return None;
    }
    let (plain, _vm) = run_plain(w, ready.clone());
    if let Some(diff) = outcomes_equal(&plain, &res.outcome) {
        rep.count("stepped_run_differs_from_plain_run");
        rep.note(format!("stepped vs plain run differ ({diff}); step verdicts of that case discarded, see C32"));
        return None;
    }
    rep.merge(case_rep);
    if free_gas {
        match run_cache_cleared(w, ready, bus.max_steps) {
            None => rep.count("cache_differential_truncated"),
            Some(cleared) => {
                rep.count("cache_differential_runs");
                if mon.storage_steps_completed > 0 {
                    rep.count("cache_differential_runs_with_storage_activity");
                }
                if let Some(diff) = outcomes_equal(&plain, &cleared) {
                    rep.violation("C33|slot cache|run with the cache emptied before every instruction differs from the normal run (free gas schedule)", format!("tx{tx_no}: {diff}"), || replay.clone());
                }
            }
        }
    }
    let ok = matches!(plain.state, Ok(ProgramState::Return(_)) | Ok(ProgramState::ReturnData(_)))
        && !plain.receipts.iter().any(|r| matches!(r, fuel_tx::Receipt::Panic { .. } | fuel_tx::Receipt::Revert { .. }));
    match &plain.state {
        Ok(s) => {
            let c = state_class(s, &plain);
            rep.count(&format!("tx{tx_no}_end_{c}"));
        }
        Err(_) => rep.count(&format!("tx{tx_no}_end_error")),
    }
    Some(TxRun { mon, vm: res.vm, plain, ok })
}

fn one_case(seed: u64, worker: u64, idx: u64, rep: &mut Report) {
    let mut rng = Rng::derive(seed ^ (STREAM << 32), worker, idx);
    let o = case_opts(idx, &mut rng);
    let sc: Scenario = scenario::build(&mut rng, &o);
    let replay = replay_record(seed, STREAM, worker, idx, &sc);
    let ready = match sc.spec.ready(&sc.world, idx) {
        Ok(r) => r,
        Err(e) => {
            rep.count("generated_tx_rejected_by_checks");
            if rep.counter("generated_tx_rejected_by_checks") <= 3 {
                rep.note(format!("example rejection: {}", &e[..e.len().min(160)]));
            }
            return;
        }
    };
    rep.count("cases");
    let bus = BusOpts { capture_mem: true, max_steps: 20_000 };
    let free = o.schedule == 2;
    let Some(t1) = run_tx(&sc.world, ready, model_of_storage(&sc.world.storage), BTreeMap::new(), 1, free, &bus, &replay, rep, None) else {
        return;
    };
    if idx < 1 && worker == 0 {
        rep.sample(|| json!({"case": replay, "end_state": format!("{:?}", t1.plain.state), "receipts": t1.plain.receipts.len(), "storage_steps_completed": t1.mon.storage_steps_completed}));
    }
    // second transaction on the state left by the first. The client commits a successful
    // script; a failed one is rolled back as a whole, so nothing may carry over - not
    // even through the interpreter instance, which half of the time is the one that ran
    // the first transaction (slot cache, memory, frames of a long-lived client).
    if !t1.ok {
        // rolled back: the second transaction starts from the ORIGINAL storage
        if t1.mon.storage_steps_completed == 0 || idx % 2 != 0 {
            return;
        }
        let mut spec2 = sc.spec.clone();
        if rng.bool() {
            let n = 2 + rng.below(o.script_snippets as u64) as usize;
            spec2.script = prog::generate(&mut rng, &sc.env, Mode::Script, o.weights.clone(), n).bytes;
        }
        // else: the same script again (with enough gas it retraces the rolled-back accesses)
        spec2.gas_limit = 100_000 + rng.below(200_000);
        let Ok(ready2) = spec2.ready(&sc.world, idx ^ 0x5eed_0000_0000) else {
            rep.count("generated_tx_rejected_by_checks");
            return;
        };
        rep.count("second_transactions_after_rolled_back_first");
        if let Some(t2) = run_tx(&sc.world, ready2, model_of_storage(&sc.world.storage), BTreeMap::new(), 2, free, &bus, &replay, rep, Some(t1.vm)) {
            rep.count("second_transactions_on_reused_interpreter");
            if t2.mon.storage_steps_completed > 0 {
                rep.count("second_transactions_after_rollback_with_storage_activity");
            }
        }
        return;
    }
    if idx % 2 != 0 || t1.mon.lost.is_some() || !t1.mon.final_equal {
        return;
    }
    let mut w2 = sc.world.clone();
    {
        let st: &RecStorage = t1.vm.as_ref();
        w2.storage = st.inner.clone();
        w2.storage.commit();
    }
    let n = 2 + rng.below(o.script_snippets as u64) as usize;
    let script2 = prog::generate(&mut rng, &sc.env, Mode::Script, o.weights.clone(), n);
    let mut spec2 = sc.spec.clone();
    spec2.script = script2.bytes;
    spec2.gas_limit = 20_000 + rng.below(200_000);
    let Ok(ready2) = spec2.ready(&w2, idx ^ 0x5eed_0000_0000) else {
        rep.count("generated_tx_rejected_by_checks");
        return;
    };
    rep.count("second_transactions");
    let carried: u64 = t1.mon.model.values().map(|kv| kv.slots.len() as u64).sum();
    let reuse = if idx % 4 == 0 { Some(t1.vm) } else { None };
    let reused = reuse.is_some();
    if let Some(t2) = run_tx(&w2, ready2, t1.mon.model, t1.mon.writers, 2, free, &bus, &replay, rep, reuse) {
        if reused {
            rep.count("second_transactions_on_reused_interpreter");
        }
        if t2.mon.storage_steps_completed > 0 && carried > 0 {
            rep.count("second_transactions_with_storage_activity_on_carried_state");
        }
    }
}

pub fn run(cfg: &Cfg) -> Report {
    let mut rep = if let Some(r) = &cfg.replay {
        let c = r.get("case").unwrap_or(r);
        let mut rep = Report::new();
        let seed = c["seed"].as_u64().unwrap_or(0);
        let worker = c["worker"].as_u64().unwrap_or(0);
        let idx = c["index"].as_u64().unwrap_or(0);
        one_case(seed, worker, idx, &mut rep);
        rep.note(format!("replayed case seed={seed} worker={worker} index={idx}"));
        rep
    } else {
        let total = cfg.budget(QUICK_CASES, THOROUGH_CASES);
        let per = (total / cfg.threads as u64).max(1);
        par(cfg.threads, |w| {
            let mut rep = Report::new();
            for idx in 0..per {
                one_case(cfg.seed, w as u64, idx, &mut rep);
            }
            rep
        })
    };
    rep.rule = "generated contracts dense in storage instructions (13 opcodes, overlapping keys incl. byte-carry keys and keys just below 2^256, zero-length/long/over-long values, offsets at/after the end), several calls per script, 0-3 contracts, two consecutive transactions; every storage step: panic decision, result registers, $err, destination memory, no stray memory/register change vs refmodel::kv; after each transaction contract state == model; free gas: cache-emptied run == normal run. class = (opcode, slot state before, cache hot/cold approximated by 'key touched earlier in this transaction', outcome)".into();
    rep.assume("reference model refmodel::kv written from the instruction-set definition: key ranges in 256-bit big-endian arithmetic (range past 2^256-1 = TooManySlots), SRW reads any word inside the value, SRWQ needs exactly 32-byte values, SWW/SWWQ/SCWQ/SCLR/SWRD overwrite/clear values of any length, SRDD/SRDI slice [offset, offset+len) must lie inside the value (absent: $err=1, nothing transferred), SUPD/SUPI treat an absent slot as empty (a zero-length update creates an empty slot), offset u64::MAX appends, offset > length or result > max_storage_slot_length = StorageOutOfBounds");
    rep.assume("status registers judged: SRW rB = slot was set; SRWQ rB = all slots set; SCWQ rB = all slots were set; SWW rB = slot was created; SWWQ rB = number of created slots; SPLD rA = length (0 when absent), $err = absent; SRDD/SRDI $err = absent. Not judged (counted): status of SRWQ/SCWQ with an empty range, $err/$of after instructions that do not define them, SRW with rA == rB");
    rep.assume("panic decisions are judged as sets: a step may always be pre-empted by OutOfGas / memory / ownership / context / reserved-register panics; StorageOutOfBounds or TooManySlots must be justified by the model, and a step the model rejects must not complete");
    rep.assume("program generator and step bus as for the other interpreter-level monitors; every stepped run is paired with a plain run and discarded if they differ (C32)");
    rep.note("keys written by an instruction that itself panicked (e.g. SWWQ stopped in the middle of its range, SWW/SWWQ with a reserved status register: the store happens before the register check) are excluded from the final comparison and counted as unspecified_partial_effect_of_panicked_write_instruction: a panic reverts the whole transaction at the client");
    if cfg.replay.is_none() {
        // lower bounds scale with the case budget (about 1/5 of what every seed yields)
        let total = cfg.budget(QUICK_CASES, THOROUGH_CASES);
        let need = |at_base: u64| ((at_base as f64) * (total as f64) / (GATE_BASE_CASES as f64)).max(1.0) as u64;
        for name in OPS {
            rep.gate(&format!("completed_{name}"), rep.counter(&format!("completed_{name}")), need(5000));
        }
        for (name, n) in [
            ("reads_of_present_slots", 50_000),
            ("reads_of_slots_written_by_an_earlier_call", 4000),
            ("reads_of_slots_written_by_the_previous_transaction", 200),
            ("destination_memory_checked", 30_000),
            ("storage_panics_confirmed_by_model", 10_000),
            ("final_state_comparisons_after_storage_activity", 20_000),
            ("second_transactions_with_storage_activity_on_carried_state", 800),
            ("cache_differential_runs_with_storage_activity", 10_000),
        ] {
            rep.gate(name, rep.counter(name), need(n));
        }
        rep.gate("steps_monitored", rep.counter("steps_monitored"), 1000);
    }
    rep
}
