//! Shared workload generator and model for the sparse-Merkle monitors C12, C13, C14.
//!
//! * clustered key universes (shared prefixes of {0,1,7,8,9,127,128,254,255} bits, keys
//!   differing only in the last bit, the all-zero and all-one keys),
//! * histories of 1..80 insert / overwrite / delete operations with repeats, deletes of
//!   absent keys, delete-all-then-reinsert and empty values,
//! * the model map with cached leaf hashes (oracle: `refmodel::smt`),
//! * glue to drive the storage-backed `sparse::MerkleTree` over a `SharedMap`.
//!
//! `MerkleTreeKey::new` hashes its argument, so the tree path is controlled through the
//! public `unsafe fn MerkleTreeKey::convert` (no hashing).

use crate::{
    Panicked,
    Rng,
    guarded,
    hx,
    refmodel::{
        H,
        sha256,
        smt,
    },
    unhx,
    vmutil::SharedMap,
};
use fuel_merkle::sparse::{
    self,
    MerkleTreeKey,
    Primitive,
    in_memory::NodesTable,
    proof::{
        ExclusionLeaf,
        Proof,
    },
};
use serde_json::{
    Value,
    json,
};
use std::collections::{
    BTreeMap,
    BTreeSet,
};

pub type Key = H;
pub type Store = SharedMap<NodesTable>;
pub type Tree = sparse::MerkleTree<NodesTable, Store>;

/// shared-prefix lengths (bits) the clusters are built from
pub const PREFIX_LENS: [usize; 9] = [0, 1, 7, 8, 9, 127, 128, 254, 255];

/// The tree key for a raw 32-byte path (bypasses the hashing constructor).
pub fn mk(k: &Key) -> MerkleTreeKey {
    // SAFETY: `convert` is `unsafe` only because un-hashed keys let the caller shape
    // the tree, which is exactly what this workload wants. No memory safety involved.
    unsafe { MerkleTreeKey::convert(*k) }
}

pub fn get_bit(k: &Key, i: usize) -> bool {
    (k[i / 8] >> (7 - (i % 8))) & 1 == 1
}

pub fn flip_bit(k: &mut Key, i: usize) {
    k[i / 8] ^= 1 << (7 - (i % 8));
}

/// number of leading bits `a` and `b` share (256 when equal); bit-by-bit on purpose
pub fn common_prefix(a: &Key, b: &Key) -> usize {
    let mut n = 0;
    while n < 256 && get_bit(a, n) == get_bit(b, n) {
        n += 1;
    }
    n
}

pub fn prefix_bucket(p: usize) -> &'static str {
    match p {
        0 => "0",
        1 => "1",
        2..=6 => "2-6",
        7 => "7",
        8 => "8",
        9 => "9",
        10..=126 => "10-126",
        127 => "127",
        128 => "128",
        129..=253 => "129-253",
        254 => "254",
        255 => "255",
        _ => "equal",
    }
}

/// largest shared prefix between two distinct keys of the set (None for < 2 keys)
pub fn max_shared_prefix<'a>(keys: impl Iterator<Item = &'a Key>) -> Option<usize> {
    let v: BTreeSet<Key> = keys.copied().collect();
    let v: Vec<Key> = v.into_iter().collect();
    v.windows(2).map(|w| common_prefix(&w[0], &w[1])).max()
}

/// longest prefix `q` shares with any key of `keys` (None when empty)
pub fn nearest_prefix<'a>(keys: impl Iterator<Item = &'a Key>, q: &Key) -> Option<usize> {
    keys.map(|k| common_prefix(k, q)).max()
}

/// A key sharing exactly `p` (< 256) leading bits with `base`. `tail`: 0 = rest as in
/// base (differs in the single bit `p`), 1 = rest random, 2 = rest zero, 3 = rest one.
pub fn relative(rng: &mut Rng, base: &Key, p: usize, tail: u64) -> Key {
    let mut k = *base;
    flip_bit(&mut k, p);
    for i in p + 1..256 {
        let b = match tail {
            0 => continue,
            1 => rng.bool(),
            2 => false,
            _ => true,
        };
        if get_bit(&k, i) != b {
            flip_bit(&mut k, i);
        }
    }
    k
}

/// 2..24 distinct keys built as clusters.
pub fn gen_universe(rng: &mut Rng) -> Vec<Key> {
    let target = match rng.below(4) {
        0 => rng.range(2, 4),
        1 => rng.range(2, 10),
        _ => rng.range(2, 24),
    } as usize;
    // a universe may be restricted to a few prefix lengths so that deep chains
    // (255, 254, ...) are not always diluted by shallow splits
    let lens: Vec<usize> = match rng.below(4) {
        0 => vec![*rng.pick(&PREFIX_LENS)],
        1 => vec![*rng.pick(&PREFIX_LENS), *rng.pick(&PREFIX_LENS)],
        2 => vec![254, 255, 128, 127],
        _ => PREFIX_LENS.to_vec(),
    };
    let mut keys: Vec<Key> = Vec::new();
    let mut guard = 0;
    while keys.len() < target && guard < 400 {
        guard += 1;
        let k = if keys.is_empty() || rng.chance(1, 7) {
            match rng.below(6) {
                0 => [0u8; 32],
                1 => [0xffu8; 32],
                _ => rng.arr(),
            }
        } else {
            let parent = *rng.pick(&keys);
            let p = *rng.pick(&lens);
            let tail = match rng.below(8) {
                0..=2 => 0,
                3..=5 => 1,
                6 => 2,
                _ => 3,
            };
            relative(rng, &parent, p, tail)
        };
        if !keys.contains(&k) {
            keys.push(k);
        }
    }
    keys
}

pub fn gen_value(rng: &mut Rng) -> Vec<u8> {
    match rng.below(8) {
        0 | 1 => vec![],
        2 => vec![rng.u8()],
        3 => vec![0u8; 32],
        4 => rng.bytes(32),
        5 => {
            // looks like a serialized node
            let mut v = rng.bytes(65);
            v[0] = rng.below(2) as u8;
            v
        }
        _ => {
            let n = rng.usize_below(70);
            rng.bytes(n)
        }
    }
}

#[derive(Clone, Debug, PartialEq, Eq)]
pub enum Op {
    Ins(Key, Vec<u8>),
    Del(Key),
}

impl Op {
    pub fn key(&self) -> &Key {
        match self {
            Op::Ins(k, _) | Op::Del(k) => k,
        }
    }
    pub fn to_json(&self) -> Value {
        match self {
            Op::Ins(k, v) => json!(["i", hx(k), hx(v)]),
            Op::Del(k) => json!(["d", hx(k)]),
        }
    }
    pub fn from_json(v: &Value) -> Option<Op> {
        let a = v.as_array()?;
        let k = key_from_hex(a.get(1)?.as_str()?)?;
        match a.first()?.as_str()? {
            "i" => Some(Op::Ins(k, unhx(a.get(2)?.as_str()?))),
            "d" => Some(Op::Del(k)),
            _ => None,
        }
    }
}

pub fn key_from_hex(s: &str) -> Option<Key> {
    let b = hex::decode(s).ok()?;
    b.try_into().ok()
}

pub fn ops_json(ops: &[Op]) -> Value {
    Value::Array(ops.iter().map(|o| o.to_json()).collect())
}

pub fn ops_from_json(v: &Value) -> Vec<Op> {
    v.as_array()
        .map(|a| a.iter().filter_map(Op::from_json).collect())
        .unwrap_or_default()
}

/// what an operation did to the model
#[derive(Clone, Copy, Debug, PartialEq, Eq, PartialOrd, Ord)]
pub enum OpKind {
    InsNew,
    Overwrite,
    OverwriteSame,
    DelPresent,
    DelAbsent,
}

impl OpKind {
    pub fn name(self) -> &'static str {
        match self {
            OpKind::InsNew => "insert_new",
            OpKind::Overwrite => "overwrite",
            OpKind::OverwriteSame => "overwrite_same_value",
            OpKind::DelPresent => "delete_present",
            OpKind::DelAbsent => "delete_absent",
        }
    }
}

/// The model: key → (value, leaf hash). Its root is the compact sparse Merkle root.
#[derive(Clone, Debug, Default)]
pub struct Model {
    pub map: BTreeMap<Key, (Vec<u8>, H)>,
}

impl Model {
    pub fn new() -> Self {
        Self::default()
    }
    pub fn kind_of(&self, op: &Op) -> OpKind {
        match op {
            Op::Ins(k, v) => match self.map.get(k) {
                None => OpKind::InsNew,
                Some((old, _)) if old == v => OpKind::OverwriteSame,
                Some(_) => OpKind::Overwrite,
            },
            Op::Del(k) => {
                if self.map.contains_key(k) {
                    OpKind::DelPresent
                } else {
                    OpKind::DelAbsent
                }
            }
        }
    }
    pub fn apply(&mut self, op: &Op) -> OpKind {
        let kind = self.kind_of(op);
        match op {
            Op::Ins(k, v) => {
                self.map.insert(*k, (v.clone(), smt::leaf_hash(k, v)));
            }
            Op::Del(k) => {
                self.map.remove(k);
            }
        }
        kind
    }
    pub fn items(&self) -> Vec<(H, H)> {
        self.map.iter().map(|(k, (_, h))| (*k, *h)).collect()
    }
    pub fn root(&self) -> H {
        smt::root_of_items(&self.items())
    }
    pub fn len(&self) -> usize {
        self.map.len()
    }
    pub fn is_empty(&self) -> bool {
        self.map.is_empty()
    }
    pub fn value(&self, k: &Key) -> Option<&Vec<u8>> {
        self.map.get(k).map(|(v, _)| v)
    }
    pub fn keys(&self) -> Vec<Key> {
        self.map.keys().copied().collect()
    }
    pub fn pairs(&self) -> Vec<(Key, Vec<u8>)> {
        self.map.iter().map(|(k, (v, _))| (*k, v.clone())).collect()
    }
    /// reference descent for `key`: (side hashes ordered leaf→root, terminal)
    pub fn descend(&self, key: &Key) -> (Vec<H>, smt::Terminal) {
        let (mut sides, t) = smt::descend_items(&self.items(), key);
        sides.reverse();
        (sides, t)
    }
    /// Judge a library proof for `key` against this model with the reference verifier
    /// and `root`: Ok(kind) or Err(description).
    pub fn judge_proof(&self, root: &H, key: &Key, proof: &Proof) -> Result<&'static str, String> {
        match (proof, self.value(key)) {
            (Proof::Inclusion(p), Some(v)) => {
                if smt::verify_inclusion(root, key, v, &p.proof_set) {
                    Ok("inclusion")
                } else {
                    Err("inclusion proof does not verify (reference verifier) with the stored value".into())
                }
            }
            (Proof::Inclusion(_), None) => Err("inclusion proof for an absent key".into()),
            (Proof::Exclusion(_), Some(_)) => Err("exclusion proof for a present key".into()),
            (Proof::Exclusion(p), None) => {
                if smt::verify_exclusion(root, key, &ex_leaf(&p.leaf), &p.proof_set) {
                    Ok("exclusion")
                } else {
                    Err("exclusion proof does not verify (reference verifier) for the absent key".into())
                }
            }
        }
    }
}

/// library exclusion leaf → reference form
pub fn ex_leaf(l: &ExclusionLeaf) -> smt::ExLeaf {
    match l {
        ExclusionLeaf::Placeholder => smt::ExLeaf::Placeholder,
        ExclusionLeaf::Leaf(d) => smt::ExLeaf::Leaf(d.leaf_key, d.leaf_value),
    }
}

pub fn value_hash(v: &[u8]) -> H {
    sha256(&[v])
}

/// A history of 1..80 operations over (mostly) the universe's keys.
pub fn gen_history(rng: &mut Rng, universe: &[Key]) -> Vec<Op> {
    let n = match rng.below(5) {
        0 => rng.range(1, 6),
        1 => rng.range(1, 20),
        2 => rng.range(10, 40),
        _ => rng.range(1, 80),
    } as usize;
    // larger universes get histories long enough to populate them half of the time
    let n = if universe.len() > 8 && rng.bool() { n.max(universe.len() * 2).min(80) } else { n };
    gen_history_n(rng, universe, n)
}

pub fn gen_history_n(rng: &mut Rng, universe: &[Key], n: usize) -> Vec<Op> {
    let p_ins = *rng.pick(&[35u64, 50, 65, 80, 92]);
    // few distinct values so that identical leaves (same key, same value) recur
    let value_pool: Vec<Vec<u8>> = (0..rng.range(1, 5)).map(|_| gen_value(rng)).collect();
    let mut model: BTreeMap<Key, Vec<u8>> = BTreeMap::new();
    let mut ops: Vec<Op> = Vec::with_capacity(n + 8);
    let push = |ops: &mut Vec<Op>, model: &mut BTreeMap<Key, Vec<u8>>, op: Op| {
        match &op {
            Op::Ins(k, v) => {
                model.insert(*k, v.clone());
            }
            Op::Del(k) => {
                model.remove(k);
            }
        }
        ops.push(op);
    };
    while ops.len() < n {
        let r = rng.below(100);
        if r < 4 && !model.is_empty() && ops.len() + 2 <= n {
            // delete everything (random order), then re-insert part of it
            let mut present: Vec<(Key, Vec<u8>)> = model.iter().map(|(k, v)| (*k, v.clone())).collect();
            rng.shuffle(&mut present);
            for (k, _) in &present {
                push(&mut ops, &mut model, Op::Del(*k));
            }
            rng.shuffle(&mut present);
            let back = rng.usize_below(present.len() + 1);
            for (k, v) in present.into_iter().take(back) {
                let v = if rng.chance(3, 4) { v } else { gen_value(rng) };
                push(&mut ops, &mut model, Op::Ins(k, v));
            }
            continue;
        }
        if r < 12 && !ops.is_empty() {
            // repeat an earlier operation (mostly the last one)
            let i = if rng.chance(2, 3) { ops.len() - 1 } else { rng.usize_below(ops.len()) };
            let op = ops[i].clone();
            push(&mut ops, &mut model, op);
            continue;
        }
        if rng.below(100) < p_ins {
            let k = if rng.chance(1, 40) { rng.arr() } else { *rng.pick(universe) };
            let v = match rng.below(10) {
                0 => vec![],
                1 | 2 => model.get(&k).cloned().unwrap_or_default(),
                3..=6 => rng.pick(&value_pool).clone(),
                _ => gen_value(rng),
            };
            push(&mut ops, &mut model, Op::Ins(k, v));
        } else {
            let present: Vec<Key> = model.keys().copied().collect();
            let k = match rng.below(20) {
                0..=11 if !present.is_empty() => *rng.pick(&present),
                12..=16 => *rng.pick(universe),
                17 => rng.arr(),
                18 if !present.is_empty() => {
                    // neighbour of a present key: differs in one late bit
                    let mut k = *rng.pick(&present);
                    flip_bit(&mut k, *rng.pick(&[255usize, 254, 248, 247, 128, 127]));
                    k
                }
                _ => *rng.pick(universe),
            };
            push(&mut ops, &mut model, Op::Del(k));
        }
    }
    ops.truncate(80);
    ops
}

/// all keys mentioned by a history
pub fn keys_of(ops: &[Op]) -> Vec<Key> {
    let s: BTreeSet<Key> = ops.iter().map(|o| *o.key()).collect();
    s.into_iter().collect()
}

/// Query keys for proofs: present keys, neighbours differing in one late bit, absent
/// keys inside the clusters (universe keys not present, relatives of present keys at
/// the cluster prefix lengths), keys outside (random, all-zero, all-one).
pub fn query_keys(rng: &mut Rng, model: &Model, universe: &[Key], max: usize) -> Vec<Key> {
    let mut out: Vec<Key> = Vec::new();
    let present = model.keys();
    let add = |out: &mut Vec<Key>, k: Key| {
        if !out.contains(&k) {
            out.push(k);
        }
    };
    for k in &present {
        add(&mut out, *k);
    }
    for k in &present {
        if rng.chance(1, 2) {
            let mut n = *k;
            flip_bit(&mut n, *rng.pick(&[255usize, 255, 254, 253, 248, 247, 200, 129, 128, 127]));
            add(&mut out, n);
        }
        if rng.chance(1, 3) {
            let p = *rng.pick(&PREFIX_LENS);
            let t = rng.below(4);
            add(&mut out, relative(rng, k, p, t));
        }
    }
    for k in universe {
        if !model.map.contains_key(k) {
            add(&mut out, *k);
        }
    }
    add(&mut out, [0u8; 32]);
    add(&mut out, [0xff; 32]);
    add(&mut out, rng.arr());
    add(&mut out, rng.arr());
    if out.len() > max {
        // keep a random subset but preserve the mix
        rng.shuffle(&mut out);
        out.truncate(max);
    }
    out
}

/// outcome of one library call on the storage-backed tree
pub enum Outcome {
    Ok,
    Err(String),
    Panic(Panicked),
}

pub fn apply_tree(tree: &mut Tree, op: &Op) -> Outcome {
    let r = guarded(|| match op {
        Op::Ins(k, v) => tree.insert(mk(k), v).map_err(|e| format!("{e:?}")),
        Op::Del(k) => tree.delete(mk(k)).map_err(|e| format!("{e:?}")),
    });
    match r {
        Ok(Ok(())) => Outcome::Ok,
        Ok(Err(e)) => Outcome::Err(e),
        Err(p) => Outcome::Panic(p),
    }
}

pub fn op_name(op: &Op) -> &'static str {
    match op {
        Op::Ins(..) => "insert",
        Op::Del(..) => "delete",
    }
}

/// `generate_proof` under the panic guard
pub fn proof_of(tree: &Tree, k: &Key) -> Result<Result<Proof, String>, Panicked> {
    guarded(|| tree.generate_proof(&mk(k)).map_err(|e| format!("{e:?}")))
}

/// Nodes of `store` reachable from `root`, found by reading the stored primitives
/// directly (height, prefix, lo, hi): (node hash, is_leaf), plus the non-zero hashes that
/// are referenced (as the root or as a child of a reachable node) but have no entry in the
/// storage. Independent of the tree code.
pub fn reachable(store: &Store, root: &H) -> (Vec<(H, bool)>, Vec<H>) {
    let map = store.inner.borrow();
    let mut out = Vec::new();
    let mut dangling = Vec::new();
    let mut stack = vec![*root];
    while let Some(h) = stack.pop() {
        if h == smt::ZERO {
            continue;
        }
        let Some(p): Option<&Primitive> = map.get(&h) else {
            dangling.push(h);
            continue;
        };
        let is_leaf = p.1 == 0;
        out.push((h, is_leaf));
        if !is_leaf {
            stack.push(p.2);
            stack.push(p.3);
        }
    }
    (out, dangling)
}

#[cfg(test)]
mod tests {
    use super::*;
    #[test]
    fn relative_shares_exactly_p() {
        let mut rng = Rng::new(1);
        for _ in 0..200 {
            let b: Key = rng.arr();
            let p = *rng.pick(&PREFIX_LENS);
            let t = rng.below(4);
            let k = relative(&mut rng, &b, p, t);
            assert_eq!(common_prefix(&b, &k), p);
        }
    }
    #[test]
    fn json_roundtrip() {
        let mut rng = Rng::new(2);
        let u = gen_universe(&mut rng);
        let ops = gen_history(&mut rng, &u);
        assert_eq!(ops_from_json(&ops_json(&ops)), ops);
    }
}
