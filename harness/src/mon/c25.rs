//! C25 Control flow lands exactly where the specification says.
use super::grp_e::{
    Drive,
    drive,
};
use crate::{
    Cfg,
    Report,
    Rng,
    prog::Weights,
    scenario::{
        Scenario,
        ScenarioOpts,
    },
    stepbus::{
        BusOpts,
        Snap,
        Step,
        StepEnd,
        StepMonitor,
    },
    world::World,
};
use fuel_asm::{
    Instruction,
    PanicReason,
    RegId,
};
use serde_json::json;

const VM_MAX_RAM: u128 = 1 << 26;

#[derive(Debug, Clone, PartialEq)]
enum Flow {
    /// ordinary instruction: `$pc + 4`
    Next,
    /// jump: Some(target) or None = target outside memory (must panic MemoryOverflow)
    Jump { taken: bool, target: Option<u64>, kind: &'static str },
    /// CALL / RET / RETD / RVRT and friends: judged by C34 / C28
    Frame,
    /// not judged (documented corner)
    Unspecified,
}

thread_local! {
    /// values of ($ggas, $cgas) an instruction reads as operands: the ones after its own
    /// gas was charged (= the values after the step, nothing else in a jump changes them)
    static GAS_VIEW: std::cell::Cell<Option<(u64, u64)>> = const { std::cell::Cell::new(None) };
}

fn reg(s: &Snap, r: RegId) -> u128 {
    if let Some((g, c)) = GAS_VIEW.with(|v| v.get()) {
        if r == RegId::GGAS {
            return g as u128;
        }
        if r == RegId::CGAS {
            return c as u128;
        }
    }
    s.regs[r.to_u8() as usize] as u128
}

/// Reference next-pc computation from the instruction-set definition, in unbounded
/// arithmetic.
fn reference(i: &Instruction, pre: &Snap) -> Flow {
    let pc = pre.pc() as u128;
    let is = pre.is() as u128;
    let fin = |t: Option<u128>| t.filter(|t| *t < VM_MAX_RAM).map(|t| t as u64);
    let abs = |x: u128| Some(is + 4 * x);
    let fwd = |x: u128| Some(pc + 4 * (x + 1));
    let back = |x: u128| pc.checked_sub(4 * (x + 1));
    match i {
        Instruction::JI(o) => {
            let imm = o.unpack();
            Flow::Jump { taken: true, target: fin(abs(u32::from(imm) as u128)), kind: "JI" }
        }
        Instruction::JNEI(o) => {
            let (a, b, imm) = o.unpack();
            let taken = reg(pre, a) != reg(pre, b);
            Flow::Jump { taken, target: fin(abs(u16::from(imm) as u128)), kind: "JNEI" }
        }
        Instruction::JNZI(o) => {
            let (a, imm) = o.unpack();
            Flow::Jump { taken: reg(pre, a) != 0, target: fin(abs(u32::from(imm) as u128)), kind: "JNZI" }
        }
        Instruction::JMP(o) => {
            let a = o.unpack();
            Flow::Jump { taken: true, target: fin(abs(reg(pre, a))), kind: "JMP" }
        }
        Instruction::JNE(o) => {
            // instruction set: `jne $rA $rB $rC`: if $rA != $rB then $pc = $is + $rC * 4
            // (fuel-asm names the first field `abs_target`; the specification's operand
            // order is what the VM implements and what is judged here)
            let (a, b, c) = o.unpack();
            Flow::Jump { taken: reg(pre, a) != reg(pre, b), target: fin(abs(reg(pre, c))), kind: "JNE" }
        }
        Instruction::JMPF(o) => {
            let (d, f) = o.unpack();
            Flow::Jump { taken: true, target: fin(fwd(reg(pre, d) + u32::from(f) as u128)), kind: "JMPF" }
        }
        Instruction::JMPB(o) => {
            let (d, f) = o.unpack();
            Flow::Jump { taken: true, target: fin(back(reg(pre, d) + u32::from(f) as u128)), kind: "JMPB" }
        }
        Instruction::JNZF(o) => {
            let (c, d, f) = o.unpack();
            Flow::Jump { taken: reg(pre, c) != 0, target: fin(fwd(reg(pre, d) + u16::from(f) as u128)), kind: "JNZF" }
        }
        Instruction::JNZB(o) => {
            let (c, d, f) = o.unpack();
            Flow::Jump { taken: reg(pre, c) != 0, target: fin(back(reg(pre, d) + u16::from(f) as u128)), kind: "JNZB" }
        }
        Instruction::JNEF(o) => {
            let (a, b, d, f) = o.unpack();
            Flow::Jump { taken: reg(pre, a) != reg(pre, b), target: fin(fwd(reg(pre, d) + u8::from(f) as u128)), kind: "JNEF" }
        }
        Instruction::JNEB(o) => {
            let (a, b, d, f) = o.unpack();
            Flow::Jump { taken: reg(pre, a) != reg(pre, b), target: fin(back(reg(pre, d) + u8::from(f) as u128)), kind: "JNEB" }
        }
        Instruction::JAL(o) => {
            let (ra, rb, imm) = o.unpack();
            // reserved link registers (other than $zero, which discards the link) are a
            // corner we do not judge
            let a = ra.to_u8();
            if a != 0 && a < 16 {
                return Flow::Unspecified;
            }
            // instruction set: `$rA = $pc + 4; $pc = $rB + imm * 4`, in this order: with the
            // same register for both, the target is computed from the link just stored
            let base = if a == rb.to_u8() && a != 0 { pc + 4 } else { reg(pre, rb) };
            Flow::Jump { taken: true, target: fin(Some(base + 4 * u16::from(imm) as u128)), kind: if a == rb.to_u8() && a != 0 { "JAL(rA==rB)" } else { "JAL" } }
        }
        Instruction::CALL(_) | Instruction::RET(_) | Instruction::RETD(_) | Instruction::RVRT(_) => Flow::Frame,
        _ => Flow::Next,
    }
}

/// Register operands a jump reads. `$ggas`/`$cgas` among them make the step unjudgeable from
/// the registers before the step: the VM charges the instruction's gas before it reads its
/// operands, so the value used is the one after charging (false alarm met at seed 4: `jnef`
/// with `$ggas` as the dynamic offset landed one instruction short of the reference).
fn reads_gas_register(i: &Instruction) -> bool {
    let g = |r: RegId| r == RegId::GGAS || r == RegId::CGAS;
    match i {
        Instruction::JNEI(o) => {
            let (a, b, _) = o.unpack();
            g(a) || g(b)
        }
        Instruction::JNZI(o) => g(o.unpack().0),
        Instruction::JMP(o) => g(o.unpack()),
        Instruction::JNE(o) => {
            let (a, b, c) = o.unpack();
            g(a) || g(b) || g(c)
        }
        Instruction::JMPF(o) => g(o.unpack().0),
        Instruction::JMPB(o) => g(o.unpack().0),
        Instruction::JNZF(o) => {
            let (c, d, _) = o.unpack();
            g(c) || g(d)
        }
        Instruction::JNZB(o) => {
            let (c, d, _) = o.unpack();
            g(c) || g(d)
        }
        Instruction::JNEF(o) => {
            let (a, b, d, _) = o.unpack();
            g(a) || g(b) || g(d)
        }
        Instruction::JNEB(o) => {
            let (a, b, d, _) = o.unpack();
            g(a) || g(b) || g(d)
        }
        Instruction::JAL(o) => g(o.unpack().1),
        _ => false,
    }
}

struct FlowMon;

impl StepMonitor for FlowMon {
    fn on_step(&mut self, _w: &World, s: &Step, rep: &mut Report) {
        if s.ambiguous_self_jump() {
            rep.count("unjudged_self_jump_steps");
            rep.count(&format!("unjudged_self_jump_{}", s.opcode_name()));
            return;
        }
        let pre = s.pre;
        // (1) nothing is about to execute outside [$is, $ssp)
        if pre.pc() < pre.is() || pre.pc() >= pre.ssp() {
            let ok = matches!(s.own_panic(), Some(PanicReason::MemoryNotExecutable));
            if !ok {
                rep.violation(
                    "C25|instruction executed outside the executable region",
                    format!("pc {} is {} ssp {} instr {:?} end {:?}", pre.pc(), pre.is(), pre.ssp(), s.instr, s.end),
                    || json!(null),
                );
            }
            return;
        }
        let Some(instr) = &s.instr else {
            return; // invalid word: C29 territory
        };
        let gas_operand = reads_gas_register(instr);
        if gas_operand && !matches!(s.end, StepEnd::Continue) {
            // the values after charging are not observable once the program has ended
            rep.count("unjudged_jumps_reading_a_gas_register");
            return;
        }
        GAS_VIEW.with(|v| v.set(if gas_operand { Some((s.post.regs[RegId::GGAS.to_u8() as usize], s.post.regs[RegId::CGAS.to_u8() as usize])) } else { None }));
        let flow = reference(instr, pre);
        GAS_VIEW.with(|v| v.set(None));
        if gas_operand {
            rep.count("jumps_reading_a_gas_register_judged_with_the_charged_value");
        }
        let name = s.opcode_name();
        // what happened
        let own = s.own_panic();
        match (&flow, own) {
            (Flow::Frame, _) | (Flow::Unspecified, _) => {
                rep.count("unjudged_frame_or_unspecified_steps");
                return;
            }
            (_, Some(reason)) => {
                // the instruction itself panicked
                let expect_overflow = matches!(&flow, Flow::Jump { taken: true, target: None, .. });
                if reason == PanicReason::MemoryOverflow && !expect_overflow && matches!(flow, Flow::Jump { .. }) {
                    rep.violation(
                        format!("C25|{name}|MemoryOverflow although the target is inside memory"),
                        format!("{instr:?} pc {} is {} flow {flow:?}", pre.pc(), pre.is()),
                        || json!(null),
                    );
                }
                if let Flow::Jump { kind, taken, .. } = &flow {
                    rep.class(format!("{kind}|taken={taken}|panic:{reason:?}"));
                }
                return;
            }
            _ => {}
        }
        if matches!(s.end, StepEnd::Error(_)) {
            return;
        }
        // the instruction completed; where is the VM now?
        let landed: u64 = match s.end {
            StepEnd::Continue => s.post.pc(),
            _ => match s.panic_info() {
                // the fetch of the next instruction failed: the receipt holds its pc
                Some((_, pc, _)) => pc,
                // program ended normally with this instruction (cannot be a jump/plain op
                // unless it fell off... ) nothing to judge
                None => return,
            },
        };
        rep.eval();
        let want: Option<u64> = match &flow {
            Flow::Next => Some(pre.pc() + 4),
            Flow::Jump { taken: false, .. } => Some(pre.pc() + 4),
            Flow::Jump { taken: true, target, .. } => *target,
            _ => unreachable!(),
        };
        let class_kind = match &flow {
            Flow::Jump { kind, .. } => *kind,
            _ => "plain",
        };
        match want {
            None => rep.violation(
                format!("C25|{name}|no MemoryOverflow panic for a target outside memory"),
                format!("{instr:?} pc {} is {} landed at {landed}", pre.pc(), pre.is()),
                || json!(null),
            ),
            Some(t) if t != landed => rep.violation(
                if class_kind == "plain" {
                    format!("C25|{name}|successful non-jump did not advance $pc by 4")
                } else {
                    format!("C25|{name}|wrong jump target")
                },
                format!("{instr:?} pc {} is {}: expected {t}, landed at {landed} (flow {flow:?})", pre.pc(), pre.is()),
                || json!(null),
            ),
            Some(t) => {
                if let Flow::Jump { kind, taken, .. } = &flow {
                    let tc = if t >= s.post.ssp() && matches!(s.end, StepEnd::Continue) {
                        "beyond-ssp"
                    } else if !matches!(s.end, StepEnd::Continue) {
                        "not-executable"
                    } else {
                        "inside"
                    };
                    rep.class(format!("{kind}|taken={taken}|{tc}"));
                    rep.count("jumps_checked");
                } else {
                    rep.count("plain_steps_checked");
                    if rep.counter("plain_steps_checked") % 64 == 1 {
                        rep.class(format!("plain|{name}"));
                    }
                }
                // $is must not move on jumps / plain instructions
                if matches!(s.end, StepEnd::Continue) && s.post.is() != pre.is() {
                    rep.violation(format!("C25|{name}|$is changed by a non-call instruction"), format!("{instr:?}"), || json!(null));
                }
            }
        }
        // a failing fetch after a completed instruction must really be outside the
        // executable region (or unreadable)
        if !matches!(s.end, StepEnd::Continue) {
            if let Some((reason, pc, _)) = s.panic_info() {
                if reason == PanicReason::MemoryNotExecutable && pc >= s.post.is() && pc < s.post.ssp() {
                    rep.violation("C25|MemoryNotExecutable for an address inside [$is,$ssp)", format!("pc {pc} is {} ssp {}", s.post.is(), s.post.ssp()), || json!(null));
                }
            }
        }
    }
}

pub fn run(cfg: &Cfg) -> Report {
    let opts = |idx: u64, _rng: &mut Rng| {
        let mut w = Weights::default();
        w.flow = 30;
        w.hostile = if idx % 3 == 0 { 120 } else { 30 };
        ScenarioOpts { weights: w.clone(), contract_weights: w, schedule: (idx % 4 == 1) as u8, ..Default::default() }
    };
    let mons = |_sc: &Scenario| -> Vec<Box<dyn StepMonitor>> { vec![Box::new(FlowMon)] };
    let d = Drive { prop: "C25", stream: 25, quick: 4000, thorough: 250_000, bus: BusOpts { capture_mem: false, max_steps: 30_000 }, opts: &opts, monitors: &mons, after: None };
    let mut rep = drive(cfg, &d);
    rep.rule = "every single-stepped instruction of generated scripts/contracts (loops, JAL subroutines, wild jumps): reference next-$pc in unbounded arithmetic vs observed landing address (next debug event's $pc, or the $pc recorded in the panic receipt when the following fetch fails). class = (jump opcode, taken?, landing class | panic reason)".into();
    rep.assume("jump semantics: JI/JNEI/JNZI/JMP/JNE absolute from $is; JMPF/JNZF/JNEF pc+4*(x+1); JMPB/JNZB/JNEB pc-4*(x+1); JAL rB+4*imm with link in rA unless $zero; targets >= 2^26 or negative panic MemoryOverflow; gas is charged first so OutOfGas may pre-empt");
    rep.note("JAL with a reserved (non-zero) link register or rA==rB, self-jumps under single-stepping, and CALL/RET/RETD/RVRT steps are counted, not judged here (C34/C28)");
    if cfg.replay.is_none() {
        rep.gate("jumps_checked", rep.counter("jumps_checked"), 2000);
        rep.gate("plain_steps_checked", rep.counter("plain_steps_checked"), 10_000);
    }
    rep
}
