//! C05 — in-VM transaction introspection (`GTF`, `GM`) returns the executed transaction's
//! data (DESIGN.md section 4, C05).
//!
//! Single-instruction bench: valid-by-construction transactions of the five kinds that
//! execute or carry predicates are placed into a VM with `init_script` (script context)
//! and, for every predicate input, with `init_predicate` (verification / estimation
//! context). On the initialised VM `GTF $dst, $idx, imm12` is executed for every defined
//! selector x indices {0..len+1, 2^16-1, 2^16, 2^32, u64::MAX}, for all (or a sample of)
//! undefined imm12 values, with reserved destination registers, and `GM $dst, imm18` for
//! all defined and a sample of undefined selectors.
//!
//! Oracle: the hand-written table below (selector number and name written out from the
//! FuelVM `GTF` / `GM` tables) -> kind of answer, evaluated on `vm.transaction()` (the
//! prepared transaction the VM placed in memory) with offsets from the reference layout
//! walker `refmodel::canon`. Pointer answers must equal `tx_offset + span offset` and VM
//! memory at the pointer must hold the span's bytes; value answers must equal the field;
//! panic expectations are *sets*; corners the specification leaves open are counted as
//! `unspecified_*` and judged only against the union of the plausible readings.

use crate::{
    Cfg,
    Report,
    Rng,
    gen_valid::{
        self,
        BLOB,
        CREATE,
        SCRIPT,
        UPGRADE,
        UPLOAD,
    },
    guarded,
    hx,
    mon::insn_bench::Outcome,
    par,
    refmodel::canon,
};
use fuel_asm::{
    Opcode,
    PanicReason,
    RegId,
    op,
};
use fuel_tx::{
    ConsensusParameters,
    Input,
    Output,
    Transaction,
    field::{
        BytecodeWitnessIndex as _,
        Inputs as _,
        Outputs as _,
        Policies as _,
        ProofSet as _,
        Script as _,
        ScriptData as _,
        ScriptGasLimit as _,
        StorageSlots as _,
        SubsectionIndex as _,
        SubsectionsNumber as _,
        Witnesses as _,
    },
    policies::PolicyType,
};
use fuel_types::{
    Address,
    BlockHeight,
};
use fuel_vm::{
    checked_transaction::{
        Checked,
        CheckedTransaction,
        IntoChecked,
    },
    context::Context,
    interpreter::{
        CheckedMetadata,
        ExecutableTransaction,
        Interpreter,
        InterpreterParams,
        MemoryInstance,
    },
    predicate::RuntimePredicate,
    storage::{
        InterpreterStorage,
        MemoryStorage,
        predicate::empty_predicate_storage,
    },
};
use serde_json::{
    Value,
    json,
};
use std::collections::{
    BTreeSet,
    HashMap,
    HashSet,
};

const RULE: &str = "valid-by-construction Script/Create/Upgrade/Upload/Blob transactions (all input/output variants, policy masks, varied max_inputs => varied tx_offset, chain id, base asset, gas price, three ownership situations) x contexts {script via init_script, predicate verification / estimation via init_predicate for each predicate input} x GTF {every defined selector x indices 0..len+1, 2^16-1, 2^16, 2^32, 2^64-1; all 4096 imm12 on every 4th transaction, a sample otherwise; reserved destination registers} and GM {all defined selectors, sample of undefined, reserved destinations; IsCallerExternal/GetCaller additionally through a real script->contract->contract call}. class = (selector, tx kind, element variant at the index, outcome class)";

// ---------------------------------------------------------------------------------------
// the selector table (FuelVM instruction set, GTF)

#[derive(Clone, Copy, Debug, PartialEq, Eq)]
enum Alias {
    Script,
    Create,
    Generic,
}

#[derive(Clone, Copy, Debug, PartialEq, Eq)]
enum F {
    Type,
    ScriptGasLimit,
    ScriptLength,
    ScriptDataLength,
    InputsCount(Alias),
    OutputsCount(Alias),
    WitnessesCount(Alias),
    ScriptPtr,
    ScriptDataPtr,
    InputAt(Alias),
    OutputAt(Alias),
    WitnessAt(Alias),
    TxLength,
    CreateBytecodeWitnessIndex,
    CreateStorageSlotsCount,
    CreateSalt,
    CreateStorageSlotAt,
    InputType,
    CoinTxId,
    CoinOutputIndex,
    CoinOwner,
    CoinAmount,
    CoinAssetId,
    CoinTxPointer,
    CoinWitnessIndex,
    CoinPredicateLength,
    CoinPredicateDataLength,
    CoinPredicate,
    CoinPredicateData,
    CoinPredicateGasUsed,
    ContractTxId,
    ContractOutputIndex,
    ContractId,
    MsgSender,
    MsgRecipient,
    MsgAmount,
    MsgNonce,
    MsgWitnessIndex,
    MsgDataLength,
    MsgPredicateLength,
    MsgPredicateDataLength,
    MsgData,
    MsgPredicate,
    MsgPredicateData,
    MsgPredicateGasUsed,
    OutputType,
    OutCoinTo,
    OutCoinAmount,
    OutCoinAssetId,
    OutContractInputIndex,
    OutCreatedContractId,
    OutCreatedStateRoot,
    WitnessDataLength,
    WitnessData,
    PolicyTypes,
    Policy(usize),
    UploadRoot,
    UploadWitnessIndex,
    UploadSubsectionIndex,
    UploadSubsectionsCount,
    UploadProofSetCount,
    UploadProofSetAt,
    BlobId,
    BlobWitnessIndex,
    UpgradePurpose,
}

/// (imm12, name, meaning) — every defined GTF selector.
const TABLE: &[(u16, &str, F)] = &[
    (0x001, "Type", F::Type),
    (0x002, "ScriptGasLimit", F::ScriptGasLimit),
    (0x003, "ScriptLength", F::ScriptLength),
    (0x004, "ScriptDataLength", F::ScriptDataLength),
    (0x005, "ScriptInputsCount", F::InputsCount(Alias::Script)),
    (0x006, "ScriptOutputsCount", F::OutputsCount(Alias::Script)),
    (0x007, "ScriptWitnessesCount", F::WitnessesCount(Alias::Script)),
    (0x009, "Script", F::ScriptPtr),
    (0x00A, "ScriptData", F::ScriptDataPtr),
    (0x00B, "ScriptInputAtIndex", F::InputAt(Alias::Script)),
    (0x00C, "ScriptOutputAtIndex", F::OutputAt(Alias::Script)),
    (0x00D, "ScriptWitnessAtIndex", F::WitnessAt(Alias::Script)),
    (0x00E, "TxLength", F::TxLength),
    (0x101, "CreateBytecodeWitnessIndex", F::CreateBytecodeWitnessIndex),
    (0x102, "CreateStorageSlotsCount", F::CreateStorageSlotsCount),
    (0x103, "CreateInputsCount", F::InputsCount(Alias::Create)),
    (0x104, "CreateOutputsCount", F::OutputsCount(Alias::Create)),
    (0x105, "CreateWitnessesCount", F::WitnessesCount(Alias::Create)),
    (0x106, "CreateSalt", F::CreateSalt),
    (0x107, "CreateStorageSlotAtIndex", F::CreateStorageSlotAt),
    (0x108, "CreateInputAtIndex", F::InputAt(Alias::Create)),
    (0x109, "CreateOutputAtIndex", F::OutputAt(Alias::Create)),
    (0x10A, "CreateWitnessAtIndex", F::WitnessAt(Alias::Create)),
    (0x200, "InputType", F::InputType),
    (0x201, "InputCoinTxId", F::CoinTxId),
    (0x202, "InputCoinOutputIndex", F::CoinOutputIndex),
    (0x203, "InputCoinOwner", F::CoinOwner),
    (0x204, "InputCoinAmount", F::CoinAmount),
    (0x205, "InputCoinAssetId", F::CoinAssetId),
    (0x206, "InputCoinTxPointer", F::CoinTxPointer),
    (0x207, "InputCoinWitnessIndex", F::CoinWitnessIndex),
    (0x209, "InputCoinPredicateLength", F::CoinPredicateLength),
    (0x20A, "InputCoinPredicateDataLength", F::CoinPredicateDataLength),
    (0x20B, "InputCoinPredicate", F::CoinPredicate),
    (0x20C, "InputCoinPredicateData", F::CoinPredicateData),
    (0x20D, "InputCoinPredicateGasUsed", F::CoinPredicateGasUsed),
    (0x220, "InputContractTxId", F::ContractTxId),
    (0x221, "InputContractOutputIndex", F::ContractOutputIndex),
    (0x225, "InputContractId", F::ContractId),
    (0x240, "InputMessageSender", F::MsgSender),
    (0x241, "InputMessageRecipient", F::MsgRecipient),
    (0x242, "InputMessageAmount", F::MsgAmount),
    (0x243, "InputMessageNonce", F::MsgNonce),
    (0x244, "InputMessageWitnessIndex", F::MsgWitnessIndex),
    (0x245, "InputMessageDataLength", F::MsgDataLength),
    (0x246, "InputMessagePredicateLength", F::MsgPredicateLength),
    (0x247, "InputMessagePredicateDataLength", F::MsgPredicateDataLength),
    (0x248, "InputMessageData", F::MsgData),
    (0x249, "InputMessagePredicate", F::MsgPredicate),
    (0x24A, "InputMessagePredicateData", F::MsgPredicateData),
    (0x24B, "InputMessagePredicateGasUsed", F::MsgPredicateGasUsed),
    (0x300, "OutputType", F::OutputType),
    (0x301, "OutputCoinTo", F::OutCoinTo),
    (0x302, "OutputCoinAmount", F::OutCoinAmount),
    (0x303, "OutputCoinAssetId", F::OutCoinAssetId),
    (0x304, "OutputContractInputIndex", F::OutContractInputIndex),
    (0x307, "OutputContractCreatedContractId", F::OutCreatedContractId),
    (0x308, "OutputContractCreatedStateRoot", F::OutCreatedStateRoot),
    (0x400, "WitnessDataLength", F::WitnessDataLength),
    (0x401, "WitnessData", F::WitnessData),
    (0x500, "PolicyTypes", F::PolicyTypes),
    (0x501, "PolicyTip", F::Policy(0)),
    (0x502, "PolicyWitnessLimit", F::Policy(1)),
    (0x503, "PolicyMaturity", F::Policy(2)),
    (0x504, "PolicyMaxFee", F::Policy(3)),
    (0x505, "PolicyExpiration", F::Policy(4)),
    (0x506, "PolicyOwner", F::Policy(5)),
    (0x600, "UploadRoot", F::UploadRoot),
    (0x601, "UploadWitnessIndex", F::UploadWitnessIndex),
    (0x602, "UploadSubsectionIndex", F::UploadSubsectionIndex),
    (0x603, "UploadSubsectionsCount", F::UploadSubsectionsCount),
    (0x604, "UploadProofSetCount", F::UploadProofSetCount),
    (0x605, "UploadProofSetAtIndex", F::UploadProofSetAt),
    (0x700, "BlobId", F::BlobId),
    (0x701, "BlobWitnessIndex", F::BlobWitnessIndex),
    (0x800, "UpgradePurpose", F::UpgradePurpose),
    (0x900, "TxInputsCount", F::InputsCount(Alias::Generic)),
    (0x901, "TxOutputsCount", F::OutputsCount(Alias::Generic)),
    (0x902, "TxWitnessesCount", F::WitnessesCount(Alias::Generic)),
    (0x903, "TxInputAtIndex", F::InputAt(Alias::Generic)),
    (0x904, "TxOutputAtIndex", F::OutputAt(Alias::Generic)),
    (0x905, "TxWitnessAtIndex", F::WitnessAt(Alias::Generic)),
];

/// (imm18, name) — every defined GM selector.
const GM_TABLE: &[(u32, &str)] = &[
    (1, "IsCallerExternal"),
    (2, "GetCaller"),
    (3, "GetVerifyingPredicate"),
    (4, "GetChainId"),
    (5, "TxStart"),
    (6, "BaseAssetId"),
    (7, "GetGasPrice"),
    (8, "GetOwner"),
];

/// policy order of the transaction format (bit i of the policy types word)
const POLICY_ORDER: [PolicyType; 6] = [
    PolicyType::Tip,
    PolicyType::WitnessLimit,
    PolicyType::Maturity,
    PolicyType::MaxFee,
    PolicyType::Expiration,
    PolicyType::Owner,
];

use PanicReason as P;
const IMI: &[P] = &[P::InvalidMetadataIdentifier];
const IN_NF: &[P] = &[P::InputNotFound];
const IN_MISMATCH: &[P] = &[P::InputNotFound, P::InvalidMetadataIdentifier];
const OUT_NF: &[P] = &[P::OutputNotFound];
const OUT_MISMATCH: &[P] = &[P::OutputNotFound, P::InvalidMetadataIdentifier];
const OUT_IN_NF: &[P] = &[P::OutputNotFound, P::InputNotFound];
const OUT_IN_MISMATCH: &[P] = &[P::OutputNotFound, P::InputNotFound, P::InvalidMetadataIdentifier];
const WIT_NF: &[P] = &[P::WitnessNotFound];
const SLOT_NF: &[P] = &[P::StorageSlotsNotFound];
const SLOT_KIND: &[P] = &[P::InvalidMetadataIdentifier, P::StorageSlotsNotFound];
const PROOF_NF: &[P] = &[P::ProofInUploadNotFound];
const PROOF_KIND: &[P] = &[P::InvalidMetadataIdentifier, P::ProofInUploadNotFound];
const POLICY_UNSET: &[P] = &[P::PolicyIsNotSet, P::PolicyNotFound];
const IN_NF_IMI: &[P] = &[P::InputNotFound, P::InvalidMetadataIdentifier];
const OUT_NF_IMI: &[P] = &[P::OutputNotFound, P::InvalidMetadataIdentifier];
const WIT_NF_IMI: &[P] = &[P::WitnessNotFound, P::InvalidMetadataIdentifier];
const CONTRACT_OUT_IDX: &[P] = &[P::InputNotFound, P::OutputNotFound, P::InvalidMetadataIdentifier];
const NO_PANIC: &[P] = &[];

// ---------------------------------------------------------------------------------------
// the transaction as placed in VM memory, seen through public accessors + reference layout

struct View {
    /// transaction type discriminant (0 Script, 1 Create, 3 Upgrade, 4 Upload, 5 Blob)
    kind: u64,
    kind_name: &'static str,
    inputs: Vec<Input>,
    outputs: Vec<Output>,
    witnesses: Vec<Vec<u8>>,
    policies: [Option<u64>; 6],
    script_gas_limit: u64,
    script_len: u64,
    script_data_len: u64,
    body_witness_index: u64,
    storage_slots: u64,
    sub_idx: u64,
    sub_n: u64,
    proof_n: u64,
    bytes: Vec<u8>,
    spans: HashMap<String, (usize, usize)>,
}

fn pol(p: &fuel_tx::policies::Policies) -> [Option<u64>; 6] {
    let mut out = [None; 6];
    for (i, t) in POLICY_ORDER.iter().enumerate() {
        out[i] = p.get(*t);
    }
    out
}

impl View {
    fn new(tx: &Transaction) -> Option<View> {
        let (bytes, layout) = canon::encode_tx(tx);
        let spans: HashMap<String, (usize, usize)> = layout.spans.iter().map(|s| (s.0.clone(), (s.1, s.2))).collect();
        let mut v = View {
            kind: 0,
            kind_name: "",
            inputs: vec![],
            outputs: vec![],
            witnesses: vec![],
            policies: [None; 6],
            script_gas_limit: 0,
            script_len: 0,
            script_data_len: 0,
            body_witness_index: 0,
            storage_slots: 0,
            sub_idx: 0,
            sub_n: 0,
            proof_n: 0,
            bytes,
            spans,
        };
        macro_rules! common {
            ($t:expr) => {{
                v.inputs = $t.inputs().to_vec();
                v.outputs = $t.outputs().to_vec();
                v.witnesses = $t.witnesses().iter().map(|w| w.as_vec().clone()).collect();
                v.policies = pol($t.policies());
            }};
        }
        match tx {
            Transaction::Script(t) => {
                common!(t);
                v.kind = 0;
                v.kind_name = "Script";
                v.script_gas_limit = *t.script_gas_limit();
                v.script_len = t.script().len() as u64;
                v.script_data_len = t.script_data().len() as u64;
            }
            Transaction::Create(t) => {
                common!(t);
                v.kind = 1;
                v.kind_name = "Create";
                v.body_witness_index = *t.bytecode_witness_index() as u64;
                v.storage_slots = t.storage_slots().len() as u64;
            }
            Transaction::Upgrade(t) => {
                common!(t);
                v.kind = 3;
                v.kind_name = "Upgrade";
            }
            Transaction::Upload(t) => {
                common!(t);
                v.kind = 4;
                v.kind_name = "Upload";
                v.body_witness_index = *t.bytecode_witness_index() as u64;
                v.sub_idx = *t.subsection_index() as u64;
                v.sub_n = *t.subsections_number() as u64;
                v.proof_n = t.proof_set().len() as u64;
            }
            Transaction::Blob(t) => {
                common!(t);
                v.kind = 5;
                v.kind_name = "Blob";
                v.body_witness_index = *t.bytecode_witness_index() as u64;
            }
            Transaction::Mint(_) => return None,
        }
        Some(v)
    }

    fn span(&self, name: &str) -> (usize, usize) {
        *self.spans.get(name).unwrap_or_else(|| panic!("reference layout has no span {name}"))
    }

    /// the owner per the ownership rule: the owner-policy input's owner; else the owner
    /// common to all inputs that have one (coin: owner, message: recipient); else unknown
    fn expected_owner(&self) -> Option<[u8; 32]> {
        if let Some(k) = self.policies[5] {
            return self.inputs.get(k as usize).and_then(owner_of);
        }
        let owners: BTreeSet<[u8; 32]> = self.inputs.iter().filter_map(owner_of).collect();
        if owners.len() == 1 { owners.into_iter().next() } else { None }
    }
}

fn owner_of(i: &Input) -> Option<[u8; 32]> {
    match i {
        Input::CoinSigned(c) => Some(*c.owner),
        Input::CoinPredicate(c) => Some(*c.owner),
        Input::Contract(_) => None,
        Input::MessageCoinSigned(m) => Some(*m.recipient),
        Input::MessageCoinPredicate(m) => Some(*m.recipient),
        Input::MessageDataSigned(m) => Some(*m.recipient),
        Input::MessageDataPredicate(m) => Some(*m.recipient),
    }
}

#[derive(Clone, Copy, PartialEq, Eq, Debug)]
enum IV {
    CoinSigned,
    CoinPredicate,
    Contract,
    MsgCoinSigned,
    MsgCoinPredicate,
    MsgDataSigned,
    MsgDataPredicate,
}

impl IV {
    fn of(i: &Input) -> IV {
        match i {
            Input::CoinSigned(_) => IV::CoinSigned,
            Input::CoinPredicate(_) => IV::CoinPredicate,
            Input::Contract(_) => IV::Contract,
            Input::MessageCoinSigned(_) => IV::MsgCoinSigned,
            Input::MessageCoinPredicate(_) => IV::MsgCoinPredicate,
            Input::MessageDataSigned(_) => IV::MsgDataSigned,
            Input::MessageDataPredicate(_) => IV::MsgDataPredicate,
        }
    }
    fn name(self) -> &'static str {
        match self {
            IV::CoinSigned => "CoinSigned",
            IV::CoinPredicate => "CoinPredicate",
            IV::Contract => "Contract",
            IV::MsgCoinSigned => "MessageCoinSigned",
            IV::MsgCoinPredicate => "MessageCoinPredicate",
            IV::MsgDataSigned => "MessageDataSigned",
            IV::MsgDataPredicate => "MessageDataPredicate",
        }
    }
    fn is_coin(self) -> bool {
        matches!(self, IV::CoinSigned | IV::CoinPredicate)
    }
    fn is_msg(self) -> bool {
        matches!(self, IV::MsgCoinSigned | IV::MsgCoinPredicate | IV::MsgDataSigned | IV::MsgDataPredicate)
    }
    fn is_predicate(self) -> bool {
        matches!(self, IV::CoinPredicate | IV::MsgCoinPredicate | IV::MsgDataPredicate)
    }
    fn has_data(self) -> bool {
        matches!(self, IV::MsgDataSigned | IV::MsgDataPredicate)
    }
}

fn out_name(o: &Output) -> &'static str {
    match o {
        Output::Coin { .. } => "Coin",
        Output::Contract(_) => "Contract",
        Output::Change { .. } => "Change",
        Output::Variable { .. } => "Variable",
        Output::ContractCreated { .. } => "ContractCreated",
    }
}

// ---------------------------------------------------------------------------------------
// expectations

#[derive(Clone, Debug)]
enum Ans {
    Val(u64),
    /// pointer: expected absolute address (None = any) and the bytes memory must hold there
    Ptr { addr: Option<u64>, bytes: Vec<u8> },
}

#[derive(Clone, Debug)]
struct Exp {
    /// acceptable answers of a successful execution (empty = must not succeed)
    ok: Vec<Ans>,
    /// acceptable panic reasons (empty = must not panic, unless `any_panic`)
    panics: &'static [P],
    any_panic: bool,
    /// the corner is not pinned down by the specification: counted under this name
    unspec: Option<&'static str>,
    /// element variant at the index (coverage class)
    variant: &'static str,
}

fn must(a: Ans, variant: &'static str) -> Exp {
    Exp { ok: vec![a], panics: NO_PANIC, any_panic: false, unspec: None, variant }
}
fn fail(panics: &'static [P], variant: &'static str) -> Exp {
    Exp { ok: vec![], panics, any_panic: false, unspec: None, variant }
}
fn either(a: Ans, panics: &'static [P], unspec: &'static str, variant: &'static str) -> Exp {
    Exp { ok: vec![a], panics, any_panic: false, unspec: Some(unspec), variant }
}

struct Env<'a> {
    tx: &'a Transaction,
    params: &'a ConsensusParameters,
    height: u32,
    gas_price: u64,
    tx_offset: u64,
    chain_id: u64,
    base: [u8; 32],
    /// the transaction object carried metadata cached for other contents when it was checked
    stale_metadata: bool,
}

#[derive(Clone, Copy, PartialEq, Eq, Debug)]
enum Ctx {
    Script,
    /// script context on an interpreter that initialised another transaction before
    /// (the same one with its inputs rotated: contract inputs sit at other indices)
    ScriptReused,
    Verify(usize),
    Estimate(usize),
}

impl Ctx {
    fn name(self) -> &'static str {
        match self {
            Ctx::Script => "script",
            Ctx::ScriptReused => "script-reused",
            Ctx::Verify(_) => "verify",
            Ctx::Estimate(_) => "estimate",
        }
    }
    fn pred(self) -> Option<usize> {
        match self {
            Ctx::Script | Ctx::ScriptReused => None,
            Ctx::Verify(i) | Ctx::Estimate(i) => Some(i),
        }
    }
}

/// which collection a selector indexes
#[derive(Clone, Copy, PartialEq, Eq)]
enum Coll {
    None,
    Inputs,
    Outputs,
    Witnesses,
    Slots,
    Proof,
}

fn coll_of(f: F) -> Coll {
    use F::*;
    match f {
        InputAt(_) | InputType | CoinTxId | CoinOutputIndex | CoinOwner | CoinAmount | CoinAssetId | CoinTxPointer | CoinWitnessIndex
        | CoinPredicateLength | CoinPredicateDataLength | CoinPredicate | CoinPredicateData | CoinPredicateGasUsed | ContractTxId
        | ContractOutputIndex | ContractId | MsgSender | MsgRecipient | MsgAmount | MsgNonce | MsgWitnessIndex | MsgDataLength
        | MsgPredicateLength | MsgPredicateDataLength | MsgData | MsgPredicate | MsgPredicateData | MsgPredicateGasUsed => Coll::Inputs,
        OutputAt(_) | OutputType | OutCoinTo | OutCoinAmount | OutCoinAssetId | OutContractInputIndex | OutCreatedContractId
        | OutCreatedStateRoot => Coll::Outputs,
        WitnessAt(_) | WitnessDataLength | WitnessData => Coll::Witnesses,
        CreateStorageSlotAt => Coll::Slots,
        UploadProofSetAt => Coll::Proof,
        _ => Coll::None,
    }
}

impl View {
    fn coll_len(&self, c: Coll) -> u64 {
        match c {
            Coll::None => 0,
            Coll::Inputs => self.inputs.len() as u64,
            Coll::Outputs => self.outputs.len() as u64,
            Coll::Witnesses => self.witnesses.len() as u64,
            Coll::Slots => self.storage_slots,
            Coll::Proof => self.proof_n,
        }
    }

    /// pointer answer for (part of) a named span of the reference layout
    fn ptr(&self, env: &Env, name: &str, skip: usize, len: Option<usize>) -> Ans {
        let (off, l) = self.span(name);
        let start = off + skip;
        let l = len.unwrap_or(l - skip);
        Ans::Ptr { addr: Some(env.tx_offset + start as u64), bytes: self.bytes[start..start + l].to_vec() }
    }

    fn alias_matches(&self, a: Alias) -> bool {
        match a {
            Alias::Generic => true,
            Alias::Script => self.kind == 0,
            Alias::Create => self.kind == 1,
        }
    }

    /// expectation of `GTF` with selector meaning `f` and index `idx`
    fn expect(&self, env: &Env, f: F, idx: u64) -> Exp {
        use F::*;
        let val = |v: u64| Ans::Val(v);
        let only = |kind: u64, a: Ans| if self.kind == kind { must(a, "-") } else { fail(IMI, "-") };
        const ALIAS: &str = "unspecified_deprecated_alias_on_other_kind";
        match f {
            Type => must(val(self.kind), "-"),
            ScriptGasLimit => {
                if self.kind == 0 {
                    must(val(self.script_gas_limit), "-")
                } else {
                    either(val(0), IMI, "unspecified_script_gas_limit_on_non_script", "-")
                }
            }
            ScriptLength => only(0, val(self.script_len)),
            ScriptDataLength => only(0, val(self.script_data_len)),
            ScriptPtr => if self.kind == 0 { must(self.ptr(env, "script", 0, None), "-") } else { fail(IMI, "-") },
            ScriptDataPtr => if self.kind == 0 { must(self.ptr(env, "script_data", 0, None), "-") } else { fail(IMI, "-") },
            TxLength => must(val(self.bytes.len() as u64), "-"),
            InputsCount(a) | OutputsCount(a) | WitnessesCount(a) => {
                let n = match f {
                    InputsCount(_) => self.inputs.len(),
                    OutputsCount(_) => self.outputs.len(),
                    _ => self.witnesses.len(),
                } as u64;
                if self.alias_matches(a) { must(val(n), "-") } else { either(val(n), IMI, ALIAS, "-") }
            }
            InputAt(a) | OutputAt(a) | WitnessAt(a) => {
                let (c, pre, nf, nf_imi): (Coll, &str, &'static [P], &'static [P]) = match f {
                    InputAt(_) => (Coll::Inputs, "inputs", IN_NF, IN_NF_IMI),
                    OutputAt(_) => (Coll::Outputs, "outputs", OUT_NF, OUT_NF_IMI),
                    _ => (Coll::Witnesses, "witnesses", WIT_NF, WIT_NF_IMI),
                };
                let present = idx < self.coll_len(c);
                let variant = if !present {
                    "absent"
                } else {
                    match c {
                        Coll::Inputs => IV::of(&self.inputs[idx as usize]).name(),
                        Coll::Outputs => out_name(&self.outputs[idx as usize]),
                        _ => "witness",
                    }
                };
                match (present, self.alias_matches(a)) {
                    (true, true) => must(self.ptr(env, &format!("{pre}[{idx}]"), 0, None), variant),
                    (false, true) => fail(nf, variant),
                    (true, false) => either(self.ptr(env, &format!("{pre}[{idx}]"), 0, None), IMI, ALIAS, variant),
                    (false, false) => Exp { unspec: Some(ALIAS), ..fail(nf_imi, variant) },
                }
            }
            CreateBytecodeWitnessIndex => only(1, val(self.body_witness_index)),
            CreateStorageSlotsCount => only(1, val(self.storage_slots)),
            CreateSalt => if self.kind == 1 { must(self.ptr(env, "salt", 0, None), "-") } else { fail(IMI, "-") },
            CreateStorageSlotAt => {
                if self.kind != 1 {
                    fail(SLOT_KIND, "-")
                } else if idx < self.storage_slots {
                    must(self.ptr(env, &format!("storage_slots[{idx}]"), 0, None), "slot")
                } else {
                    fail(SLOT_NF, "absent")
                }
            }
            UploadRoot => if self.kind == 4 { must(self.ptr(env, "bytecode_root", 0, None), "-") } else { fail(IMI, "-") },
            UploadWitnessIndex => only(4, val(self.body_witness_index)),
            UploadSubsectionIndex => only(4, val(self.sub_idx)),
            UploadSubsectionsCount => only(4, val(self.sub_n)),
            UploadProofSetCount => only(4, val(self.proof_n)),
            UploadProofSetAt => {
                if self.kind != 4 {
                    fail(PROOF_KIND, "-")
                } else if idx < self.proof_n {
                    must(self.ptr(env, &format!("proof_set[{idx}]"), 0, None), "proof")
                } else {
                    fail(PROOF_NF, "absent")
                }
            }
            BlobId => if self.kind == 5 { must(self.ptr(env, "blob_id", 0, None), "-") } else { fail(IMI, "-") },
            BlobWitnessIndex => only(5, val(self.body_witness_index)),
            UpgradePurpose => if self.kind == 3 { must(self.ptr(env, "upgrade_purpose", 0, None), "-") } else { fail(IMI, "-") },
            PolicyTypes => {
                let bits = (0..6).filter(|i| self.policies[*i].is_some()).fold(0u64, |a, i| a | (1 << i));
                must(val(bits), "-")
            }
            Policy(i) => match self.policies[i] {
                Some(v) => must(val(v), "set"),
                None => fail(POLICY_UNSET, "unset"),
            },
            WitnessDataLength => match self.witnesses.get(idx as usize).filter(|_| idx < self.witnesses.len() as u64) {
                Some(w) => must(val(w.len() as u64), "witness"),
                None => fail(WIT_NF, "absent"),
            },
            WitnessData => {
                if idx < self.witnesses.len() as u64 {
                    must(self.ptr(env, &format!("witnesses[{idx}]"), 8, None), "witness")
                } else {
                    fail(WIT_NF, "absent")
                }
            }
            _ if coll_of(f) == Coll::Inputs => self.expect_input(env, f, idx),
            _ => self.expect_output(env, f, idx),
        }
    }
}

impl View {
    fn expect_input(&self, env: &Env, f: F, idx: u64) -> Exp {
        use F::*;
        let val = |v: u64| Ans::Val(v);
        if idx >= self.inputs.len() as u64 {
            return match f {
                // the implementation answers InvalidMetadataIdentifier above 2^16-1; both accepted
                ContractOutputIndex => fail(IN_NF_IMI, "absent"),
                _ => fail(IN_NF, "absent"),
            };
        }
        let i = &self.inputs[idx as usize];
        let v = IV::of(i);
        let vn = v.name();
        let sp = |field: &str| format!("inputs[{idx}].{field}");
        let word_at = |field: &str| -> u64 {
            let (o, _) = self.span(&sp(field));
            u64::from_be_bytes(self.bytes[o..o + 8].try_into().unwrap())
        };
        const ON_SIGNED: &str = "unspecified_predicate_field_on_signed_input";
        const WI_ON_PRED: &str = "unspecified_witness_index_on_predicate_input";
        const DATA_ON_COIN_MSG: &str = "unspecified_data_field_on_message_without_data";
        match f {
            InputType => must(val(if v.is_coin() { 0 } else if v == IV::Contract { 1 } else { 2 }), vn),
            CoinTxId | CoinOutputIndex | CoinOwner | CoinAmount | CoinAssetId | CoinTxPointer | CoinWitnessIndex | CoinPredicateLength
            | CoinPredicateDataLength | CoinPredicate | CoinPredicateData | CoinPredicateGasUsed => {
                if !v.is_coin() {
                    return fail(IN_MISMATCH, vn);
                }
                let (utxo_out, amount, wi, gas) = match i {
                    Input::CoinSigned(c) => (c.utxo_id.output_index() as u64, c.amount, Some(c.witness_index as u64), None),
                    Input::CoinPredicate(c) => (c.utxo_id.output_index() as u64, c.amount, None, Some(c.predicate_gas_used)),
                    _ => unreachable!(),
                };
                let pred = v.is_predicate();
                match f {
                    CoinTxId => must(self.ptr(env, &sp("utxo_id"), 0, Some(32)), vn),
                    CoinOutputIndex => must(val(utxo_out), vn),
                    CoinOwner => must(self.ptr(env, &sp("owner"), 0, None), vn),
                    CoinAmount => must(val(amount), vn),
                    CoinAssetId => must(self.ptr(env, &sp("asset_id"), 0, None), vn),
                    CoinTxPointer => must(self.ptr(env, &sp("tx_pointer"), 0, None), vn),
                    CoinWitnessIndex => match wi {
                        Some(w) => must(val(w), vn),
                        None => either(val(word_at("witness_index")), IN_MISMATCH, WI_ON_PRED, vn),
                    },
                    CoinPredicateGasUsed => match gas {
                        Some(g) => must(val(g), vn),
                        None => either(val(word_at("predicate_gas_used")), IN_MISMATCH, ON_SIGNED, vn),
                    },
                    CoinPredicateLength | CoinPredicateDataLength => {
                        let field = if f == CoinPredicateLength { "predicate_len" } else { "predicate_data_len" };
                        let n = if f == CoinPredicateLength {
                            i.input_predicate().map(|p| p.len()).unwrap_or(0) as u64
                        } else {
                            i.input_predicate_data().map(|p| p.len()).unwrap_or(0) as u64
                        };
                        if pred { must(val(n), vn) } else { either(val(word_at(field)), IN_MISMATCH, ON_SIGNED, vn) }
                    }
                    _ => {
                        let field = if f == CoinPredicate { "predicate" } else { "predicate_data" };
                        let a = self.ptr(env, &sp(field), 0, None);
                        if pred { must(a, vn) } else { either(a, IN_MISMATCH, ON_SIGNED, vn) }
                    }
                }
            }
            ContractTxId | ContractId => {
                if v != IV::Contract {
                    return fail(IN_MISMATCH, vn);
                }
                match f {
                    ContractTxId => must(self.ptr(env, &sp("utxo_id"), 0, Some(32)), vn),
                    _ => must(self.ptr(env, &sp("contract_id"), 0, None), vn),
                }
            }
            ContractOutputIndex => {
                if v != IV::Contract {
                    return fail(IN_MISMATCH, vn);
                }
                // two readings: the output index inside the input's UTXO id as placed in
                // memory, or the position of the Output::Contract that refers to this input
                let Input::Contract(c) = i else { unreachable!() };
                let mut ok = vec![val(c.utxo_id.output_index() as u64)];
                for (k, o) in self.outputs.iter().enumerate() {
                    if let Output::Contract(oc) = o {
                        if oc.input_index as u64 == idx {
                            ok.push(val(k as u64));
                        }
                    }
                }
                Exp { ok, panics: CONTRACT_OUT_IDX, any_panic: false, unspec: Some("unspecified_input_contract_output_index_meaning"), variant: vn }
            }
            _ => {
                if !v.is_msg() {
                    return fail(IN_MISMATCH, vn);
                }
                let (amount, wi, gas): (u64, Option<u64>, Option<u64>) = match i {
                    Input::MessageCoinSigned(m) => (m.amount, Some(m.witness_index as u64), None),
                    Input::MessageCoinPredicate(m) => (m.amount, None, Some(m.predicate_gas_used)),
                    Input::MessageDataSigned(m) => (m.amount, Some(m.witness_index as u64), None),
                    Input::MessageDataPredicate(m) => (m.amount, None, Some(m.predicate_gas_used)),
                    _ => unreachable!(),
                };
                let dlen = i.input_data().map(|d| d.len()).unwrap_or(0) as u64;
                let plen = i.input_predicate().map(|d| d.len()).unwrap_or(0) as u64;
                let pdlen = i.input_predicate_data().map(|d| d.len()).unwrap_or(0) as u64;
                let pred = v.is_predicate();
                match f {
                    MsgSender => must(self.ptr(env, &sp("sender"), 0, None), vn),
                    MsgRecipient => must(self.ptr(env, &sp("recipient"), 0, None), vn),
                    MsgAmount => must(val(amount), vn),
                    MsgNonce => must(self.ptr(env, &sp("nonce"), 0, None), vn),
                    MsgWitnessIndex => match wi {
                        Some(w) => must(val(w), vn),
                        None => either(val(word_at("witness_index")), IN_MISMATCH, WI_ON_PRED, vn),
                    },
                    MsgPredicateGasUsed => match gas {
                        Some(g) => must(val(g), vn),
                        None => either(val(word_at("predicate_gas_used")), IN_MISMATCH, ON_SIGNED, vn),
                    },
                    MsgDataLength => {
                        if v.has_data() { must(val(dlen), vn) } else { either(val(word_at("data_len")), IN_MISMATCH, DATA_ON_COIN_MSG, vn) }
                    }
                    MsgData => {
                        let a = self.ptr(env, &sp("data"), 0, None);
                        if v.has_data() { must(a, vn) } else { either(a, IN_MISMATCH, DATA_ON_COIN_MSG, vn) }
                    }
                    MsgPredicateLength => {
                        if pred { must(val(plen), vn) } else { either(val(word_at("predicate_len")), IN_MISMATCH, ON_SIGNED, vn) }
                    }
                    MsgPredicateDataLength => {
                        if pred { must(val(pdlen), vn) } else { either(val(word_at("predicate_data_len")), IN_MISMATCH, ON_SIGNED, vn) }
                    }
                    MsgPredicate | MsgPredicateData => {
                        let field = if f == MsgPredicate { "predicate" } else { "predicate_data" };
                        let a = self.ptr(env, &sp(field), 0, None);
                        if pred { must(a, vn) } else { either(a, IN_MISMATCH, ON_SIGNED, vn) }
                    }
                    _ => unreachable!("input selector {f:?}"),
                }
            }
        }
    }

    fn expect_output(&self, env: &Env, f: F, idx: u64) -> Exp {
        use F::*;
        let val = |v: u64| Ans::Val(v);
        if idx >= self.outputs.len() as u64 {
            return match f {
                OutContractInputIndex => fail(OUT_IN_NF, "absent"),
                _ => fail(OUT_NF, "absent"),
            };
        }
        let o = &self.outputs[idx as usize];
        let vn = out_name(o);
        let sp = |field: &str| format!("outputs[{idx}].{field}");
        const ON_VARIABLE: &str = "unspecified_coin_selector_on_variable_output";
        const AMOUNT_ON_CHANGE: &str = "unspecified_coin_amount_on_change_or_variable_output";
        match f {
            OutputType => must(
                val(match o {
                    Output::Coin { .. } => 0,
                    Output::Contract(_) => 1,
                    Output::Change { .. } => 2,
                    Output::Variable { .. } => 3,
                    Output::ContractCreated { .. } => 4,
                }),
                vn,
            ),
            OutCoinTo | OutCoinAssetId => {
                let field = if f == OutCoinTo { "to" } else { "asset_id" };
                match o {
                    Output::Coin { .. } | Output::Change { .. } => must(self.ptr(env, &sp(field), 0, None), vn),
                    Output::Variable { .. } => either(self.ptr(env, &sp(field), 0, None), OUT_MISMATCH, ON_VARIABLE, vn),
                    _ => fail(OUT_MISMATCH, vn),
                }
            }
            OutCoinAmount => match o {
                Output::Coin { amount, .. } => must(val(*amount), vn),
                Output::Change { amount, .. } | Output::Variable { amount, .. } => either(val(*amount), OUT_MISMATCH, AMOUNT_ON_CHANGE, vn),
                _ => fail(OUT_MISMATCH, vn),
            },
            OutContractInputIndex => match o {
                Output::Contract(c) => must(val(c.input_index as u64), vn),
                _ => fail(OUT_IN_MISMATCH, vn),
            },
            OutCreatedContractId | OutCreatedStateRoot => match o {
                Output::ContractCreated { .. } => {
                    must(self.ptr(env, &sp(if f == OutCreatedContractId { "contract_id" } else { "state_root" }), 0, None), vn)
                }
                _ => fail(OUT_MISMATCH, vn),
            },
            _ => unreachable!("output selector {f:?}"),
        }
    }

    /// expectation of `GM` with immediate `imm` in the bench (no call frame)
    fn expect_gm(&self, env: &Env, ctx: Ctx, imm: u32) -> Exp {
        match imm {
            1 | 2 => fail(&[P::ExpectedInternalContext], "-"),
            3 => match ctx.pred() {
                Some(k) => must(Ans::Val(k as u64), "-"),
                None => Exp { any_panic: true, ..fail(NO_PANIC, "-") },
            },
            4 => must(Ans::Val(env.chain_id), "-"),
            5 => must(Ans::Val(env.tx_offset), "-"),
            6 => must(Ans::Ptr { addr: Some(32), bytes: env.base.to_vec() }, "-"),
            7 => match ctx {
                Ctx::Script | Ctx::ScriptReused => must(Ans::Val(env.gas_price), "-"),
                _ => fail(&[P::CanNotGetGasPriceInPredicate], "-"),
            },
            8 => match self.expected_owner() {
                Some(o) => must(Ans::Ptr { addr: None, bytes: o.to_vec() }, if self.policies[5].is_some() { "policy" } else { "common" }),
                None => fail(&[P::OwnerIsUnknown], "unknown"),
            },
            _ => fail(IMI, "-"),
        }
    }
}

// ---------------------------------------------------------------------------------------
// execution and judgement

const SENTINEL: u64 = 0xD1CE_0BAD_5EED_F00D;
const R_DST: u8 = 0x10;
const R_IDX: u8 = 0x11;
const GAS: u64 = 1 << 50;

fn gtf_word(dst: u8, rb: u8, imm12: u16) -> u32 {
    ((Opcode::GTF as u32) << 24) | ((dst as u32 & 0x3f) << 18) | ((rb as u32 & 0x3f) << 12) | (imm12 as u32 & 0xfff)
}

fn gm_word(dst: u8, imm18: u32) -> u32 {
    ((Opcode::GM as u32) << 24) | ((dst as u32 & 0x3f) << 18) | (imm18 & 0x3ffff)
}

#[derive(Clone, Copy, Debug)]
struct Probe {
    gm: bool,
    imm: u32,
    idx: u64,
    dst: u8,
}

fn exec<S, Tx, const PRED: bool>(vm: &mut Interpreter<MemoryInstance, S, Tx>, p: &Probe) -> (Outcome, u64)
where
    S: InterpreterStorage,
    S::DataError: core::fmt::Debug,
    Tx: ExecutableTransaction,
{
    {
        let regs = vm.registers_mut();
        if regs[RegId::CGAS.to_u8() as usize] < (1 << 40) {
            regs[RegId::CGAS.to_u8() as usize] = GAS;
            regs[RegId::GGAS.to_u8() as usize] = GAS;
        }
        regs[R_DST as usize] = SENTINEL;
        regs[R_IDX as usize] = p.idx;
    }
    let raw = if p.gm { gm_word(p.dst, p.imm) } else { gtf_word(p.dst, R_IDX, p.imm as u16) };
    let r = guarded(|| vm.instruction::<_, PRED>(raw));
    let out = match r {
        Err(pn) => Outcome::RustPanic(pn.text),
        Ok(Ok(fuel_vm::state::ExecuteState::Proceed)) => Outcome::Proceed,
        Ok(Ok(s)) => Outcome::OtherState(format!("{s:?}")),
        Ok(Err(e)) => match e.panic_reason() {
            Some(r) => Outcome::Panic(r),
            None => Outcome::OtherError(format!("{e:?}")),
        },
    };
    (out, vm.registers()[p.dst as usize])
}

/// `Ok(outcome class)` or `Err((shape of what was got, details))`
fn judge(exp: &Exp, out: &Outcome, res: u64, mem: &MemoryInstance, reserved: bool) -> Result<String, (String, String)> {
    match out {
        Outcome::Proceed => {
            if reserved {
                return Err(("ok on a reserved destination register".into(), format!("register value afterwards {res:#x}")));
            }
            if exp.ok.is_empty() {
                return Err(("ok".into(), format!("returned {res:#x}")));
            }
            let mut first: Option<(String, String)> = None;
            for a in &exp.ok {
                let r: Result<(), (String, String)> = match a {
                    Ans::Val(v) => {
                        if *v == res { Ok(()) } else { Err(("ok:wrong value".into(), format!("returned {res:#x}, expected {v:#x}"))) }
                    }
                    Ans::Ptr { addr, bytes } => {
                        if addr.is_some_and(|a| a != res) {
                            Err(("ok:wrong pointer".into(), format!("returned {res:#x}, expected {:#x}", addr.unwrap())))
                        } else {
                            match mem.read(res, bytes.len()) {
                                Ok(m) if m == bytes.as_slice() => Ok(()),
                                Ok(m) => Err((
                                    "ok:memory at pointer differs".into(),
                                    format!("pointer {res:#x}: memory {} expected {}", hx(&m[..m.len().min(48)]), hx(&bytes[..bytes.len().min(48)])),
                                )),
                                Err(e) => Err(("ok:pointer not readable".into(), format!("pointer {res:#x} len {}: {e:?}", bytes.len()))),
                            }
                        }
                    }
                };
                match r {
                    Ok(()) => return Ok("ok".into()),
                    Err(e) => {
                        first.get_or_insert(e);
                    }
                }
            }
            Err(first.unwrap())
        }
        Outcome::Panic(r) => {
            let fine = (reserved && *r == P::ReservedRegisterNotWritable) || exp.panics.contains(r) || exp.any_panic;
            if fine { Ok(format!("{r:?}")) } else { Err((format!("panic {r:?}"), String::new())) }
        }
        o => Err((o.tag().split(':').next().unwrap_or("other").to_string(), o.tag())),
    }
}

fn exp_shape(exp: &Exp, reserved: bool) -> String {
    let mut s = String::new();
    if reserved {
        s.push_str("ReservedRegisterNotWritable");
    } else if !exp.ok.is_empty() {
        s.push_str(match exp.ok[0] {
            Ans::Val(_) => "value",
            Ans::Ptr { .. } => "pointer",
        });
    }
    if exp.any_panic {
        s.push_str("|any panic");
    }
    for p in exp.panics {
        if !s.is_empty() {
            s.push('|');
        }
        s.push_str(&format!("{p:?}"));
    }
    s
}

fn idx_class(idx: u64, len: u64) -> &'static str {
    if idx < len {
        "in range"
    } else if idx == len {
        "len"
    } else if idx == len + 1 {
        "len+1"
    } else if idx < (1 << 16) {
        "<2^16"
    } else if idx == (1 << 16) {
        "2^16"
    } else if idx <= (1 << 32) {
        "<=2^32"
    } else {
        ">2^32"
    }
}

#[derive(Default)]
struct Stats {
    seen: HashSet<(u32, u64, &'static str, String)>,
    ok_sel: Vec<u64>,
    gm_judged: [u64; 9],
    evals: u64,
}

#[derive(Clone, Copy, PartialEq, Eq)]
enum Plan {
    /// all 4096 imm12 values
    Full,
    /// defined selectors + a sample of undefined ones
    Sample,
}

fn table_lookup(imm: u32) -> Option<(usize, &'static str, F)> {
    TABLE.iter().position(|e| e.0 as u32 == imm).map(|k| (k, TABLE[k].1, TABLE[k].2))
}

fn probes(view: &View, plan: Plan, rng: &mut Rng) -> Vec<Probe> {
    let special = [0xFFFFu64, 1 << 16, 1 << 32, u64::MAX];
    let mut v = vec![];
    for (imm, _, f) in TABLE {
        let c = coll_of(*f);
        if c == Coll::None {
            v.push(Probe { gm: false, imm: *imm as u32, idx: 0, dst: R_DST });
            v.push(Probe { gm: false, imm: *imm as u32, idx: *rng.pick(&special), dst: R_DST });
        } else {
            let n = view.coll_len(c);
            for idx in (0..=n + 1).chain(special) {
                v.push(Probe { gm: false, imm: *imm as u32, idx, dst: R_DST });
            }
        }
    }
    // undefined selectors
    let n_inputs = view.inputs.len() as u64;
    match plan {
        Plan::Full => {
            for imm in 0..4096u32 {
                if table_lookup(imm).is_none() {
                    v.push(Probe { gm: false, imm, idx: 0, dst: R_DST });
                    v.push(Probe { gm: false, imm, idx: if rng.bool() { rng.below(n_inputs + 2) } else { *rng.pick(&special) }, dst: R_DST });
                }
            }
        }
        Plan::Sample => {
            let mut k = 0;
            while k < 48 {
                let imm = match rng.below(3) {
                    0 => rng.below(4096) as u32,
                    // neighbours of defined selectors
                    _ => ((TABLE[rng.usize_below(TABLE.len())].0 as i32) + [-1i32, 1, 2, 0x10, 0x100][rng.usize_below(5)]).clamp(0, 4095) as u32,
                };
                if table_lookup(imm).is_none() {
                    v.push(Probe { gm: false, imm, idx: if rng.bool() { 0 } else { rng.below(n_inputs + 2) }, dst: R_DST });
                    k += 1;
                }
            }
        }
    }
    // reserved destination registers
    for _ in 0..12 {
        let (imm, _, f) = TABLE[rng.usize_below(TABLE.len())];
        let n = view.coll_len(coll_of(f));
        let idx = if rng.chance(3, 4) { rng.below(n.max(1)) } else { n + rng.below(2) };
        v.push(Probe { gm: false, imm: imm as u32, idx, dst: rng.below(16) as u8 });
    }
    v.push(Probe { gm: false, imm: 0xFFF, idx: 0, dst: 0 });
    // GM
    for (imm, _) in GM_TABLE {
        v.push(Probe { gm: true, imm: *imm, idx: 0, dst: R_DST });
    }
    for imm in [0u32, 9, 10, 0xFF, 0x100, 0x3FFFF, rng.below(1 << 18) as u32, 9 + rng.below(64) as u32] {
        v.push(Probe { gm: true, imm, idx: 0, dst: R_DST });
    }
    for _ in 0..3 {
        v.push(Probe { gm: true, imm: 1 + rng.below(9) as u32, idx: 0, dst: rng.below(16) as u8 });
    }
    v
}

fn replay_record(env: &Env, ctx: Ctx, p: &Probe) -> Value {
    json!({
        "tx": serde_json::to_value(env.tx).unwrap_or(Value::Null),
        "params": serde_json::to_value(env.params).unwrap_or(Value::Null),
        "height": env.height,
        "gas_price": env.gas_price.to_string(),
        "ctx": ctx.name(),
        "stale_metadata": env.stale_metadata,
        "pred_idx": ctx.pred(),
        "gm": p.gm,
        "imm": p.imm,
        "idx": p.idx.to_string(),
        "dst": p.dst,
    })
}

/// run the probes on an initialised VM and judge each
fn sweep<S, Tx, const PRED: bool>(
    vm: &mut Interpreter<MemoryInstance, S, Tx>,
    env: &Env,
    ctx: Ctx,
    list: &[Probe],
    view: &View,
    rep: &mut Report,
    st: &mut Stats,
    describe: bool,
) where
    S: InterpreterStorage,
    S::DataError: core::fmt::Debug,
    Tx: ExecutableTransaction,
{
    // the image itself: tx bytes at tx_offset, preceded by the size word
    match vm.memory().read(env.tx_offset, view.bytes.len()) {
        Ok(m) if m == view.bytes.as_slice() => rep.count("tx_image_matches_reference_encoding"),
        Ok(_) | Err(_) => rep.violation(
            format!("C05|init|tx image at tx_offset differs from the canonical encoding of vm.transaction()|{}|{}", view.kind_name, ctx.name()),
            format!("{} ({}): memory [tx_offset {}, +{}) does not hold the reference encoding of the transaction the VM reports", view.kind_name, ctx.name(), env.tx_offset, view.bytes.len()),
            || replay_record(env, ctx, &Probe { gm: false, imm: 1, idx: 0, dst: R_DST }),
        ),
    }
    for p in list {
        let reserved = p.dst < 16;
        let (name, tindex, exp, len): (String, Option<usize>, Exp, u64) = if p.gm {
            let name = GM_TABLE.iter().find(|e| e.0 == p.imm).map(|e| e.1.to_string()).unwrap_or_else(|| "undefined".into());
            (name, None, view.expect_gm(env, ctx, p.imm), 0)
        } else {
            match table_lookup(p.imm) {
                Some((k, name, f)) => (name.to_string(), Some(k), view.expect(env, f, p.idx), view.coll_len(coll_of(f))),
                None => ("undefined".into(), None, fail(IMI, "-"), 0),
            }
        };
        let (out, res) = exec::<S, Tx, PRED>(vm, p);
        st.evals += 1;
        let opn = if p.gm { "GM" } else { "GTF" };
        let mut verdict = judge(&exp, &out, res, vm.memory(), reserved);
        // an index register above 2^32-1 is answered with InvalidMetadataIdentifier whatever
        // the selector (even one that does not use the index): not pinned down, counted
        if verdict.is_err() && !p.gm && !reserved && p.idx > u32::MAX as u64 && out == Outcome::Panic(P::InvalidMetadataIdentifier) {
            rep.count(if len == 0 && tindex.is_some_and(|k| coll_of(TABLE[k].2) == Coll::None) {
                "unspecified_index_register_over_32_bits_on_selector_without_index"
            } else {
                "unspecified_index_over_32_bits_reason"
            });
            verdict = Ok("InvalidMetadataIdentifier(index>=2^32)".into());
        }
        if describe {
            rep.sample(|| json!({"replayed": format!("{opn} {name} imm={:#x} idx={} dst={:#x} in {} context of a {} transaction", p.imm, p.idx, p.dst, ctx.name(), view.kind_name),
                "outcome": out.tag(), "result_register": format!("{res:#x}"), "expected": exp_shape(&exp, reserved), "verdict": format!("{verdict:?}")}));
        }
        match verdict {
            Ok(class) => {
                if let Some(u) = exp.unspec {
                    rep.count(u);
                }
                if reserved {
                    rep.count("reserved_destination_judged");
                } else if p.gm {
                    if let Some(e) = GM_TABLE.iter().find(|e| e.0 == p.imm) {
                        st.gm_judged[e.0 as usize] += 1;
                    }
                } else if let (Some(k), Outcome::Proceed) = (tindex, &out) {
                    st.ok_sel[k] += 1;
                }
                let key = (if p.gm { 0x10000 | p.imm.min(9) } else if tindex.is_some() { p.imm } else { 0xFFFF }, view.kind, exp.variant, if reserved { format!("reserved:{class}") } else { class });
                if !st.seen.contains(&key) {
                    rep.class(format!("{opn}:{name}|{}|{}|{}", view.kind_name, key.2, key.3));
                    if rep.samples.len() < crate::MAX_SAMPLES && (matches!(exp.ok.first(), Some(Ans::Ptr { .. })) || rep.samples.len() % 2 == 1) {
                        rep.sample(|| json!({"op": opn, "selector": name, "imm": format!("{:#x}", p.imm), "idx": p.idx.to_string(), "ctx": ctx.name(), "tx_kind": view.kind_name,
                            "element": exp.variant, "outcome": out.tag(), "result": format!("{res:#x}"), "tx_offset": env.tx_offset,
                            "expected": format!("{:?}", exp.ok.first().map(|a| match a { Ans::Val(v) => format!("value {v:#x}"), Ans::Ptr{addr, bytes} => format!("pointer {:?} holding {}", addr, hx(&bytes[..bytes.len().min(40)])) }))}));
                    }
                    st.seen.insert(key);
                }
            }
            Err((got, detail)) => {
                let sig = format!(
                    "C05|{opn}|{name}|{}|{}|{}|idx {}|dst {}|expected {}|got {}",
                    view.kind_name,
                    ctx.name(),
                    exp.variant,
                    if p.gm { "-" } else { idx_class(p.idx, len) },
                    if reserved { "reserved" } else { "writable" },
                    exp_shape(&exp, reserved),
                    got
                );
                rep.violation(
                    sig,
                    format!("{opn} {name} (imm {:#x}) with index {} into ${:#x} in the {} context of a {} transaction (element: {}): {} {}; expected {}", p.imm, p.idx, p.dst, ctx.name(), view.kind_name, exp.variant, got, detail, exp_shape(&exp, reserved)),
                    || replay_record(env, ctx, p),
                );
            }
        }
    }
}

// ---------------------------------------------------------------------------------------
// contexts

/// which context(s) to run: all, or exactly one (replay)
static PROF: std::sync::atomic::AtomicBool = std::sync::atomic::AtomicBool::new(false);

/// `--opt prof=1`: wall time per phase in microseconds (counters `t_us_*`)
fn timed<T>(rep: &mut Report, name: &str, f: impl FnOnce(&mut Report) -> T) -> T {
    if PROF.load(std::sync::atomic::Ordering::Relaxed) {
        let t = std::time::Instant::now();
        let r = f(rep);
        rep.count_n(name, t.elapsed().as_micros() as u64);
        r
    } else {
        f(rep)
    }
}

#[derive(Clone, Copy)]
enum Which {
    All,
    Only(Ctx),
}

fn bench_tx<Tx>(env: &Env, checked: Checked<Tx>, plan: Plan, single: Option<&Probe>, which: Which, rng: &mut Rng, rep: &mut Report, st: &mut Stats)
where
    Tx: ExecutableTransaction,
    <Tx as IntoChecked>::Metadata: CheckedMetadata + Clone,
{
    let describe = single.is_some();
    // predicate contexts
    let pred_inputs: Vec<usize> = checked.transaction().inputs().iter().enumerate().filter(|(_, i)| i.is_coin_predicate() || i.is_message_coin_predicate() || i.is_message_data_predicate()).map(|(k, _)| k).collect();
    let mut ctxs: Vec<Ctx> = vec![];
    match which {
        Which::Only(c) => ctxs.push(c),
        Which::All => {
            for (n, k) in pred_inputs.iter().enumerate().take(3) {
                ctxs.push(if (n + *k) % 2 == 0 { Ctx::Verify(*k) } else { Ctx::Estimate(*k) });
            }
            ctxs.push(if checked.transaction().inputs().len() >= 2 && rng.bool() { Ctx::ScriptReused } else { Ctx::Script });
        }
    }
    for ctx in ctxs {
        match ctx {
            Ctx::Script | Ctx::ScriptReused => {
                let mut vm: Interpreter<MemoryInstance, MemoryStorage, Tx> = Interpreter::with_storage(
                    MemoryInstance::new(),
                    MemoryStorage::new(BlockHeight::from(env.height), Default::default()),
                    InterpreterParams::new(env.gas_price, env.params),
                );
                if ctx == Ctx::ScriptReused {
                    // predecessor on the same interpreter: the same transaction with its
                    // inputs rotated by one (Output::Contract indices follow)
                    let mut t = checked.transaction().clone();
                    let n = t.inputs().len();
                    t.inputs_mut().rotate_left(1);
                    for o in t.outputs_mut().iter_mut() {
                        if let Output::Contract(c) = o {
                            c.input_index = ((c.input_index as usize + n - 1) % n) as u16;
                        }
                    }
                    match guarded(|| t.into_checked_basic(BlockHeight::from(env.height), env.params).map_err(|e| format!("{e:?}"))) {
                        Ok(Ok(pre)) => match guarded(|| vm.init_script(pre.test_into_ready()).map_err(|e| format!("{e:?}"))) {
                            Ok(Ok(())) => rep.count("script_ctx_on_reused_interpreter"),
                            _ => rep.count("predecessor_not_initialised"),
                        },
                        _ => rep.count("predecessor_rejected_by_checks"),
                    }
                }
                let ready = checked.clone().test_into_ready();
                match timed(rep, "t_us_init", |_| guarded(|| vm.init_script(ready).map_err(|e| format!("{e:?}")))) {
                    Ok(Ok(())) => {}
                    Ok(Err(e)) if e.contains("BalanceOverflow") => {
                        // retryable + spendable base asset amounts exceed 2^64-1: the VM refuses
                        rep.count("vm_refused_balance_overflow");
                        continue;
                    }
                    Ok(Err(e)) => {
                        rep.count("harness_setup_failed");
                        rep.note(format!("init_script failed: {e}"));
                        continue;
                    }
                    Err(p) => {
                        rep.count("harness_setup_failed");
                        rep.note(format!("init_script panicked: {}", p.text));
                        continue;
                    }
                }
                let t: Transaction = vm.transaction().clone().into();
                let Some(view) = timed(rep, "t_us_view", |_| View::new(&t)) else { continue };
                let list = match single {
                    Some(p) => vec![*p],
                    None => timed(rep, "t_us_probes", |_| probes(&view, plan, rng)),
                };
                rep.count(&format!("ctx_script_{}", view.kind_name));
                timed(rep, "t_us_sweep", |rep| sweep::<_, _, false>(&mut vm, env, ctx, &list, &view, rep, st, describe));
            }
            Ctx::Verify(k) | Ctx::Estimate(k) => {
                let Some(program) = RuntimePredicate::from_tx(checked.transaction(), env.tx_offset as usize, k) else {
                    rep.count("harness_setup_failed");
                    rep.note(format!("input {k} is not a predicate input"));
                    continue;
                };
                let context = match ctx {
                    Ctx::Verify(_) => Context::PredicateVerification { program },
                    _ => Context::PredicateEstimation { program },
                };
                let mut vm = Interpreter::<MemoryInstance, _, Tx>::with_storage(
                    MemoryInstance::new(),
                    empty_predicate_storage(),
                    InterpreterParams::new(0, env.params),
                );
                let tx = checked.transaction().clone();
                match timed(rep, "t_us_init_pred", |_| guarded(|| vm.init_predicate(context, tx, GAS).map_err(|e| format!("{e:?}")))) {
                    Ok(Ok(())) => {}
                    Ok(Err(e)) => {
                        rep.count("harness_setup_failed");
                        rep.note(format!("init_predicate failed: {e}"));
                        continue;
                    }
                    Err(p) => {
                        rep.count("harness_setup_failed");
                        rep.note(format!("init_predicate panicked: {}", p.text));
                        continue;
                    }
                }
                let t: Transaction = vm.transaction().clone().into();
                let Some(view) = View::new(&t) else { continue };
                let list = match single {
                    Some(p) => vec![*p],
                    // predicate contexts always use the sampled plan
                    None => probes(&view, Plan::Sample, rng),
                };
                rep.count(&format!("ctx_{}_{}", ctx.name(), view.kind_name));
                timed(rep, "t_us_sweep_pred", |rep| sweep::<_, _, true>(&mut vm, env, ctx, &list, &view, rep, st, describe));
            }
        }
    }
}

fn tx_offset_of(params: &ConsensusParameters) -> u64 {
    // tx id (32) | base asset id (32) | balance table max_inputs x (asset id 32 + amount 8) | tx size word (8)
    32 + 32 + params.tx_params().max_inputs() as u64 * 40 + 8
}

/// Pre-compute the transaction once with one more (or one less) policy - everything behind
/// the policies sits 8 bytes elsewhere - and put the policies back: the contents are the
/// original ones again, the cached metadata (offsets, id) is not. Checking must refresh it.
fn with_stale_metadata(tx: &Transaction, params: &ConsensusParameters) -> Transaction {
    use fuel_tx::Cacheable;
    fn toggle<T: fuel_tx::field::Policies + Cacheable>(t: &mut T, chain: &fuel_types::ChainId) {
        let had = t.policies().get(PolicyType::Tip);
        t.policies_mut().set(PolicyType::Tip, if had.is_some() { None } else { Some(1) });
        let _ = t.precompute(chain);
        t.policies_mut().set(PolicyType::Tip, had);
    }
    let chain = params.chain_id();
    let mut t = tx.clone();
    match &mut t {
        Transaction::Script(x) => toggle(x, &chain),
        Transaction::Create(x) => toggle(x, &chain),
        Transaction::Upgrade(x) => toggle(x, &chain),
        Transaction::Upload(x) => toggle(x, &chain),
        Transaction::Blob(x) => toggle(x, &chain),
        Transaction::Mint(_) => {}
    }
    t
}

fn run_case(tx: &Transaction, params: &ConsensusParameters, height: u32, gas_price: u64, plan: Plan, single: Option<(&Probe, Ctx)>, stale: Option<bool>, rng: &mut Rng, rep: &mut Report, st: &mut Stats) {
    let stale_metadata = stale.unwrap_or_else(|| rng.below(4) == 0);
    if stale_metadata {
        rep.count("transactions_checked_with_stale_cached_metadata");
    }
    let staged = if stale_metadata { with_stale_metadata(tx, params) } else { tx.clone() };
    let env = Env {
        stale_metadata,
        tx,
        params,
        height,
        gas_price,
        tx_offset: tx_offset_of(params),
        chain_id: u64::from(params.chain_id()),
        base: **params.base_asset_id(),
    };
    let checked = match guarded(|| staged.clone().into_checked_basic(BlockHeight::from(height), params)) {
        Ok(Ok(c)) => c,
        Ok(Err(e)) => {
            rep.count("generator_rejected");
            rep.note(format!("into_checked_basic rejected a generated transaction (not judged): {e:?}"));
            return;
        }
        Err(p) => {
            rep.count("generator_rejected");
            rep.note(format!("into_checked_basic panicked (not judged by C05): {}", p.text));
            return;
        }
    };
    let which = match single {
        Some((_, c)) => Which::Only(c),
        None => Which::All,
    };
    let sp = single.map(|s| s.0);
    match CheckedTransaction::from(checked) {
        CheckedTransaction::Script(c) => bench_tx(&env, c, plan, sp, which, rng, rep, st),
        CheckedTransaction::Create(c) => bench_tx(&env, c, plan, sp, which, rng, rep, st),
        CheckedTransaction::Upgrade(c) => bench_tx(&env, c, plan, sp, which, rng, rep, st),
        CheckedTransaction::Upload(c) => bench_tx(&env, c, plan, sp, which, rng, rep, st),
        CheckedTransaction::Blob(c) => bench_tx(&env, c, plan, sp, which, rng, rep, st),
        CheckedTransaction::Mint(_) => rep.count("generator_rejected"),
    }
}

// ---------------------------------------------------------------------------------------
// workload

const KINDS: [usize; 16] = [SCRIPT, CREATE, SCRIPT, UPGRADE, SCRIPT, UPLOAD, SCRIPT, BLOB, SCRIPT, CREATE, SCRIPT, UPGRADE, SCRIPT, UPLOAD, SCRIPT, BLOB];

/// same input under another owner; predicate inputs get `code` (whose owner `owner` is)
fn reowned(i: &Input, owner: Address, code: Option<&Vec<u8>>) -> Input {
    let pd = i.input_predicate_data().unwrap_or(&[]).to_vec();
    let data = i.input_data().unwrap_or(&[]).to_vec();
    match i {
        Input::CoinSigned(c) => Input::coin_signed(c.utxo_id, owner, c.amount, c.asset_id, c.tx_pointer, c.witness_index),
        Input::MessageCoinSigned(m) => Input::message_coin_signed(m.sender, owner, m.amount, m.nonce, m.witness_index),
        Input::MessageDataSigned(m) => Input::message_data_signed(m.sender, owner, m.amount, m.nonce, m.witness_index, data),
        Input::CoinPredicate(c) => match code {
            Some(p) => Input::coin_predicate(c.utxo_id, owner, c.amount, c.asset_id, c.tx_pointer, c.predicate_gas_used, p.clone(), pd),
            None => Input::coin_signed(c.utxo_id, owner, c.amount, c.asset_id, c.tx_pointer, 0),
        },
        Input::MessageCoinPredicate(m) => match code {
            Some(p) => Input::message_coin_predicate(m.sender, owner, m.amount, m.nonce, m.predicate_gas_used, p.clone(), pd),
            None => Input::message_coin_signed(m.sender, owner, m.amount, m.nonce, 0),
        },
        Input::MessageDataPredicate(m) => match code {
            Some(p) => Input::message_data_predicate(m.sender, owner, m.amount, m.nonce, m.predicate_gas_used, data, p.clone(), pd),
            None => Input::message_data_signed(m.sender, owner, m.amount, m.nonce, 0, data),
        },
        Input::Contract(_) => i.clone(),
    }
}

fn make_case(rng: &mut Rng, g: u64) -> (Transaction, ConsensusParameters, u32, u64) {
    let kind = KINDS[(g % 16) as usize];
    let mut d = gen_valid::valid_draft(rng, kind);
    // vary max_inputs (moves tx_offset)
    let ni = d.inputs.len() as u64;
    let mi = match rng.below(4) {
        0 => 255,
        1 => ni + 1,
        2 => ni + 2 + rng.below(20),
        _ => 8 + rng.below(240),
    }
    .max(ni + 1)
    .min(255) as u16;
    d.txp = d.txp.with_max_inputs(mi);
    // ownership situations: policy owner (the generator sets it for a third of the drafts);
    // a common owner of all inputs; different owners
    if d.policies.get(PolicyType::Owner).is_none() && rng.chance(1, 3) {
        let first_pred: Option<(Vec<u8>, Address)> = d.inputs.iter().find_map(|i| match (i.input_predicate(), i.input_owner()) {
            (Some(p), Some(o)) => Some((p.to_vec(), *o)),
            _ => None,
        });
        let (code, owner) = match first_pred {
            Some((p, o)) => (Some(p), o),
            None => (None, Address::new(rng.arr())),
        };
        d.inputs = d.inputs.iter().map(|i| reowned(i, owner, code.as_ref())).collect();
        if kind == UPGRADE {
            d.privileged = owner;
        }
    }
    let gas_price = match rng.below(4) {
        0 => 0,
        1 => 1 + rng.below(1000),
        _ => rng.word(),
    };
    (d.transaction(), d.params(), d.height, gas_price)
}

fn worker(cfg: &Cfg, w: usize) -> Report {
    let mut rep = Report::new();
    let mut st = Stats { ok_sel: vec![0; TABLE.len()], ..Default::default() };
    let total = cfg.budget(200, 20_000);
    let threads = cfg.threads.max(1) as u64;
    let mut i = 0u64;
    loop {
        let g = w as u64 + threads * i;
        if g >= total {
            break;
        }
        i += 1;
        let mut rng = Rng::derive(cfg.seed, 0xC05, g);
        let (tx, params, height, gas_price) = timed(&mut rep, "t_us_make", |_| make_case(&mut rng, g));
        let plan = if g % 4 == 0 { Plan::Full } else { Plan::Sample };
        rep.count("transactions");
        timed(&mut rep, "t_us_case", |rep| run_case(&tx, &params, height, gas_price, plan, None, None, &mut rng, rep, &mut st));
    }
    if w == 0 {
        timed(&mut rep, "t_us_e2e", |rep| gm_call_e2e(rep, &mut st));
    }
    rep.evaluations += st.evals;
    for (k, e) in TABLE.iter().enumerate() {
        rep.count_n(&format!("ok_{}", e.1), st.ok_sel[k]);
    }
    for e in GM_TABLE {
        rep.count_n(&format!("gm_judged_{}", e.1), st.gm_judged[e.0 as usize]);
    }
    rep
}

// ---------------------------------------------------------------------------------------
// GM IsCallerExternal / GetCaller through a real call chain script -> A -> B

fn gm_call_e2e(rep: &mut Report, st: &mut Stats) {
    use crate::world::{
        ScriptSpec,
        World,
        run_plain,
    };
    use fuel_tx::Receipt;
    let (r10, r11, r12, r13) = (0x10u8, 0x11u8, 0x12u8, 0x13u8);
    // B: logs IsCallerExternal, then the 32 bytes GetCaller points at
    let code_b: Vec<u8> = vec![
        op::gm(r10, 1),
        op::log(r10, RegId::ZERO, RegId::ZERO, RegId::ZERO),
        op::gm(r11, 2),
        op::movi(r12, 32),
        op::logd(RegId::ZERO, RegId::ZERO, r11, r12),
        op::ret(RegId::ONE),
    ]
    .into_iter()
    .collect();
    // A: logs IsCallerExternal, then calls the contract whose call structure its first
    // parameter points at
    let code_a: Vec<u8> = vec![
        op::gm(r10, 1),
        op::log(r10, RegId::ZERO, RegId::ZERO, RegId::ZERO),
        op::lw(r11, RegId::FP, 73),
        op::call(r11, RegId::ZERO, r11, RegId::CGAS),
        op::ret(RegId::ONE),
    ]
    .into_iter()
    .collect();
    // A2: asks for its caller although the caller is the script
    let code_a2: Vec<u8> = vec![op::gm(r10, 2), op::log(r10, RegId::ZERO, RegId::ZERO, RegId::ZERO), op::ret(RegId::ONE)].into_iter().collect();
    let mut w = World::new(ConsensusParameters::standard(), 0);
    let id_a = w.install_contract(code_a, fuel_types::Salt::new([1; 32]), vec![]);
    let id_b = w.install_contract(code_b, fuel_types::Salt::new([2; 32]), vec![]);
    let id_a2 = w.install_contract(code_a2, fuel_types::Salt::new([3; 32]), vec![]);
    // script: builds both call structures on its stack
    let script: Vec<u8> = vec![
        op::gtf(r10, RegId::ZERO, 0x00A),
        op::move_(r11, RegId::SP),
        op::cfei(96),
        op::mcpi(r11, r10, 32),
        op::addi(r12, r11, 48),
        op::sw(r11, r12, 4),
        op::sw(r11, RegId::ZERO, 5),
        op::addi(r13, r10, 32),
        op::mcpi(r12, r13, 32),
        op::sw(r12, RegId::ZERO, 4),
        op::sw(r12, RegId::ZERO, 5),
        op::call(r11, RegId::ZERO, r10, RegId::CGAS),
        op::ret(RegId::ONE),
    ]
    .into_iter()
    .collect();
    let run = |first: fuel_types::ContractId, second: fuel_types::ContractId, salt: u64| -> Result<Vec<Receipt>, String> {
        let mut data = first.to_vec();
        data.extend_from_slice(second.as_ref());
        let spec = ScriptSpec {
            script: script.clone(),
            data,
            gas_limit: 1_000_000,
            max_fee: 0,
            coins: vec![(0, 0, 1000)],
            contracts: vec![first, second],
            ..Default::default()
        };
        let ready = spec.ready(&w, salt)?;
        let (out, _) = run_plain(&w, ready);
        out.state.map(|_| out.receipts)
    };
    st.evals += 2;
    let replay = |what: &str| json!({"e2e": what});
    match run(id_a, id_b, 1) {
        Err(e) => {
            rep.count("harness_setup_failed");
            rep.note(format!("gm call chain could not be run: {e}"));
        }
        Ok(receipts) => {
            let logs: Vec<(fuel_types::ContractId, u64)> = receipts.iter().filter_map(|r| if let Receipt::Log { id, ra, .. } = r { Some((*id, *ra)) } else { None }).collect();
            let logd: Vec<(fuel_types::ContractId, [u8; 32])> = receipts.iter().filter_map(|r| if let Receipt::LogData { id, digest, len: 32, .. } = r { Some((*id, **digest)) } else { None }).collect();
            let want_digest = crate::refmodel::sha256(&[id_a.as_ref()]);
            let ok_a = logs.contains(&(id_a, 1));
            let ok_b = logs.contains(&(id_b, 0));
            let ok_caller = logd.contains(&(id_b, want_digest));
            if !ok_a || !ok_b {
                rep.violation(
                    "C05|GM|IsCallerExternal|call chain script->A->B|wrong answer",
                    format!("expected LOG 1 from A (called by the script) and LOG 0 from B (called by A); receipts: {receipts:?}"),
                    || replay("call_chain"),
                );
            } else {
                st.gm_judged[1] += 2;
                rep.count("ok_gm_IsCallerExternal_in_call");
                rep.class("GM:IsCallerExternal|Script|call frame|ok");
            }
            if !ok_caller {
                rep.violation(
                    "C05|GM|GetCaller|call chain script->A->B|memory at pointer is not the caller's contract id",
                    format!("expected B to LOGD the 32 bytes of A's id {} (digest {}); receipts: {receipts:?}", hx(id_a), hx(want_digest)),
                    || replay("call_chain"),
                );
            } else {
                st.gm_judged[2] += 1;
                rep.count("ok_gm_GetCaller_in_call");
                rep.class("GM:GetCaller|Script|call frame|ok");
            }
        }
    }
    match run(id_a2, id_b, 2) {
        Err(e) => {
            rep.count("harness_setup_failed");
            rep.note(format!("gm call (A2) could not be run: {e}"));
        }
        Ok(receipts) => {
            let reason = receipts.iter().find_map(|r| if let Receipt::Panic { reason, .. } = r { Some(*reason.reason()) } else { None });
            match reason {
                Some(P::ExpectedNestedCaller) | Some(P::ExpectedInternalContext) => {
                    st.gm_judged[2] += 1;
                    rep.class(format!("GM:GetCaller|Script|called by the script|{:?}", reason.unwrap()));
                }
                other => rep.violation(
                    "C05|GM|GetCaller|contract called by the script|expected ExpectedNestedCaller",
                    format!("GetCaller in a contract called directly by the script: panic reason {other:?}; receipts: {receipts:?}"),
                    || replay("call_chain"),
                ),
            }
        }
    }
}

// ---------------------------------------------------------------------------------------

fn run_replay(rec: &Value) -> Report {
    let mut rep = Report::new();
    let mut st = Stats { ok_sel: vec![0; TABLE.len()], ..Default::default() };
    if rec.get("e2e").is_some() {
        gm_call_e2e(&mut rep, &mut st);
        rep.evaluations += st.evals;
        return rep;
    }
    let parsed = (|| -> Option<(Transaction, ConsensusParameters, u32, u64, Ctx, Probe)> {
        let tx: Transaction = serde_json::from_value(rec.get("tx")?.clone()).ok()?;
        let params: ConsensusParameters = serde_json::from_value(rec.get("params")?.clone()).ok()?;
        let height = rec.get("height")?.as_u64()? as u32;
        let gas_price: u64 = rec.get("gas_price")?.as_str()?.parse().ok()?;
        let k = rec.get("pred_idx").and_then(|v| v.as_u64()).unwrap_or(0) as usize;
        let ctx = match rec.get("ctx")?.as_str()? {
            "script" => Ctx::Script,
            "script-reused" => Ctx::ScriptReused,
            "verify" => Ctx::Verify(k),
            "estimate" => Ctx::Estimate(k),
            _ => return None,
        };
        let p = Probe {
            gm: rec.get("gm")?.as_bool()?,
            imm: rec.get("imm")?.as_u64()? as u32,
            idx: rec.get("idx")?.as_str()?.parse().ok()?,
            dst: rec.get("dst")?.as_u64()? as u8,
        };
        Some((tx, params, height, gas_price, ctx, p))
    })();
    let Some((tx, params, height, gas_price, ctx, p)) = parsed else {
        rep.inconclusive = Some("C05 replay record could not be parsed".into());
        return rep;
    };
    let mut rng = Rng::derive(0, 0xC05, 0);
    run_case(&tx, &params, height, gas_price, Plan::Sample, Some((&p, ctx)), Some(rec.get("stale_metadata").and_then(|v| v.as_bool()).unwrap_or(false)), &mut rng, &mut rep, &mut st);
    rep.evaluations += st.evals;
    rep
}

pub fn run(cfg: &Cfg) -> Report {
    // the raw instruction words built here must be what the assembler builds
    PROF.store(cfg.opt("prof").is_some(), std::sync::atomic::Ordering::Relaxed);
    let enc_ok = u32::from(op::gtf(0x10, 0x11, 0x123)) == gtf_word(0x10, 0x11, 0x123) && u32::from(op::gm(0x10, 0x2_0123)) == gm_word(0x10, 0x2_0123);
    let mut rep = if !enc_ok {
        let mut r = Report::new();
        r.inconclusive = Some("C05 harness: raw GTF/GM encoding differs from fuel_asm::op".into());
        r
    } else if let Some(rec) = &cfg.replay {
        run_replay(rec)
    } else {
        par(cfg.threads, |w| worker(cfg, w))
    };
    rep.rule = RULE.into();
    rep.assume("GTF/GM tables transcribed from the FuelVM instruction set (selector numbers cross-read against fuel-asm/src/args.rs); refmodel::canon is the canonical transaction layout (agrees byte-for-byte with to_bytes, C03/C04)");
    rep.assume("VM memory image: tx id at 0, base asset id at 32, balance table of max_inputs x 40 bytes, tx size word, transaction at tx_offset = 72 + 40*max_inputs; the in-memory transaction is vm.transaction() (malleable fields zeroed)");
    rep.assume("ownership rule: owner-policy input's owner, else the owner common to all inputs that have one (coin owner / message recipient), else OwnerIsUnknown");
    rep.assume("panic reasons are judged as sets: absent index -> InputNotFound / OutputNotFound / WitnessNotFound / StorageSlotsNotFound / ProofInUploadNotFound (OutputContractInputIndex: Input- or OutputNotFound; InputContractOutputIndex: InputNotFound or InvalidMetadataIdentifier); selector of another transaction kind or undefined -> InvalidMetadataIdentifier; element of another variant -> the family's NotFound or InvalidMetadataIdentifier; unset policy -> PolicyIsNotSet/PolicyNotFound; GetVerifyingPredicate outside a predicate -> any panic");
    rep.note("unspecified corners (answer accepted if it is the value/pointer of the canonical bytes in memory OR a panic of the family; counted, see counters unspecified_*): deprecated Script*/Create* count/at-index selectors on another transaction kind; ScriptGasLimit on a non-script (0 or InvalidMetadataIdentifier); witness index of predicate inputs; predicate length/data length/gas used/pointers of signed inputs; data length/pointer of messages without data; OutputCoinTo/AssetId on Variable outputs, OutputCoinAmount on Change/Variable outputs; InputContractOutputIndex (UTXO output index as in memory, or position of the Output::Contract referring to the input)");
    if cfg.replay.is_none() && enc_ok {
        for e in TABLE {
            rep.gate(&format!("ok_{}", e.1), rep.counter(&format!("ok_{}", e.1)), 1);
        }
        for e in GM_TABLE {
            rep.gate(&format!("gm_judged_{}", e.1), rep.counter(&format!("gm_judged_{}", e.1)), 1);
        }
        rep.gate("gm_caller_queries_in_a_call", rep.counter("ok_gm_IsCallerExternal_in_call") + rep.counter("ok_gm_GetCaller_in_call"), 2);
        rep.gate("no_setup_failures", (rep.counter("harness_setup_failed") == 0) as u64, 1);
        for k in ["Script", "Create", "Upgrade", "Upload", "Blob"] {
            rep.gate(&format!("ctx_script_{k}"), rep.counter(&format!("ctx_script_{k}")), 1);
        }
        let pred_ctx: u64 = rep.counters.iter().filter(|(k, _)| k.starts_with("ctx_verify_") || k.starts_with("ctx_estimate_")).map(|(_, v)| *v).sum();
        rep.gate("predicate_contexts", pred_ctx, 1);
    }
    rep
}
